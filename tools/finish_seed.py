#!/venv/bin/python
"""finish_seed.py ID [note]  - merge the seeding agent's meta.json with our verification record into /verif/seeded/ID/meta.json
and remove the scratch worktree."""
import json, os, re, subprocess, sys
ID = sys.argv[1]; note = sys.argv[2] if len(sys.argv) > 2 else ""
src = "/tmp/seedwork/%s/meta.json" % ID
out = "/verif/seeded/%s" % ID
meta = json.load(open(src)) if os.path.exists(src) else {"property": ID}
ver = open(os.path.join(out, "verification.txt")).read()
caught = re.findall(r"patch\.diff (C\d\d) (CAUGHT|MISSED|INCONCLUSIVE)", ver)
keys = [l.strip().split(" count=")[0].replace("violation key=", "") for l in ver.splitlines() if l.strip().startswith("violation key=")]
meta.update({
    "property": meta.get("property", ID),
    "breaks_property": meta.get("property", ID),
    "source": "independent sub-agent given only the property text and a scratch git worktree (nothing from /verif)",
    "what_we_ran": ["demo.py on the changed and on the unchanged tree in the scratch worktree (exit 1 / exit 0)",
                    "the repository's full test suite with the change applied (same 1047 passed / 5 baseline failures)",
                    "our quick checks against the patch through `python -m vf.canary seeded/%s/patch.diff <ID>`" % ID],
    "demo_exit_changed": 1 if "exit=1" in ver else None,
    "demo_exit_unchanged": 0 if "exit=0" in ver else None,
    "suite_with_change": (re.findall(r"\d+ failed, \d+ passed", ver) or [None])[0],
    "first_result": dict((p, r) for p, r in reversed(caught)),
    "detected_by": dict((p, r) for p, r in caught),
    "keys_that_fired": keys[:8],
    "note": note,
})
json.dump(meta, open(os.path.join(out, "meta.json"), "w"), indent=1)
if os.path.isdir("/tmp/wt-%s" % ID):
    subprocess.run(["git", "-C", "/repo", "worktree", "remove", "--force", "/tmp/wt-%s" % ID])
print(ID, meta["detected_by"], meta["suite_with_change"])
