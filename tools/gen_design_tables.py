#!/venv/bin/python
"""Regenerates the generated regions of DESIGN.md (between <!-- BEGIN:x --> / <!-- END:x --> markers):
findings (from known_findings.json), seeded (from seeded/*/meta.json), canaries (from canaries/RESULTS.md)."""
import glob, json, os, re
os.chdir("/verif")
kf = json.load(open("known_findings.json"))["findings"]

def esc(s):
    return str(s).replace("|", "\\|").replace("\n", " ")

fixed = [e for e in kf if e["status"] == "fixed"]
known = [e for e in kf if e["status"] == "known"]
out = ["| property | commit | defect (as recorded in known_findings.json) |", "|---|---|---|"]
seen = set()
for e in sorted(fixed, key=lambda e: (e["property"], e["commit"])):
    what = re.sub(r"^fixed: property=\S+ \S+ ", "", e["what"])
    out.append("| %s | %s | %s |" % (e["property"], e["commit"], esc(what)))
out.append("")
out.append("Recorded, not repaired (status `known`; the check prints one KNOWN-FINDING line per entry and exits 0; any *other* key is a VIOLATION):")
out.append("")
out.append("| property | mechanism key | defect | why not repaired here |")
out.append("|---|---|---|---|")
WHY = {
 "C02": "needs an iterative parser / a design decision on degenerate documents",
 "C04": "policy choice (refuse for both orders or for neither) / needs a rule for a tree with one split on two edges",
 "C09": "needs reader support (EQUATE), a notation that NeXML does not have, quote-aware MATRIX loops, or state remapping in concatenate",
 "C11": "needs transactional migration of all components",
 "C12": "recursive copy machinery; documentation-versus-code decision",
 "C13": "changes what NTAX limits in a shared namespace (larger reader change)",
 "C18": "helper API change (forwarding rng to arbitrary callables)",
 "C20": "recursive-descent parser/tokenizer; what NTAX means for a CHARACTERS block that covers a subset of the TAXA block",
}
for e in sorted(known, key=lambda e: e["property"]):
    k = e["key"] if isinstance(e["key"], str) else "; ".join(e["key"])
    out.append("| %s | `%s` | %s | %s |" % (e["property"], esc(k), esc(e["what"]), esc(e.get("why_not_fixed") or WHY.get(e["property"], ""))))
findings = "\n".join(out)

rows = ["| seed | property | what the independent agent changed | needs to manifest | first result | final result | keys that fired |", "|---|---|---|---|---|---|---|"]
for d in sorted(glob.glob("seeded/*/meta.json")):
    m = json.load(open(d))
    sid = d.split("/")[1]
    fr = ", ".join("%s %s" % kv for kv in m.get("first_result", {}).items())
    dr = ", ".join("%s %s" % kv for kv in m.get("detected_by", {}).items())
    keys = "; ".join("`%s`" % esc(k)[:90] for k in m.get("keys_that_fired", [])[:2])
    rows.append("| %s | %s | %s | %s | %s | %s | %s |" % (sid, m.get("property"), esc(m.get("summary", ""))[:260], esc(m.get("needs_to_manifest", ""))[:220], fr, dr, keys))
seeded = "\n".join(rows)

canaries = open("canaries/RESULTS.md").read() if os.path.exists("canaries/RESULTS.md") else "(run tools/canary_table.py)"

s = open("DESIGN.md").read()
for name, text in (("findings", findings), ("seeded", seeded), ("canaries", canaries)):
    pat = re.compile(r"(<!-- BEGIN:%s -->).*?(<!-- END:%s -->)" % (name, name), re.S)
    if not pat.search(s):
        raise SystemExit("marker %s missing in DESIGN.md" % name)
    s = pat.sub(lambda m: m.group(1) + "\n" + text + "\n" + m.group(2), s)
open("DESIGN.md", "w").write(s)
print("DESIGN.md tables regenerated: %d fixed, %d known, %d seeds" % (len(fixed), len(known), len(rows) - 2))
