#!/bin/bash
# verify_seed.sh ID [props...] : confirm a seeded change in its scratch worktree /tmp/wt-ID, then run our checks on it.
# Writes /verif/seeded/ID/{patch.diff,demo.py,meta.json,verification.txt}
ID=$1; shift; PROPS=${@:-$ID}
WT=/tmp/wt-$ID; SW=/tmp/seedwork/$ID; OUT=/verif/seeded/$ID
mkdir -p $OUT
cd $WT || exit 2
git diff > $OUT/patch.diff
[ -s $OUT/patch.diff ] || { echo "no change in worktree"; exit 2; }
cp $SW/demo.py $OUT/demo.py
{
echo "== seeded change $ID, verified $(date -u +%FT%TZ) in scratch worktree $WT (repo HEAD $(git -C /repo rev-parse --short HEAD))"
echo "-- demo with the change applied (expect exit 1):"
PYTHONPATH=$WT/src timeout 600 /venv/bin/python -B $SW/demo.py > /tmp/seedwork/$ID/demo_changed.out 2>&1; echo "exit=$?"; tail -5 /tmp/seedwork/$ID/demo_changed.out
git apply -R $OUT/patch.diff   # (not `git stash`: the stash is shared by all worktrees of /repo)
echo "-- demo on the unchanged tree (expect exit 0):"
PYTHONPATH=$WT/src timeout 600 /venv/bin/python -B $SW/demo.py > /tmp/seedwork/$ID/demo_unchanged.out 2>&1; echo "exit=$?"; tail -3 /tmp/seedwork/$ID/demo_unchanged.out
git apply $OUT/patch.diff
echo "-- our checks (quick tier) on the change:"
cd /verif
for p in $PROPS; do /venv/bin/python -B -m vf.canary $OUT/patch.diff $p | cut -c1-260 | head -6; done
cd $WT
echo "-- repository test suite with the change applied:"
PYTHONPATH=$WT/src /venv/bin/python -m pytest -q -p no:cacheprovider --timeout=900 --continue-on-collection-errors 2>&1 | grep -E "^FAILED|passed|failed" | tail -8
} 2>&1 | tee $OUT/verification.txt
