#!/venv/bin/python
"""Run every canaries/<ID>-<n>-*.diff (not the -fix- ones) against the quick tier of its property and write
canaries/RESULTS.md: file | property | CAUGHT/MISSED | first keys that fired."""
import glob, os, re, subprocess, sys
sys.path.insert(0, "/verif")
os.chdir("/verif")
from vf import canary
only = sys.argv[1:]
rows = []
for f in sorted(glob.glob("canaries/C*.diff")):
    b = os.path.basename(f)
    m = re.match(r"(C\d\d)-(fix|x|A|\d+)-", b)   # A = mutation written by an independent auditor
    if not m or m.group(2) == "fix":
        continue
    pid = m.group(1)
    if only and pid not in only:
        continue
    if not os.path.exists("vf/props/%s.py" % pid):
        continue
    res = canary.run(f, [pid])
    if not res:
        rows.append((b, pid, "PATCH-FAILED", ""))
        continue
    status, keys = res[pid]
    ks = "; ".join(k.split(" count=")[0].replace("violation key=", "") for k in keys[:3])
    rows.append((b, pid, status, ks))
with open("canaries/RESULTS.md", "a" if only else "w") as out:
    if not only:
        out.write("# Canary results (quick tier, seed 0) - regenerate with tools/canary_table.py\n\n| patch | property | result | keys that fired (first 3) |\n|---|---|---|---|\n")
    for r in rows:
        out.write("| %s | %s | %s | %s |\n" % r)
# property-preserving refinements (false alarms of earlier check versions): must be MISSED
ref = []
for f in sorted(glob.glob("canaries/refinements/C*.diff")):
    pid = os.path.basename(f)[:3]
    if only and pid not in only:
        continue
    res = canary.run(f, [pid])
    status = res[pid][0] if res else "PATCH-FAILED"
    ref.append((os.path.basename(f), pid, status))
if ref:
    with open("canaries/RESULTS.md", "a") as out:
        for r in ref:
            out.write("| refinements/%s | %s | %s (a property-preserving change: MISSED is the sound answer) | |\n" % r)
print("done", len(rows), len(ref))
