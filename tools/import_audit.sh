#!/bin/bash
# import_audit.sh ID : copy the auditor's mutations (/tmp/audit/ID/*.diff, not fix-*.diff) into canaries/ID-A-<name>.diff
ID=$1
for f in /tmp/audit/$ID/*.diff; do
  b=$(basename $f .diff)
  case $b in fix-*|*REFINEMENT*|*falsealarm*) continue;; esac
  b=${b#$ID-}
  cp $f canaries/$ID-A-$b.diff
done
ls canaries/$ID-A-* | wc -l
