#!/venv/bin/python
"""mkcanary.py OUT.diff  FILE(relative to /repo)  <<< python-literal list of (old, new) pairs on stdin
   Writes a -p1 unified diff (a/..., b/...) replacing each old by new exactly once."""
import ast, difflib, sys
out, rel = sys.argv[1], sys.argv[2]
pairs = ast.literal_eval(sys.stdin.read())
src = open("/repo/" + rel).read()
new = src
for old, rep in pairs:
    assert new.count(old) == 1, "pattern occurs %d times: %r" % (new.count(old), old[:60])
    new = new.replace(old, rep)
d = difflib.unified_diff(src.splitlines(True), new.splitlines(True), "a/" + rel, "b/" + rel)
open(out, "w").write("".join(d))
print("wrote", out)
