#!/bin/bash
# run every registered check (quick tier unless $1=thorough) and summarise: id, exit code, first line
tier=${1:-quick}; seed=${2:-0}
cd /verif
for p in $(cat vf/REGISTERED); do
  out=$(/venv/bin/python -B -m vf.run $p --tier $tier --seed $seed --no-evidence 2>&1); rc=$?
  echo "$p rc=$rc $(echo "$out" | head -1)"
  echo "$out" | grep -E "^VIOLATION|^INCONCLUSIVE|violation key" | cut -c1-240 | head -8
done
