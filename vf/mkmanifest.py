"""Regenerates MANIFEST.json from the property modules present (python -m vf.mkmanifest)."""
import importlib
import json
import os

from . import core

PY = "/venv/bin/python -B"
BASELINE = ("cd /repo && /venv/bin/python -m pytest -ra -q -p no:cacheprovider --timeout=900 "
            "--continue-on-collection-errors")


def main():
    core.ensure_repo_on_path()
    props = [json.loads(l) for l in open(os.path.join(core.VERIF, "properties.jsonl"))]
    checks, na = [], []
    for p in props:
        pid = p["id"]
        path = os.path.join(core.VERIF, "vf", "props", pid + ".py")
        registered = set(open(os.path.join(core.VERIF, "vf", "REGISTERED")).read().split())
        if not os.path.exists(path) or pid not in registered:
            na.append({"property_id": pid, "reason": "check not built yet (runtime monitors are designed in DESIGN.md section 2)"})
            continue
        mod = importlib.import_module("vf.props." + pid)
        if getattr(mod, "NOT_READY", False):
            na.append({"property_id": pid, "reason": "check under construction"})
            continue
        checks.append({
            "property_id": pid,
            "quick_cmd": "%s -m vf.run %s --tier quick" % (PY, pid),
            "thorough_cmd": "%s -m vf.run %s --tier thorough" % (PY, pid),
            "evidence_file": "evidence/%s.json" % pid,
            "replay_cmd_template": "%s -m vf.run %s --replay {path}" % (PY, pid),
            "engine": "vf",
            "level_claimed": {
                "category": getattr(mod, "LEVEL", "exploration"),
                "text": getattr(mod, "LEVEL_TEXT", "Runtime monitors (hooks, invariant walkers, reference-model oracles) observe the real "
                                "library under generated workloads; the property held on the executions listed in the evidence file, nothing more."),
                "design_ref": "DESIGN.md section 2, %s" % pid,
            },
            "level_note": getattr(mod, "LEVEL_NOTE", "Trusted: the DendroPy-free reference model in vf/ref.py and the oracle code of the property "
                                  "module; CPython; coverage is what the workload reached (see evidence)."),
            "technique": getattr(mod, "TECHNIQUE", "runtime monitoring: hooks + reference-model oracle over generated workloads"),
        })
    doc = {
        "version": 1,
        "setup_cmd": "%s -m vf.selfcheck" % PY,
        "hooks": {
            "guard": "DENDROPY_VERIF",
            "enable": "no source hooks are needed: monitors are installed from the harness by wrapping the real functions at run time "
                      "(vf/mon/hooks.py, sys.monitoring); checks import /repo/src of the working tree in a fresh interpreter",
            "baseline_off_cmd": BASELINE,
            "source_commits": [],
            "add_only": True,
        },
        "engines": [{"name": "vf", "path": "vf/", "serves_properties": [c["property_id"] for c in checks],
                     "kind_free_text": "stdlib-only runtime-monitoring framework: sharded workload runner, hook layer, "
                                       "arborescence walker, JUMP step budgets, reference models, known-findings classifier"}],
        "checks": checks,
        "not_applicable": na,
        "notes": "Family: runtime monitoring. Exit 0 = held on observed executions (KNOWN-FINDING lines allowed), "
                 "1 = VIOLATION, 3 = inconclusive (monitor starved). See DESIGN.md.",
    }
    with open(os.path.join(core.VERIF, "MANIFEST.json"), "w") as f:
        json.dump(doc, f, indent=1)
    print("MANIFEST.json: %d checks, %d not_applicable" % (len(checks), len(na)))


if __name__ == "__main__":
    main()
