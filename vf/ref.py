"""DendroPy-free reference model of a tree ("spec") and the oracles computed on it.

spec := [taxon_label|None, node_label|None, length|None, [child spec, ...]]

Everything here is written from the mathematical definitions (clades, splits,
paths, induced subtrees); nothing imports the library under test."""
import itertools


def S(taxon=None, children=(), length=None, label=None):
    return [taxon, label, length, list(children)]


def is_leaf(s):
    return not s[3]


def preorder(s):
    stack = [s]
    while stack:
        n = stack.pop()
        yield n
        stack.extend(reversed(n[3]))


def postorder(s):
    out = []
    stack = [(s, False)]
    while stack:
        n, done = stack.pop()
        if done or not n[3]:
            out.append(n)
        else:
            stack.append((n, True))
            for c in reversed(n[3]):
                stack.append((c, False))
    return out


def leaves(s):
    return [n for n in preorder(s) if not n[3]]


def leaf_taxa(s):
    return [n[0] for n in preorder(s) if not n[3] and n[0] is not None]


def n_nodes(s):
    return sum(1 for _ in preorder(s))


def clades(s):
    """list of (node, frozenset of leaf taxa below-or-at node) in post-order."""
    out = []
    memo = {}
    for n in postorder(s):
        if not n[3]:
            c = frozenset([n[0]]) if n[0] is not None else frozenset()
        else:
            c = frozenset().union(*[memo[id(ch)] for ch in n[3]])
        memo[id(n)] = c
        out.append((n, c))
    return out


def rooted_clades(s):
    return frozenset(c for _, c in clades(s) if c)


def usplit(c, full):
    return frozenset([c, full - c])


def unrooted_splits(s):
    cl = clades(s)
    full = cl[-1][1]
    return frozenset(usplit(c, full) for _, c in cl)


def topology(s, rooted):
    return rooted_clades(s) if rooted else unrooted_splits(s)


def nontrivial_splits(s, rooted):
    cl = clades(s)
    full = cl[-1][1]
    out = set()
    for _, c in cl:
        if rooted:
            if 1 < len(c) < len(full):
                out.add(c)
        else:
            if 1 < len(c) < len(full) - 1:
                out.add(usplit(c, full))
    return frozenset(out)


def split_lengths(s, rooted):
    """split -> summed length of all edges inducing it (None counts as 0);
    second value: True if any non-root edge lacks a length."""
    cl = clades(s)
    full = cl[-1][1]
    out = {}
    missing = False
    for n, c in cl:
        k = c if rooted else usplit(c, full)
        ln = n[2]
        if ln is None:
            if n is not s:
                missing = True
            ln = 0
        out[k] = out.get(k, 0) + ln
    return out, missing


def total_length(s, include_root_edge=False):
    return sum((n[2] or 0) for n in preorder(s) if (include_root_edge or n is not s))


def has_all_lengths(s):
    return all(n[2] is not None for n in preorder(s) if n is not s)


def parent_map(s):
    pm = {id(s): None}
    for n in preorder(s):
        for c in n[3]:
            pm[id(c)] = n
    return pm


def leaf_paths(s):
    """{(a, b): (length, n_edges, lca_node)} for every ordered pair of distinct
    leaf taxa, with None lengths counted as 0."""
    pm = parent_map(s)
    lv = [n for n in leaves(s) if n[0] is not None]
    anc = {}
    for lf in lv:
        chain = []
        n = lf
        d = 0
        e = 0
        while n is not None:
            chain.append((id(n), n, d, e))
            d += (n[2] or 0)
            e += 1
            n = pm[id(n)]
        anc[lf[0]] = chain
    out = {}
    for a, b in itertools.combinations(lv, 2):
        ia = {i: (d, e) for i, _, d, e in anc[a[0]]}
        for i, n, d, e in anc[b[0]]:
            if i in ia:
                val = (ia[i][0] + d, ia[i][1] + e, n)
                out[(a[0], b[0])] = val
                out[(b[0], a[0])] = val
                break
    return out


def root_distances(s):
    """[(node, distance from root, depth in edges)] pre-order; root edge ignored."""
    out = []
    stack = [(s, 0, 0)]
    while stack:
        n, d, k = stack.pop()
        out.append((n, d, k))
        for c in reversed(n[3]):
            stack.append((c, d + (c[2] or 0), k + 1))
    return out


def canon(s, lengths=True, labels=True, ndigits=None):
    """child-order-free canonical form (nested tuples)."""
    memo = {}
    for n in postorder(s):
        kids = sorted((memo[id(c)] for c in n[3]), key=repr)
        ln = n[2] if lengths else None
        if ln is not None and ndigits is not None:
            ln = round(ln, ndigits)
        memo[id(n)] = (n[0], n[1] if labels else None, ln, tuple(kids))
    return memo[id(s)]


def ordered(s, lengths=True, labels=True):
    memo = {}
    for n in postorder(s):
        memo[id(n)] = (n[0], n[1] if labels else None, n[2] if lengths else None,
                       tuple(memo[id(c)] for c in n[3]))
    return memo[id(s)]


def copy(s):
    memo = {}
    for n in postorder(s):
        memo[id(n)] = [n[0], n[1], n[2], [memo[id(c)] for c in n[3]]]
    return memo[id(s)]


def suppress_unary(s, add_lengths=True):
    """returns a new spec with every outdegree-1 node merged into its child (child
    survives, lengths added; the root edge takes part like any other)."""
    memo = {}
    for n in postorder(s):
        kids = [memo[id(c)] for c in n[3]]
        if len(kids) == 1:
            k = kids[0]
            ln = k[2]
            if add_lengths and n[2] is not None:
                ln = (ln or 0) + n[2]
            memo[id(n)] = [k[0], k[1], ln, k[3]]
        else:
            memo[id(n)] = [n[0], n[1], n[2], kids]
    return memo[id(s)]


def induced(s, keep, suppress=True):
    """Tree induced by the leaves whose taxon is in ``keep`` (None if none).
    Nodes with no surviving leaf vanish; with ``suppress`` nodes left with one
    child are merged into the child, lengths added."""
    keep = set(keep)
    memo = {}
    for n in postorder(s):
        if not n[3]:
            memo[id(n)] = [n[0], n[1], n[2], []] if n[0] in keep else None
            continue
        kids = [memo[id(c)] for c in n[3] if memo[id(c)] is not None]
        if not kids:
            memo[id(n)] = None
        else:
            memo[id(n)] = [n[0], n[1], n[2], kids]
    r = memo[id(s)]
    if r is None:
        return None
    if suppress:
        r = suppress_unary(r)
    return r


def to_newick(s):
    """for witnesses only (not fed to the library)."""
    def f(n):
        t = ""
        if n[3]:
            t = "(" + ",".join(f(c) for c in n[3]) + ")"
        t += (str(n[0]) if n[0] is not None else "") + (("<%s>" % n[1]) if n[1] is not None else "")
        if n[2] is not None:
            t += ":%r" % n[2]
        return t
    import sys
    lim = sys.getrecursionlimit()
    try:
        return f(s) + ";"
    except RecursionError:
        return "<deep tree, %d nodes>" % n_nodes(s)


def reroot(s, k):
    """copy of s re-drawn with its k-th pre-order node as root (edges on the path
    are inverted, each keeps its length). The old root stays as an ordinary node
    (possibly unary)."""
    s = copy(s)
    nodes = list(preorder(s))
    target = nodes[k % len(nodes)]
    pm = parent_map(s)
    path = [target]
    while pm[id(path[-1])] is not None:
        path.append(pm[id(path[-1])])
    # path: target ... root ; invert edges top-down
    lengths = [n[2] for n in path]
    for i in range(len(path) - 1, 0, -1):
        parent, child = path[i], path[i - 1]
        parent[3].remove(child)
        child[3].append(parent)
    for i in range(1, len(path)):
        path[i][2] = lengths[i - 1]
    target[2] = lengths[-1]  # former root edge length (usually None)
    return target
