"""Validate the monitors: apply a property-breaking patch to a scratch copy of
/repo/src (outside /repo and /verif, removed afterwards) and run checks on it.

    python -m vf.canary PATCH.diff C07 [C03 ...] [--tier quick]

Prints one line per check: CAUGHT (exit 1 with VIOLATION) / MISSED (exit 0) / INCONCLUSIVE."""
import os
import shutil
import subprocess
import sys
import tempfile

from . import core


def run(patch, props, tier="quick", seed=0, verbose=False):
    tmp = tempfile.mkdtemp(prefix="vf-scratch-")
    results = {}
    try:
        shutil.copytree("/repo/src", os.path.join(tmp, "src"),
                        ignore=shutil.ignore_patterns("__pycache__", "*.pyc"))
        r = subprocess.run(["patch", "-p1", "-s", "-i", os.path.abspath(patch)], cwd=tmp,
                           stdout=subprocess.PIPE, stderr=subprocess.STDOUT)
        if r.returncode != 0:
            print("patch failed: %s" % r.stdout.decode())
            return None
        env = dict(os.environ)
        env["VF_REPO_SRC"] = os.path.join(tmp, "src")
        env["PYTHONPATH"] = core.VERIF
        for p in props:
            r = subprocess.run([sys.executable, "-B", "-m", "vf.run", p, "--tier", tier, "--seed", str(seed),
                                "--no-evidence"], cwd=core.VERIF, env=env, stdout=subprocess.PIPE,
                               stderr=subprocess.STDOUT)
            out = r.stdout.decode("utf-8", "replace")
            keys = [l.strip() for l in out.splitlines() if l.strip().startswith("violation key=")]
            status = {0: "MISSED", 1: "CAUGHT", 3: "INCONCLUSIVE"}.get(r.returncode, "ERROR(%d)" % r.returncode)
            results[p] = (status, keys)
            print("%s %s %s" % (os.path.basename(patch), p, status))
            for k in keys[:6]:
                print("    " + k[:220])
            if verbose or status.startswith("ERROR") or status == "INCONCLUSIVE":
                print(out[-3000:])
    finally:
        shutil.rmtree(tmp, ignore_errors=True)
    return results


if __name__ == "__main__":
    args = sys.argv[1:]
    tier = "quick"
    verbose = False
    if "--tier" in args:
        i = args.index("--tier")
        tier = args[i + 1]
        del args[i:i + 2]
    if "-v" in args:
        args.remove("-v")
        verbose = True
    run(args[0], args[1:], tier=tier, verbose=verbose)
