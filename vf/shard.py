"""One shard of a check, in its own interpreter:
    python -m vf.shard PROP TIER SEED IDX N OUTFILE [REPLAYFILE]
"""
import faulthandler
import importlib
import json
import sys

from . import core
from .mon import reach


def main(argv):
    prop, tier, seed, idx, n, out = argv[:6]
    seed, idx, n = int(seed), int(idx), int(n)
    replay = argv[6] if len(argv) > 6 else None
    faulthandler.enable()
    core.ensure_repo_on_path()
    mod = importlib.import_module("vf.props.%s" % prop)
    ctx = core.Ctx(prop, tier, seed)
    reach.start()
    try:
        if replay:
            with open(replay) as f:
                doc = json.load(f)
            cases = [doc["case"]] if "case" in doc else doc["cases"]
        else:
            cases = (c for i, c in enumerate(mod.cases(tier, seed)) if i % n == idx)
        if hasattr(mod, "shard_setup"):
            mod.shard_setup(ctx)
        try:
            core.run_cases(mod, ctx, cases, getattr(mod, "CASE_TIMEOUT", 60))
        finally:
            if hasattr(mod, "shard_teardown"):
                mod.shard_teardown(ctx)
    finally:
        seen = reach.seen()
        reach.stop()
    d = ctx.dump()
    d["reach"] = sorted(seen)
    with open(out, "w") as f:
        json.dump(d, f, default=repr)


if __name__ == "__main__":
    main(sys.argv[1:])
