"""Known findings: committed file, read-only at run time.  A violation is matched
by its *mechanism key* (operation | failed oracle clause | innermost library
function ...), never by a hash of random values.  ``fixed`` entries suppress
nothing."""
import fnmatch
import json
import os

from .core import VERIF

PATH = os.path.join(VERIF, "known_findings.json")


def load(prop):
    if not os.path.exists(PATH):
        return []
    with open(PATH) as f:
        doc = json.load(f)
    return [e for e in doc.get("findings", [])
            if e.get("property") == prop and e.get("status") == "known"]


def match(entries, key):
    for e in entries:
        pats = e["key"] if isinstance(e["key"], list) else [e["key"]]
        for p in pats:
            if key == p or fnmatch.fnmatchcase(key, p):
                return e
    return None
