"""Writes evidence/<id>.json from what the monitors observed on this run."""
import json
import os

from . import core


def write(mod, ctx, tier, seed, wall, reach_seen, known_hit, unlisted, incon, nshards):
    want_reach = getattr(mod, "REACH", [])
    cov = {
        "evaluations": ctx.evaluations,
        "distinct_nontrivial": len(ctx.sigs),
        "rule": getattr(mod, "RULE", ""),
        "samples": ctx.samples[:core.MAX_SAMPLES],
        "exhaustive": False,
        "monitor_events": dict(sorted(ctx.events.items())),
        "anchored_functions_entered": {fn: (fn in reach_seen) for fn in want_reach},
        "library_functions_entered_total": len(reach_seen),
        "recorded_not_judged": dict(sorted(ctx.notes.items())),
        "known_findings_observed": {k: {"count": h["count"], "keys": sorted(h["keys"])}
                                    for k, h in sorted(known_hit.items())},
        "unlisted_violation_keys": {k: v["count"] for k, v in sorted(unlisted.items())},
        "inconclusive_cases": len(ctx.inconclusive),
        "inconclusive_reasons": incon[:10] + [c["reason"] for c in ctx.inconclusive[:5]],
        "shards": nshards,
        "verdict": "violated" if unlisted else ("inconclusive" if incon else "held-on-observed"),
    }
    if ctx.states:
        cov["states"] = len(ctx.states)
        cov["transitions"] = len(ctx.transitions)
    doc = {
        "property_id": mod.PROP,
        "tier": tier,
        "seed": seed,
        "level": getattr(mod, "LEVEL", "exploration"),
        "coverage": cov,
        "assumptions": getattr(mod, "ASSUMPTIONS", []),
        "wall_s": round(wall, 2),
        "violations": len(unlisted),
    }
    d = os.path.join(core.VERIF, "evidence")
    os.makedirs(d, exist_ok=True)
    with open(os.path.join(d, "%s.json" % mod.PROP), "w") as f:
        json.dump(doc, f, indent=1, default=repr, sort_keys=False)
