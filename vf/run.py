"""CLI of a check:
    python -m vf.run C07 --tier quick|thorough [--seed N] [--replay FILE]

exit 0  property held on everything explored (KNOWN-FINDING lines allowed)
exit 1  + "VIOLATION property=<id> replay=<path>"  for a violation not listed in known_findings.json
exit 3  inconclusive: a deciding monitor observed too little / an anchored function was never entered /
        a shard died or timed out (no VIOLATION line)
"""
import argparse
import importlib
import json
import os
import shutil
import subprocess
import sys
import tempfile
import time

from . import core, findings, evidence


def _spawn(prop, tier, seed, idx, n, out, replay, hashseed):
    env = dict(os.environ)
    env["PYTHONPATH"] = core.VERIF
    if hashseed is not None:
        env["PYTHONHASHSEED"] = str(hashseed)
    env.setdefault("PYTHONDONTWRITEBYTECODE", "1")
    args = [sys.executable, "-B", "-m", "vf.shard", prop, tier, str(seed), str(idx), str(n), out]
    if replay:
        args.append(replay)
    return subprocess.Popen(args, cwd=core.VERIF, env=env, stdout=subprocess.PIPE,
                            stderr=subprocess.STDOUT)


def main(argv=None):
    ap = argparse.ArgumentParser()
    ap.add_argument("prop")
    ap.add_argument("--tier", default=None)
    ap.add_argument("--seed", type=int, default=None)
    ap.add_argument("--replay", default=None)
    ap.add_argument("--shards", type=int, default=None)
    ap.add_argument("--no-evidence", action="store_true")
    a = ap.parse_args(argv)
    tier = a.tier or os.environ.get("VERIF_TIER") or "quick"
    if tier not in ("quick", "thorough"):
        tier = "quick"
    seed = a.seed if a.seed is not None else int(os.environ.get("VERIF_SEED", "0") or 0)
    prop = a.prop
    t0 = time.time()
    core.ensure_repo_on_path()
    mod = importlib.import_module("vf.props.%s" % prop)
    nshards = a.shards or getattr(mod, "SHARDS", {}).get(tier) or min(16, os.cpu_count() or 4)
    if a.replay:
        nshards = 1
    shard_timeout = getattr(mod, "SHARD_TIMEOUT", {"quick": 900, "thorough": 5400})[tier]
    hashseed = getattr(mod, "HASHSEED", 0)
    tmp = tempfile.mkdtemp(prefix="vf-%s-" % prop)
    ctx = core.Ctx(prop, tier, seed)
    reach_seen = set()
    dead = []
    try:
        procs = []
        for i in range(nshards):
            out = os.path.join(tmp, "shard%d.json" % i)
            procs.append((i, out, _spawn(prop, tier, seed, i, nshards, out,
                                         os.path.abspath(a.replay) if a.replay else None, hashseed)))
        deadline = time.time() + shard_timeout
        for i, out, p in procs:
            try:
                so, _ = p.communicate(timeout=max(1, deadline - time.time()))
            except subprocess.TimeoutExpired:
                p.kill()
                so, _ = p.communicate()
                dead.append((i, "shard exceeded %ss wall clock" % shard_timeout, so[-2000:].decode("utf-8", "replace")))
                continue
            if p.returncode != 0 or not os.path.exists(out):
                dead.append((i, "shard exit status %s" % p.returncode, so[-3000:].decode("utf-8", "replace")))
                continue
            with open(out) as f:
                d = json.load(f)
            ctx.absorb(d)
            reach_seen.update(d.get("reach", []))
    finally:
        shutil.rmtree(tmp, ignore_errors=True)

    if hasattr(mod, "finalize") and not a.replay:
        mod.finalize(ctx, tier)

    # ---- classification -------------------------------------------------------
    known = findings.load(prop)
    known_hit = {}
    unlisted = {}
    for key, v in sorted(ctx.violations.items()):
        e = findings.match(known, key)
        if e is not None:
            k = e["key"] if isinstance(e["key"], str) else e["key"][0]
            h = known_hit.setdefault(k, {"entry": e, "count": 0, "keys": set()})
            h["count"] += v["count"]
            h["keys"].add(key)
        else:
            unlisted[key] = v

    # ---- inconclusive? ----------------------------------------------------------
    incon = []
    for i, why, tail in dead:
        incon.append("shard %d: %s\n%s" % (i, why, tail))
    if not a.replay:
        for name, minimum in getattr(mod, "MIN_EVENTS", {}).items():
            if isinstance(minimum, (tuple, list)):
                minimum = minimum[0 if tier == "quick" else 1]
            if ctx.events.get(name, 0) < minimum:
                incon.append("monitor %r observed %d events (< %d)" % (name, ctx.events.get(name, 0), minimum))
        for fn in getattr(mod, "REACH", []):
            if fn not in reach_seen:
                incon.append("anchored function %s was never entered" % fn)
    if ctx.events.get("shard-stopped-early"):
        incon.append("%d shard(s) stopped early after repeated wall-clock watchdog timeouts" % ctx.events["shard-stopped-early"])

    wall = time.time() - t0
    if not a.no_evidence and not a.replay:
        # evidence first: a closed stdout (| head) must not lose it
        evidence.write(mod, ctx, tier, seed, wall, reach_seen, known_hit, unlisted, incon, nshards)
    print("[%s] tier=%s seed=%d shards=%d evaluations=%d distinct_nontrivial=%d wall=%.1fs" % (
        prop, tier, seed, nshards, ctx.evaluations, len(ctx.sigs), wall))
    ev = ", ".join("%s=%d" % kv for kv in sorted(ctx.events.items()))
    print("  monitor events: %s" % ev)
    if ctx.states:
        print("  distinct states=%d transitions=%d" % (len(ctx.states), len(ctx.transitions)))
    if ctx.notes:
        print("  recorded-not-judged: %s" % ", ".join("%s=%d" % kv for kv in sorted(ctx.notes.items())))
    if ctx.inconclusive:
        print("  inconclusive cases: %d (first: %s)" % (len(ctx.inconclusive), ctx.inconclusive[0]["reason"]))

    for k, h in sorted(known_hit.items()):
        print("KNOWN-FINDING: property=%s %s [key=%s, observed %d times]" % (
            prop, h["entry"]["what"], k, h["count"]))
    if not a.replay:
        # every listed finding is named on every run; one whose (rare) precondition this workload did not meet says so
        for e in known:
            k = e["key"] if isinstance(e["key"], str) else e["key"][0]
            if k not in known_hit:
                print("KNOWN-FINDING: property=%s %s [key=%s, listed; its precondition was not met by this run's workload (observed 0 times)]" % (
                    prop, e["what"], k))

    replay_paths = []
    if unlisted:
        rdir = os.path.join(core.VERIF, "replay")
        os.makedirs(rdir, exist_ok=True)
        for key, v in unlisted.items():
            w = v["witnesses"][0]
            doc = {"property": prop, "key": key, "what": v["what"], "count": v["count"],
                   "tier": tier, "seed": seed, "case": w["case"], "detail": w["detail"],
                   "other_witnesses": v["witnesses"][1:]}
            path = os.path.join("replay", "%s-%s.json" % (prop, core.short_hash(key)))
            with open(os.path.join(core.VERIF, path), "w") as f:
                json.dump(doc, f, indent=1, default=repr)
            replay_paths.append(path)
            print("  violation key=%s count=%d: %s" % (key, v["count"], v["what"]))
            if w.get("detail") is not None:
                print("    detail: %s" % (json.dumps(w["detail"], default=repr)[:600]))
            print("VIOLATION property=%s replay=%s" % (prop, path))

    if unlisted:
        return 1
    if incon:
        for s in incon:
            print("INCONCLUSIVE: %s" % s)
        return 3
    return 0


if __name__ == "__main__":
    sys.exit(main())
