"""C05  Split frequencies, consensus trees and support annotations are exact.

Method: the REAL SplitDistribution / TreeArray / TreeList / treesum code is run on generated
"posterior-like" samples while hooks watch it.  A DendroPy-free reference distribution
(vf.props._c05_util.RefDist: weighted split counts as Fractions, per-split edge lengths and
node ages) is registered for every SplitDistribution the library constructs (hook on
``__init__``; a TreeArray's *requested* flags override those of its private distribution) and
is advanced in lock-step by the hook on ``count_splits_on_tree`` from the raw child lists of
the tree that is being counted.  Queries are interleaved with additions, so a frequency or
summary table cached before "count more trees" must have been invalidated.

Oracle clauses actually implemented
  F  frequency: sd[mask] == sum(w[s in T]) / sum(w) for every split of the reference (trivial
     ones and the root included), 0.0 for masks of splits in no tree, no positive entry in
     ``split_frequencies`` for such a split; splits returned by count_splits_on_tree == splits
     of the tree, each once, with that tree's length / node age.
  C  consensus (SplitDistribution.consensus_tree, reached through TreeArray.consensus_tree,
     TreeList.consensus, treesum.TreeSummarizer.tree_from_splits): every namespace taxon on
     exactly one node, rooting state of the inputs; threshold > 1/2: non-trivial splits ==
     {s : f(s) >= thr}; threshold <= 1/2 or None: all splits >= thr, pairwise compatible, every
     excluded admissible split conflicts with an included split of >= frequency (tie-agnostic
     greedy characterisation; implies maximality).
  S  every summarised tree (consensus, members, unrelated targets, max-credibility trees):
     node.support / annotation / label == f(split of the node) (x100 with percentages);
     edge.length_{mean,median,range,sd} and node.age_{...} == statistics-module values of the
     reference value lists; set_edge_lengths in {support, mean-length, median-length} and node.age
     for {mean-age, median-age}.
  K  collapse_edges_with_less_than_minimum_support: surviving internal splits == those of the
     tree with f >= thr, nothing new, same leaves, every root-to-tip distance kept.
  M  maximum_{product,sum}_of_split_support_tree: returned index is an argmax of the scores the
     collection reports and the tree has the topology of an input tree attaining that maximum.

Soundness limits (deliberately NOT demanded)
  * leaves carry exactly the namespace's taxa; one rooting state per collection; weights >= 0, not
    all zero; a dominant weight is at most 1000x the others (the library treats f within 1e-7 of 1
    as 1 when min_freq is ~1);
  * on workloads whose float sums are inexact (non-dyadic weights) a split within 1e-9 of the
    threshold is a don't-care and values are compared to 1e-9 relative; dyadic workloads are exact;
  * length / age summaries are judged only for splits whose value is present in every tree that
    has the split (a missing length has no value); sd is not judged for a single value (the sample
    sd is undefined there; the library reports inf); sd is compared in variance space
    (|sd^2 - var| <= 1e-9 (var + mean^2)) because the statement does not prescribe an algorithm;
  * hpd / quantile summaries, the scores of the credibility trees themselves (only compared with
    the reference formula as a recorded note) and the edge lengths *derived* from mean ages are
    not judged; node ages only on rooted ultrametric inputs; the lengths of restored trees are not
    judged (the statement speaks of the topology);
  * once a frequency violation has been reported for a distribution nothing downstream of it is
    judged (its consensus / supports would only repeat the same root cause under other keys); a
    node that carries the mask of another split (is_bipartitions_updated=True on a tree whose
    bipartitions are wrong) is reported once under the mask mechanism and not judged further.

Mechanism keys of the defects confirmed on the pinned tree (directed witnesses in run_directed)
  frequency|wrong-value|TreeArray-use_tree_weights-False-ignored
  max-credibility-tree|support-wrong|rooted-tree-carries-unrooted-normalised-split-mask
  summary|sd-is-a-complex-number|one-pass-variance-negative
  treesum.tree_from_splits|unexpected-exception|TypeError|_mean_and_variance_pop_n
  count|same-split-counted-twice-in-one-tree|unrooted      (unifurcation next to a bifurcating root)
The monitor layer (class Monitor) and the reference model live in _c05_util.py.
"""
import random
import warnings

from .. import ref, gen, bridge
from ..mon.hooks import Hooks
from . import _c05_util as U
from ._c05_util import Monitor

PROP = "C05"
LEVEL = "exploration"
TECHNIQUE = "lock-step reference distribution + hooks on the real SplitDistribution/TreeArray/TreeList"
LEVEL_TEXT = "runtime monitoring of generated tree samples against a lock-step reference model"
LEVEL_NOTE = ("held = no oracle clause failed on the executions explored (exhaustive pairs of 4-taxon shapes, "
              "seeded random posterior-like samples); not a proof")
RULE = ("cases = directed witnesses | all unordered pairs of 4-taxon shapes x rooting | seeded small multisets | "
        "lock-step samples (base tree + NNI/SPR walk, 1-12 / 1-60 trees, 4-9 / 4-25 taxa) x rooting x weight vector x "
        "length pattern x route (SplitDistribution / TreeArray / TreeList) x thresholds x summarisation settings | "
        "legacy treesum route; non-trivial = the sample has a split with 0 < f < 1; distinct = distinct "
        "(multiset of canonical topologies, rooting, weights, route, flags)")
REACH = ["treecollectionmodel:SplitDistribution.count_splits_on_tree",
         "treecollectionmodel:SplitDistribution.calc_freqs",
         "treecollectionmodel:SplitDistribution.calc_normalization_weight",
         "treecollectionmodel:SplitDistribution.consensus_tree",
         "_tree:Tree.from_split_bitmasks",
         "treecollectionmodel:SplitDistributionSummarizer.summarize_splits_on_tree",
         "treecollectionmodel:TreeArray.calculate_log_product_of_split_supports",
         "treecollectionmodel:TreeArray.calculate_sum_of_split_supports",
         "treecollectionmodel:SplitDistribution.collapse_edges_with_less_than_minimum_support",
         "_edge:Edge.collapse",
         "treecollectionmodel:TreeList.split_distribution",
         "treecollectionmodel:TreeList.consensus",
         "treecollectionmodel:TreeArray.consensus_tree",
         "treecollectionmodel:TreeArray.maximum_product_of_split_support_tree",
         "treecollectionmodel:TreeArray.maximum_sum_of_split_support_tree",
         "treecollectionmodel:TreeArray.restore_tree",
         "statistics:summarize",
         "treesum:TreeSummarizer.tree_from_splits"]
MIN_EVENTS = {"lockstep-advance": (3000, 100000), "freq-checked": (20000, 1000000),
              "cache-invalidation-observed": (300, 10000), "consensus-checked": (1500, 50000),
              "consensus-majority-checked": (500, 15000), "consensus-greedy-checked": (500, 15000),
              "support-checked": (10000, 400000), "summary-stat-checked": (5000, 200000),
              "age-summary-stat-checked": (300, 10000),
              "collapse-checked": (200, 8000), "maxcred-checked": (200, 8000),
              "hook:SplitDistribution.count_splits_on_tree:return": (3000, 100000)}
ASSUMPTIONS = ["TaxonNamespace.taxon_bitmask is the given taxon->bit assignment (C10) and Tree.encode_bipartitions "
               "labels edges with the masks of their clades (C01); the reference works on label sets and only maps "
               "a label set to a mask to address the library's tables",
               "reference trees are extracted from the raw child lists immediately before each counting call",
               "Python's statistics module is the arbiter for mean / median / sample variance"]
CASE_TIMEOUT = 120

def shard_setup(ctx):
    warnings.simplefilter("ignore")


DIRECTED = ("treearray-use_tree_weights-false", "rooted-mcct-support", "legacy-consensus-no-root-length",
            "identical-float-lengths-sd", "stale-cache-after-more-trees", "boundary-thresholds",
            "unary-near-root-unrooted")


def cases(tier, seed):
    for name in DIRECTED:
        yield {"kind": "directed", "name": name}
    n4 = len(gen.all_shapes(4))
    for rooted in (True, False):
        for i in range(n4):
            for j in range(i, n4):
                yield {"kind": "small", "idx": [i, j], "rooted": rooted}
    quick = tier == "quick"
    for i in range(800 if quick else 8000):
        yield {"kind": "smallrand", "i": i, "seed": seed}
    for i in range(3000 if quick else 45000):
        yield {"kind": "lock", "i": i, "seed": seed}
    for i in range(400 if quick else 4000):
        yield {"kind": "legacy", "i": i, "seed": seed}


# ======================================================================================
#  workload
# ======================================================================================
THRESHOLDS = ("default", 0.5000001, 0.6, 0.75, 0.95, 1.0, 0.5, 0.34, 0.25, 0.1, None, "at-f", "at-f")


def pick_threshold(rng, r):
    t = rng.choice(THRESHOLDS)
    if t == "at-f":
        F = r.nontrivial_freqs() if r is not None and r.n else {}
        F = [f for f in F.values() if f > 0]
        return rng.choice(F) if F else 0.5
    return t


def thr_kw(t):
    return {} if t == "default" else {"min_freq": t}


def make_weights(rng, m, mode):
    if mode == "none":
        return [None] * m
    if mode == "equal":
        w = rng.choice([1.0, 2.0, 0.5, 3])
        return [w] * m
    if mode == "dyadic":
        return [rng.randint(1, 32) / 8.0 for _ in range(m)]
    if mode == "ints":
        return [rng.randint(1, 5) for _ in range(m)]
    if mode == "dominant":
        w = [1.0] * m
        w[rng.randrange(m)] = float(rng.choice([16, 64, 1000]))
        return w
    if mode == "float":
        return [rng.uniform(0.05, 3.0) for _ in range(m)]
    if mode == "mixed-none":
        return [rng.choice([None, 2.0, 0.25, 1.5]) for _ in range(m)]
    if mode == "with-zero":
        w = [rng.randint(1, 16) / 4.0 for _ in range(m)]
        if m > 1:
            w[rng.randrange(m)] = 0.0
        return w
    raise ValueError(mode)


WEIGHT_MODES = ("none", "none", "equal", "dyadic", "dyadic", "ints", "dominant", "float", "mixed-none", "with-zero")
LENGTH_MODES = ("none", "dyadic", "dyadic", "float", "unit", "zeros", "ints", "mixed_missing", "ultra", "ultra",
                "ultra_float", "same_float", "dyadic_rootlen")


def make_sample(rng, n, m, rooted, length_mode, p_unary=0.0):
    """m specs over n taxa: a base tree and an NNI/SPR walk around it, drawn with a preference for the
    early members (so split frequencies are spread over (0,1])."""
    labels = [gen.tname(i) for i in range(n)]
    base = gen.random_spec(rng, n, p_poly=rng.choice([0, 0, 0.2, 0.5]),
                           shape=rng.choice([None, None, None, None, "caterpillar", "balanced", "star"]), names=labels)
    pool = [base]
    for _ in range(rng.randint(0, 6)):
        v = pool[rng.randrange(len(pool))]
        v = gen.nni(v, rng) if rng.random() < 0.7 else gen.spr(v, rng)
        pool.append(v)
    if rng.random() < 0.15:
        pool.append(gen.random_spec(rng, n, p_poly=0.2, names=labels))
    if length_mode == "same_float":
        for p in pool:
            gen.decorate_lengths(p, rng, "float")
    out = []
    for _ in range(m):
        i = min(int(rng.expovariate(0.9)), len(pool) - 1)
        s = ref.copy(pool[i])
        if length_mode in ("ultra", "ultra_float"):
            gen.ultrametric_lengths(s, rng, dyadic=(length_mode == "ultra"))
        elif length_mode == "same_float":
            pass
        elif length_mode == "dyadic_rootlen":
            gen.decorate_lengths(s, rng, "dyadic", root_length=True)
        else:
            gen.decorate_lengths(s, rng, length_mode)
        if not rooted and rng.random() < 0.6:
            internal = [k for k, nd in enumerate(ref.preorder(s)) if nd[3]]
            s = ref.suppress_unary(ref.reroot(s, rng.choice(internal)))
            s[2] = None if length_mode != "dyadic_rootlen" else s[2]
        s = gen.shuffle_children(s, rng)
        if p_unary:
            s = gen.insert_unary(s, rng, p_unary)
        out.append(s)
    return labels, out


def make_ns(labels, rng):
    import dendropy
    sh = list(labels)
    rng.shuffle(sh)
    ns = dendropy.TaxonNamespace(sh)
    for t in ns:
        ns.taxon_bitmask(t)
    return ns


def build(spec, ns, rooted, weight=None):
    t = bridge.build_tree(spec, ns, rooted)
    t.weight = weight
    return t


def rand_summ_kwargs(rng, lengths_ok, ages_ok):
    kw = {}
    if rng.random() < 0.4:
        kw["support_as_percentages"] = True
    if rng.random() < 0.4:
        kw["set_support_as_node_label"] = True
        if rng.random() < 0.6:
            kw["support_label_decimals"] = rng.choice([0, 1, 2, 6])
    if rng.random() < 0.15:
        kw["add_support_as_node_attribute"] = False
    if rng.random() < 0.15:
        kw["add_support_as_node_annotation"] = False
    opts = [None, None, "support", "keep", "clear"]
    if lengths_ok:
        opts += ["mean-length", "median-length", "mean-length"]
    if ages_ok:
        opts += ["mean-age", "median-age", "mean-age"]
    sel = rng.choice(opts)
    if sel is not None:
        kw["set_edge_lengths"] = sel
    return kw


def nontrivial_sig(ctx, r, extra):
    if r is not None and r.n and r.has_conflict():
        ctx.nontrivial((sorted(repr(ref.canon(s, lengths=False)) for s in r.specs), r.rooted,
                        [repr(w) for w in r.weights], extra))


def query_bundle(ctx, mon, rng, sd, ta, specs, ns, rooted, lengths_ok, ages_ok, heavy=True, summarise_first=False):
    """one round of queries on the distribution in its current state."""
    r = mon.ref_of(sd)
    if summarise_first and r is not None and r.queries and not r.tainted:
        # let the summariser be the first reader after "count more trees" (it reads the length / age
        # summary tables before the frequency table)
        tgt = build(ref.copy(rng.choice(r.specs)), ns, rooted)
        try:
            (ta if ta is not None else sd).summarize_splits_on_tree(tgt)
            ctx.ev("summarise-first-after-addition")
        except Exception:
            pass
    if not mon.check_frequencies(sd):
        return
    mon.remember_table(sd)
    r = mon.ref_of(sd)
    obj = ta if ta is not None else sd
    for _ in range(rng.choice([1, 1, 2])):
        t = pick_threshold(rng, r)
        kw = rand_summ_kwargs(rng, lengths_ok, ages_ok)
        if rng.random() < 0.15:
            kw["summarize_splits"] = False
        try:
            con = obj.consensus_tree(**dict(thr_kw(t), **kw))
        except Exception:
            con = None          # reported by the hooks
        if con is not None and kw.get("summarize_splits") is False and rng.random() < 0.7:
            kw2 = rand_summ_kwargs(rng, lengths_ok, ages_ok)
            try:
                obj.summarize_splits_on_tree(con, **kw2)
            except Exception:
                pass
    if not heavy:
        return
    if rng.random() < 0.6:
        # target trees: a member, a neighbour, an unrelated tree
        which = rng.choice(["member", "member", "nni", "unrelated"])
        if which == "member":
            tspec = ref.copy(rng.choice(r.specs))
        elif which == "nni":
            tspec = gen.nni(rng.choice(r.specs), rng)
        else:
            tspec = gen.random_spec(rng, len(mon.full), p_poly=0.2, names=sorted(mon.full))
            gen.decorate_lengths(tspec, rng, "dyadic")
        tgt = build(tspec, ns, rooted)
        kw = rand_summ_kwargs(rng, lengths_ok, ages_ok)
        upd = rng.random() < 0.3
        if upd:
            tgt.encode_bipartitions()
        try:
            obj.summarize_splits_on_tree(tgt, is_bipartitions_updated=upd, **kw)
        except Exception:
            pass
    if rng.random() < 0.5:
        which = rng.choice(["member", "nni", "unrelated", "consensus-all"])
        if which == "member":
            tspec = ref.copy(rng.choice(r.specs))
        elif which == "nni":
            tspec = gen.nni(rng.choice(r.specs), rng)
        elif which == "unrelated":
            tspec = gen.random_spec(rng, len(mon.full), p_poly=0.1, names=sorted(mon.full))
            gen.decorate_lengths(tspec, rng, "dyadic")
        else:
            tspec = None
        if tspec is None:
            try:
                tgt = obj.consensus_tree(min_freq=None, summarize_splits=False)
            except Exception:
                tgt = None
        else:
            tgt = build(tspec, ns, rooted)
        if tgt is not None:
            tgt.encode_bipartitions()      # the restructuring encode performs is not collapse's doing
            t = pick_threshold(rng, r)
            if t is None:
                t = 0.5
            try:
                obj.collapse_edges_with_less_than_minimum_support(tgt, **thr_kw(t))
            except Exception:
                pass
    if ta is not None and rng.random() < 0.7:
        kw = rand_summ_kwargs(rng, lengths_ok, ages_ok)
        if rng.random() < 0.2:
            kw["summarize_splits"] = False
        if rng.random() < 0.2:
            kw["include_external_splits"] = True
        fn = ta.maximum_product_of_split_support_tree if rng.random() < 0.5 else ta.maximum_sum_of_split_support_tree
        try:
            fn(**kw)
        except Exception:
            pass


def run_lock(case, ctx, rng):
    import dendropy
    quick = ctx.tier == "quick"
    n = rng.choice([4, 5, 6, 7, 9] if quick else [4, 5, 6, 8, 10, 14, 18, 25])
    m = rng.choice([1, 2, 3, 4, 5, 6, 8, 12] if quick else [1, 2, 3, 4, 5, 8, 12, 20, 35, 60])
    rooted = rng.random() < 0.5
    length_mode = rng.choice(LENGTH_MODES)
    weight_mode = rng.choice(WEIGHT_MODES)
    route = rng.choice(["sd", "ta", "ta", "tl"])
    use_w = rng.random() < 0.7
    p_unary = 0.25 if rng.random() < 0.06 else 0.0
    labels, specs = make_sample(rng, n, m, rooted, length_mode, p_unary)
    weights = make_weights(rng, m, weight_mode)
    if all(w == 0 for w in weights if w is not None) and any(w is not None for w in weights):
        weights[0] = 1.0
    ns = make_ns(labels, rng)
    ages = length_mode in ("ultra", "ultra_float") and rooted and not p_unary and rng.random() < 0.8
    ign_len = rng.random() < 0.08
    lengths_ok = length_mode not in ("none", "mixed_missing") and not ign_len
    trees = [build(s, ns, rooted, w) for s, w in zip(specs, weights)]
    mon = Monitor(ctx, ns)
    mon.rng = random.Random(rng.random())
    with Hooks(ctx) as hooks:
        mon.install(hooks)
        steps = set([0, m - 1])
        for _ in range(2 if quick else 3):
            steps.add(rng.randrange(m))
        sd = ta = None
        if route == "sd":
            sd = dendropy.SplitDistribution(taxon_namespace=ns, use_tree_weights=use_w, ignore_edge_lengths=ign_len,
                                            ignore_node_ages=not ages)
            for i, t in enumerate(trees):
                upd = rng.random() < 0.2
                if upd:
                    t.encode_bipartitions()
                try:
                    sd.count_splits_on_tree(t, is_bipartitions_updated=upd)
                except Exception:
                    return
                if i in steps:
                    query_bundle(ctx, mon, rng, sd, None, specs, ns, rooted, lengths_ok, ages,
                                 summarise_first=rng.random() < 0.4)
        elif route == "ta":
            ta = dendropy.TreeArray(taxon_namespace=ns, use_tree_weights=use_w, ignore_edge_lengths=ign_len,
                                    ignore_node_ages=not ages,
                                    is_rooted_trees=rng.choice([None, rooted]))
            sd = ta.split_distribution
            for i, t in enumerate(trees):
                try:
                    if rng.random() < 0.5:
                        ta.add_tree(t)
                    else:
                        ta.append(t)
                except Exception as e:
                    ctx.unexpected("TreeArray.add_tree", e)
                    return
                if i in steps:
                    # (not when the known use_tree_weights defect would be mistaken for a summariser fault)
                    query_bundle(ctx, mon, rng, sd, ta, specs, ns, rooted, lengths_ok, ages,
                                 summarise_first=use_w and rng.random() < 0.4)
        else:
            tl = dendropy.TreeList(taxon_namespace=ns)
            cut = sorted(steps)
            done = 0
            for c in cut:
                for t in trees[done:c + 1]:
                    tl.append(t)
                done = c + 1
                kwc = {"use_tree_weights": use_w}
                if ages:
                    kwc["ignore_node_ages"] = False
                if ign_len:
                    kwc["ignore_edge_lengths"] = True
                try:
                    sd = tl.split_distribution(**kwc)      # frequency check in the hook
                except Exception as e:
                    ctx.unexpected("TreeList.split_distribution", e)
                    return
                r = mon.ref_of(sd)
                if r is not None and not r.tainted:
                    query_bundle(ctx, mon, rng, sd, None, specs, ns, rooted, lengths_ok, ages, heavy=rng.random() < 0.3)
                t = pick_threshold(rng, r)
                kw = rand_summ_kwargs(rng, lengths_ok, ages)
                kw.update(kwc)
                try:
                    tl.consensus(**dict(thr_kw(t), **kw))
                except ValueError as e:
                    if kw.get("set_edge_lengths") not in ("mean-length", "median-length", "mean-age", "median-age"):
                        ctx.unexpected("TreeList.consensus", e)
                except Exception as e:
                    ctx.unexpected("TreeList.consensus", e)
                try:
                    if rng.random() < 0.5:
                        tl.maximum_product_of_split_support_tree()
                    else:
                        tl.maximum_sum_of_split_support_tree()
                except Exception as e:
                    ctx.unexpected("TreeList.maximum_tree", e)
        r = mon.ref_of(sd) if sd is not None else None
        nontrivial_sig(ctx, r, (route, use_w, length_mode, ages))
        if case["i"] < 4 and r is not None:
            ctx.sample({"kind": "lock", "route": route, "rooted": rooted, "weights": [repr(w) for w in weights[:6]],
                        "use_tree_weights": use_w, "lengths": length_mode,
                        "trees": [ref.to_newick(s) for s in specs[:4]],
                        "frequencies": sorted(((U.key_repr(k, r.rooted, mon.full), r.freq(k))
                                               for k in r.nontrivial_freqs()), key=lambda x: -x[1])[:8]})


def run_small(ctx, rng, shapes, rooted, weights, sample=False):
    """one-shot routes on a tiny multiset of shapes; every threshold class."""
    import dendropy
    labels = sorted(ref.leaf_taxa(gen.shape_to_spec(shapes[0])))
    specs = [gen.decorate_lengths(gen.shape_to_spec(s), rng, "dyadic") for s in shapes]
    ns = make_ns(labels, rng)
    trees = [build(s, ns, rooted, w) for s, w in zip(specs, weights)]
    mon = Monitor(ctx, ns)
    with Hooks(ctx) as hooks:
        mon.install(hooks)
        tl = dendropy.TreeList(taxon_namespace=ns)
        for t in trees:
            tl.append(t)
        try:
            sd = tl.split_distribution()
        except Exception as e:
            ctx.unexpected("TreeList.split_distribution", e)
            return
        for t in ("default", 1.0, 0.5, 0.34, None):
            try:
                tl.consensus(**thr_kw(t))
                sd.consensus_tree(**thr_kw(t))
            except Exception as e:
                ctx.unexpected("consensus", e)
        ta = dendropy.TreeArray(taxon_namespace=ns)
        for i, t in enumerate(trees):
            ta.add_tree(t)
            mon.check_frequencies(ta.split_distribution)
        for fn in (ta.maximum_product_of_split_support_tree, ta.maximum_sum_of_split_support_tree):
            try:
                fn()
            except Exception:
                pass
        tgt = build(ref.copy(specs[-1]), ns, rooted)
        tgt.encode_bipartitions()
        try:
            ta.collapse_edges_with_less_than_minimum_support(tgt, min_freq=rng.choice([0.5, 0.75, 1.0]))
        except Exception:
            pass
        r = mon.ref_of(sd)
        nontrivial_sig(ctx, r, "small")
        if sample and r is not None:
            ctx.sample({"kind": "small", "rooted": rooted, "trees": [ref.to_newick(s) for s in specs],
                        "weights": [repr(w) for w in weights]})


def run_legacy(ctx, rng):
    import dendropy
    from dendropy.calculate import treesum
    quick = ctx.tier == "quick"
    n = rng.choice([4, 5, 6, 8] if quick else [4, 5, 7, 10, 16])
    m = rng.choice([1, 2, 3, 5, 8] if quick else [1, 2, 3, 5, 8, 20])
    rooted = rng.random() < 0.5
    length_mode = rng.choice(["dyadic_rootlen", "dyadic_rootlen", "none", "dyadic"])
    labels, specs = make_sample(rng, n, m, rooted, length_mode)
    if length_mode == "dyadic_rootlen":
        for s in specs:
            if s[2] is None:
                s[2] = 0.5
    ns = make_ns(labels, rng)
    trees = [build(s, ns, rooted) for s in specs]
    mon = Monitor(ctx, ns)
    with Hooks(ctx) as hooks:
        mon.install(hooks)
        kw = {}
        if rng.random() < 0.5:
            kw["support_as_percentages"] = True
        if rng.random() < 0.5:
            kw["support_as_labels"] = rng.random() < 0.5
        if rng.random() < 0.5:
            kw["support_label_decimals"] = rng.choice([0, 1, 2, 6])
        ts = treesum.TreeSummarizer(**kw)
        sd = dendropy.SplitDistribution(taxon_namespace=ns)
        try:
            ts.count_splits_on_trees(trees, split_distribution=sd)
        except Exception as e:
            ctx.unexpected("treesum.count_splits_on_trees", e)
            return
        if not mon.check_frequencies(sd):
            return
        r = mon.ref_of(sd)
        t = pick_threshold(rng, r)
        t = 0.5 if t == "default" else t
        with_len = length_mode == "dyadic_rootlen"
        try:
            ts.tree_from_splits(sd, min_freq=t, include_edge_lengths=with_len)
        except Exception:
            pass
        tgt = build(gen.nni(rng.choice(specs), rng), ns, rooted)
        try:
            ts.map_split_support_to_tree(tgt, sd)
        except Exception:
            pass
        if with_len or rng.random() < 0.3:
            # the module-level convenience wrapper (mean lengths are always requested by it)
            t2 = rng.choice([0.5, 0.75, 1.0, 0.34])
            try:
                treesum.consensus_tree(trees, min_freq=t2, **kw)
            except Exception:
                pass
        nontrivial_sig(ctx, r, ("legacy", sorted(kw.items())))


# ---- directed witnesses ----------------------------------------------------------------------------------------
def _spec_from_nested(x, ln=1.0):
    if isinstance(x, str):
        return ref.S(x, length=ln)
    return ref.S(None, [_spec_from_nested(c, ln) for c in x], length=ln)


def nested(x, ln=1.0):
    s = _spec_from_nested(x, ln)
    s[2] = None
    return s


def run_directed(case, ctx, rng):
    import dendropy
    from dendropy.calculate import treesum
    name = case["name"]
    labels = ["A", "B", "C", "D", "E"]
    ns = dendropy.TaxonNamespace(labels)
    for t in ns:
        ns.taxon_bitmask(t)
    mon = Monitor(ctx, ns)
    t1 = nested((("A", "B"), ("C", "D"), "E"))
    t2 = nested((("A", "C"), ("B", "D"), "E"))
    t3 = nested((("A", "B"), ("C", "E"), "D"))
    with Hooks(ctx) as hooks:
        mon.install(hooks)
        if name == "treearray-use_tree_weights-false":
            # weights 3,1,1: {A,B} is in 2 of 3 trees; with weights (wrongly) applied 4/5
            for rooted in (True, False):
                ta = dendropy.TreeArray(taxon_namespace=ns, use_tree_weights=False)
                for s, w in ((t1, 3.0), (t2, 1.0), (t3, 1.0)):
                    ta.add_tree(build(ref.copy(s), ns, rooted, w))
                mon.check_frequencies(ta.split_distribution, "directed")
                tl = dendropy.TreeList(taxon_namespace=ns)
                for s, w in ((t1, 3.0), (t2, 1.0), (t3, 1.0)):
                    tl.append(build(ref.copy(s), ns, rooted, w))
                tl.consensus(min_freq=0.7, use_tree_weights=False)
        elif name == "rooted-mcct-support":
            # clade {A,B} contains the first taxon: the restored rooted tree carries the complement mask
            for rooted in (True, False):
                ta = dendropy.TreeArray(taxon_namespace=ns)
                for s in (t1, t1, t2, t3):
                    ta.add_tree(build(ref.copy(s), ns, rooted))
                mon.check_frequencies(ta.split_distribution, "directed")
                ta.maximum_product_of_split_support_tree()
                ta.maximum_sum_of_split_support_tree()
        elif name == "legacy-consensus-no-root-length":
            trees = [build(ref.copy(s), ns, True) for s in (t1, t1, t2)]
            try:
                treesum.consensus_tree(trees, min_freq=0.5)    # root edge without a length: the normal case
            except TypeError:
                pass                                           # reported by the hook on tree_from_splits
        elif name == "identical-float-lengths-sd":
            ta = dendropy.TreeArray(taxon_namespace=ns)
            for _ in range(3):
                ta.add_tree(build(nested((("A", "B"), ("C", "D"), "E"), 0.1), ns, True))
            mon.check_frequencies(ta.split_distribution, "directed")
            ta.consensus_tree(min_freq=0.5)
        elif name == "stale-cache-after-more-trees":
            for rooted in (True, False):
                sd = dendropy.SplitDistribution(taxon_namespace=ns)
                sd.count_splits_on_tree(build(ref.copy(t1), ns, rooted))
                mon.check_frequencies(sd, "directed")
                mon.remember_table(sd)
                sd.consensus_tree(min_freq=0.5)
                t2l = nested((("A", "C"), ("B", "D"), "E"), 3.0)
                sd.count_splits_on_tree(build(ref.copy(t2l), ns, rooted))
                sd.count_splits_on_tree(build(ref.copy(t2l), ns, rooted))
                # first reader after the additions is the summariser (it fetches the age / length tables
                # before the frequency table), then a consensus, and only then an explicit frequency read
                sd.summarize_splits_on_tree(build(ref.copy(t1), ns, rooted))
                sd.consensus_tree(min_freq=0.6)
                mon.check_frequencies(sd, "directed")
        elif name == "boundary-thresholds":
            for rooted in (True, False):
                ta = dendropy.TreeArray(taxon_namespace=ns)
                for s in (t1, t1, t1, t2):
                    ta.add_tree(build(ref.copy(s), ns, rooted))
                mon.check_frequencies(ta.split_distribution, "directed")
                for thr in (0.75, 0.25, 1.0, 0.5, 0.7500001):
                    ta.consensus_tree(min_freq=thr)
                    tgt = build(ref.copy(t1), ns, rooted)
                    tgt.encode_bipartitions()
                    ta.collapse_edges_with_less_than_minimum_support(tgt, min_freq=thr)
                    tgt = build(ref.copy(t2), ns, rooted)
                    tgt.encode_bipartitions()
                    ta.collapse_edges_with_less_than_minimum_support(tgt, min_freq=thr)
        elif name == "unary-near-root-unrooted":
            # unrooted drawings with outdegree-1 nodes next to the root
            u1 = ref.S(None, [ref.S(None, [nested(("A", "B"))]), nested(("C", "D")), ref.S("E")])
            u2 = ref.S(None, [ref.S(None, [nested((("A", "B"), "C"))]), nested(("D", "E"))])
            u3 = ref.S(None, [ref.S(None, [ref.S(None, [nested(("A", "B")), nested(("C", "D"))])]), ref.S("E")])
            for rooted in (False, True):
                sd = dendropy.SplitDistribution(taxon_namespace=ns)
                for s in (u1, u2, u3):
                    sd.count_splits_on_tree(build(ref.copy(s), ns, rooted))
                mon.check_frequencies(sd, "directed")
        ctx.sample({"kind": "directed", "name": name})


def run_case(case, ctx):
    rng = random.Random("%s/%s" % (case.get("seed", 0), sorted(case.items())))
    kind = case["kind"]
    if kind == "directed":
        run_directed(case, ctx, rng)
    elif kind == "small":
        i, j = case["idx"]
        sh = gen.all_shapes(4)
        wsel = (i + j) % 3
        weights = [None, None] if wsel == 0 else ([2.0, 1.0] if wsel == 1 else [1.0, 3.0])
        run_small(ctx, rng, [sh[i], sh[j]], case["rooted"], weights, sample=(i == 3 and j == 7))
    elif kind == "smallrand":
        n = rng.choice([4, 4, 5, 5, 6])
        sh = gen.all_shapes(n)
        k = rng.choice([1, 2, 3, 3, 4])
        shapes = [rng.choice(sh) for _ in range(k)]
        weights = make_weights(rng, k, rng.choice(["none", "dyadic", "ints", "dominant"]))
        run_small(ctx, rng, shapes, rng.random() < 0.5, weights)
    elif kind == "lock":
        run_lock(case, ctx, rng)
    elif kind == "legacy":
        run_legacy(ctx, rng)
    else:
        raise ValueError(kind)
