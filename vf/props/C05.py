"""C05  Split frequencies, consensus trees and support annotations are exact.

Method: the REAL SplitDistribution / TreeArray / TreeList / treesum code is run on generated
"posterior-like" samples while hooks watch it.  A DendroPy-free reference distribution
(vf.props._c05_util.RefDist: weighted split counts as Fractions, per-split edge lengths and
node ages) is registered for every SplitDistribution the library constructs (hook on
``__init__``) and is advanced in lock-step by the hook on ``count_splits_on_tree`` from the raw
child lists of the tree that is being counted; merges (TreeArray.extend / += / + / update,
SplitDistribution.update) and TreeArray.insert are followed at the API boundary.  Queries are
interleaved with additions, so a table cached before "count more trees" must have been invalidated.

Requests are judged at the API boundary: every public entry point (TreeList.consensus /
split_distribution / as_tree_array / maximum_*_tree, TreeArray.from_tree_list / consensus_tree /
summarize_splits_on_tree / collapse_... / maximum_*_tree / restore_tree / +, SplitDistribution.*,
treesum.consensus_tree, TreeSummarizer.*) pushes a frame with what the CALLER asked for (threshold,
summarisation settings, construction flags).  The judges take the values of the outermost frame, so an
alias that drops or alters an argument is judged against the caller's request (key
``<route>-request-not-honoured|...``); an object handed back by an outer entry point that no inner judge
has seen, or that was restructured afterwards, is judged at the outer boundary.

Oracle clauses actually implemented
  F  frequency: sd[mask] == sum(w[s in T]) / sum(w) for every split of the reference (trivial
     ones and the root included), 0.0 for masks of splits in no tree, no positive entry in
     ``split_frequencies`` / ``calc_freqs()`` for such a split; splits returned by count_splits_on_tree ==
     splits of the tree, each once, with that tree's length / node age;
     TreeList.frequency_of_bipartition (split_bitmask= / labels= / taxa= / bipartition=) == the unweighted
     fraction of the list's trees containing the split (present and absent splits).
  C  consensus (SplitDistribution.consensus_tree, TreeArray.consensus_tree, TreeList.consensus,
     treesum.consensus_tree, TreeSummarizer.consensus_tree / tree_from_splits): every namespace taxon on
     exactly one node, rooting state of the inputs; no split that occurs in no tree; threshold > 1/2:
     non-trivial splits == {s : f(s) >= thr}; threshold <= 1/2 or None: all splits >= thr, pairwise
     compatible, every excluded admissible split conflicts with an included split of >= frequency
     (tie-agnostic greedy characterisation; implies maximality).
  S  every summarised tree (consensus, members, unrelated targets, max-credibility and restored trees, trees
     summarised a second time after the collection has grown and after a change in place):
     node.support / annotation / label (decimals or compose function) == f(split of the node) (x100 with
     percentages), exactly one annotation of a name; edge.length_{mean,median,range,sd} and node.age_{...}
     (attributes and / or annotations, as requested) == statistics-module values of the reference value
     lists; set_edge_lengths in {support, mean-length, median-length} and node.age for {mean-age, median-age};
     split_support_iter == the frequencies of the tree's splits; legacy annotate_nodes_and_edges /
     summarize_edge_lengths_on_tree / summarize_node_ages_on_tree (default = mean).
  K  collapse_edges_with_less_than_minimum_support (SplitDistribution and TreeArray): surviving internal
     splits == those of the tree with f >= thr, nothing new, same leaves, every root-to-tip distance kept.
  M  maximum_{product,sum}_of_split_support_tree (TreeArray and TreeList): the monitor asks the collection
     itself for its scores (calculate_*_of_split_supports with the caller's include_external_splits) and the
     returned tree must have the topology of an input tree attaining the maximum of those scores.

Exceptions: nothing is swallowed.  The documented ValueError of a mean / median request is accepted only
when the reference has no length / age values either, that of collapse only when the rooting state of the
target differs from that of the counted trees (both are driven deliberately); otherwise
``...|raised-on-valid-request|...``.  Any other exception is reported by the hook that saw it or by the driver.

Soundness limits (deliberately NOT demanded)
  * leaves carry exactly the namespace's taxa; one rooting state per collection (True / False: the statement
    says "both rooting states", is_rooted=None is not generated); weights >= 0; when all weights counted so
    far are 0 nothing is judged; a dominant weight is at most 1000x the others (the library treats f within
    1e-7 of 1 as 1 when min_freq is ~1); only collections with equal flags are merged;
  * on workloads whose float sums are inexact (non-dyadic weights) a split within 1e-9 of the
    threshold is a don't-care and values are compared to 1e-9 relative; dyadic workloads are exact;
  * length / age summaries are judged only for splits whose value is present in every tree that
    has the split (a missing length has no value; TreeArray's substitution of 0 is not judged); sd is not
    judged for a single value (the sample sd is undefined there; the library reports inf); sd is compared in
    variance space (|sd^2 - var| <= 1e-9 (var + mean^2)) because the statement does not prescribe an algorithm;
  * hpd / quantile summaries, the scores themselves (TreeArray.calculate_*, SplitDistribution.*_on_tree: only
    compared with the reference formula as a recorded note; the statement makes the collection's own scores
    the yardstick), the score attributes set on the returned trees and the edge lengths *derived* from mean
    ages are not judged; node ages only on rooted ultrametric inputs; the lengths of restored trees are not
    judged (the statement speaks of the topology); summariser options outside the statement's list
    (minimum_edge_length, error_on_negative_edge_lengths, *_attr_name / *_annotation_name,
    is_*_annotation_dynamic, taxon_label_age_map, is_force_max_age) are not set;
  * once a frequency violation has been reported for a distribution nothing downstream of it is
    judged (its consensus / supports would only repeat the same root cause under other keys), likewise the
    length / age summaries after a wrong value at counting time; a node that carries the mask of another
    split (is_bipartitions_updated=True on a tree whose bipartitions are wrong) is reported once under the
    mask mechanism and not judged further.

Mechanism keys of the defects confirmed on the pinned tree (directed witnesses in run_directed)
  frequency|wrong-value|TreeArray-use_tree_weights-False-ignored
  max-credibility-tree|support-wrong|rooted-tree-carries-unrooted-normalised-split-mask
  summary|sd-is-a-complex-number|one-pass-variance-negative
  treesum.tree_from_splits|unexpected-exception|TypeError|_mean_and_variance_pop_n
  count|same-split-counted-twice-in-one-tree|unrooted      (unifurcation next to a bifurcating root)
  count|same-split-counted-twice-in-one-tree|unrooted|basal-bifurcation-of-two-leaves   (two-taxon namespace)
  legacy-summarize_node_ages_on_tree|node-age-summary-wrong|mean|target-never-encoded
  legacy-summarize_edge_lengths_on_tree|unexpected-exception|TypeError|...<lambda>      (edge without a length)
The monitor layer (class Monitor) and the reference model live in _c05_util.py.
"""
import random
import warnings

from .. import ref, gen, bridge
from ..mon.hooks import Hooks
from . import _c05_util as U
from ._c05_util import Monitor

PROP = "C05"
LEVEL = "exploration"
TECHNIQUE = ("lock-step reference distribution + hooks on the real SplitDistribution/TreeArray/TreeList/treesum; "
             "requests judged at the API boundary (outermost caller's threshold / settings / flags)")
LEVEL_TEXT = "runtime monitoring of generated tree samples against a lock-step reference model"
LEVEL_NOTE = ("held = no oracle clause failed on the executions explored (exhaustive pairs of 1-4-taxon shapes, "
              "seeded random posterior-like samples); not a proof")
RULE = ("cases = directed witnesses | all unordered pairs of 1-, 2-, 3- and 4-taxon shapes x rooting | seeded small "
        "multisets | lock-step samples (base tree + NNI/SPR walk, 1-12 / 1-60 trees, 4-9 / 4-25 taxa) x rooting x weight "
        "vector x length pattern x route (SplitDistribution / TreeArray add_tree-append-insert-add_trees / TreeList + its "
        "array constructors / merge of 2-3 partial collections by extend, +=, +, update, SplitDistribution.update) x object "
        "history (tree counted, changed in place, counted again; target summarised, collection grown, target changed, "
        "summarised / collapsed again; is_bipartitions_updated honest True) x thresholds x summarisation settings "
        "(attributes / annotations / labels / compose function / edge-length modes, incl. deliberately unanswerable "
        "ones) | legacy treesum routes; non-trivial = the sample has a split with 0 < f < 1; distinct = distinct "
        "(multiset of canonical topologies, rooting, weights, route, flags)")
REACH = ["treecollectionmodel:SplitDistribution.count_splits_on_tree",
         "treecollectionmodel:SplitDistribution.calc_freqs",
         "treecollectionmodel:SplitDistribution.calc_normalization_weight",
         "treecollectionmodel:SplitDistribution.consensus_tree",
         "treecollectionmodel:SplitDistribution.update",
         "treecollectionmodel:SplitDistribution.split_support_iter",
         "treecollectionmodel:SplitDistribution.sum_of_split_support_on_tree",
         "treecollectionmodel:SplitDistribution.log_product_of_split_support_on_tree",
         "_tree:Tree.from_split_bitmasks",
         "treecollectionmodel:SplitDistributionSummarizer.summarize_splits_on_tree",
         "treecollectionmodel:TreeArray.calculate_log_product_of_split_supports",
         "treecollectionmodel:TreeArray.calculate_sum_of_split_supports",
         "treecollectionmodel:SplitDistribution.collapse_edges_with_less_than_minimum_support",
         "treecollectionmodel:TreeArray.collapse_edges_with_less_than_minimum_support",
         "_edge:Edge.collapse",
         "treecollectionmodel:TreeList.split_distribution",
         "treecollectionmodel:TreeList.consensus",
         "treecollectionmodel:TreeList.as_tree_array",
         "treecollectionmodel:TreeList.frequency_of_bipartition",
         "treecollectionmodel:TreeList.maximum_product_of_split_support_tree",
         "treecollectionmodel:TreeList.maximum_sum_of_split_support_tree",
         "treecollectionmodel:TreeArray.from_tree_list",
         "treecollectionmodel:TreeArray.add_trees",
         "treecollectionmodel:TreeArray.insert",
         "treecollectionmodel:TreeArray.update",
         "treecollectionmodel:TreeArray.extend",
         "treecollectionmodel:TreeArray.__iadd__",
         "treecollectionmodel:TreeArray.__add__",
         "treecollectionmodel:TreeArray.consensus_tree",
         "treecollectionmodel:TreeArray.summarize_splits_on_tree",
         "treecollectionmodel:TreeArray.maximum_product_of_split_support_tree",
         "treecollectionmodel:TreeArray.maximum_sum_of_split_support_tree",
         "treecollectionmodel:TreeArray.restore_tree",
         "statistics:summarize",
         "treesum:consensus_tree",
         "treesum:TreeSummarizer.consensus_tree",
         "treesum:TreeSummarizer.tree_from_splits",
         "treesum:TreeSummarizer.map_split_support_to_tree",
         "treesum:TreeSummarizer.annotate_nodes_and_edges",
         "treesum:TreeSummarizer.summarize_edge_lengths_on_tree",
         "treesum:TreeSummarizer.summarize_node_ages_on_tree"]
# (quick, thorough) minima: roughly 45 % of the counts of clean runs
MIN_EVENTS = {"rejected-tree-skipped-by-the-caller": (40, 400), 
    "lockstep-advance": (32000, 900000),
    "freq-checked": (190000, 3700000),
    "absent-split-checked": (48000, 720000),
    "cache-invalidation-observed": (2100, 28000),
    "consensus-checked": (13500, 140000),
    "consensus-majority-checked": (4400, 56000),
    "consensus-greedy-checked": (9000, 86000),
    "support-checked": (155000, 3400000),
    "summary-stat-checked": (600000, 13000000),
    "age-summary-stat-checked": (43000, 1300000),
    "summary-annotation-read": (50000, 1000000),
    "support-label-checked": (40000, 1200000),
    "collapse-checked": (1900, 24000),
    "root-to-tip-checked": (11000, 250000),
    "maxcred-checked": (2500, 25000),
    "maxcred-checked:TreeList": (2400, 24000),
    "maxcred-checked:discriminating": (1250, 13000),
    "merge-followed": (500, 6800),
    "merge-followed:SplitDistribution.update": (90, 1300),
    "merge-followed:TreeArray.__add__": (80, 1300),
    "merge-followed:TreeArray.__iadd__": (90, 1300),
    "merge-followed:TreeArray.extend": (90, 1300),
    "merge-followed:TreeArray.update": (90, 1300),
    "freq-checked-after:merged": (250, 6300),
    "consensus-checked-after-merge": (600, 9200),
    "support-checked-after-merge": (1100, 17000),
    "maxcred-checked-after:merged": (120, 3500),
    "insert-followed": (500, 20000),
    "maxcred-checked-after:inserted": (190, 9000),
    "counted-again-after-change-in-place": (270, 12000),
    "member-changed-in-place-between-queries": (500, 10000),
    "same-tree-summarised-again": (700, 15000),
    "same-tree-summarised-again:changed-in-place": (370, 7500),
    "treelist-frequency-checked": (3400, 42000),
    "support-iter-checked": (650, 10000),
    "calc_freqs-called-directly": (370, 6200),
    "restore-checked": (300, 5200),
    "documented-error:collapse:ValueError": (100, 1700),
    "documented-error:summarize:ValueError": (130, 2300),
    "legacy-annotate-checked": (50, 480),
    "legacy-value-checked:edge-length": (300, 5100),
    "legacy-value-checked:node-age": (20, 670),
    "hook:SplitDistribution.count_splits_on_tree:return": (32000, 900000),
    "hook:TreeArray.summarize_splits_on_tree:return": (1900, 35000),
    "hook:TreeArray.collapse_edges_with_less_than_minimum_support:return": (1500, 16000),
    "hook:TreeList.consensus:return": (4400, 35000),
}
ASSUMPTIONS = ["TaxonNamespace.taxon_bitmask is the given taxon->bit assignment (C10) and Tree.encode_bipartitions "
               "labels edges with the masks of their clades (C01); the reference works on label sets and only maps "
               "a label set to a mask to address the library's tables",
               "reference trees are extracted from the raw child lists immediately before each counting call",
               "Python's statistics module is the arbiter for mean / median / sample variance",
               "a merge is followed at the API boundary as 'self followed by other' (the documented list semantics "
               "of extend / += / + / update); TreeArray.insert(index) places the tree at list position index",
               "TreeList.frequency_of_bipartition is documented as the unweighted proportion of the list's trees"]
CASE_TIMEOUT = 120

def shard_setup(ctx):
    warnings.simplefilter("ignore")


DIRECTED = ("treearray-use_tree_weights-false", "rooted-mcct-support", "legacy-consensus-no-root-length",
            "identical-float-lengths-sd", "stale-cache-after-more-trees", "boundary-thresholds",
            "unary-near-root-unrooted", "merge-then-query", "changed-in-place-then-requeried",
            "requests-through-aliases")


def cases(tier, seed):
    for name in DIRECTED:
        yield {"kind": "directed", "name": name}
    n4 = len(gen.all_shapes(4))
    for rooted in (True, False):
        for i in range(n4):
            for j in range(i, n4):
                yield {"kind": "small", "idx": [i, j], "rooted": rooted}
    for n in (1, 2, 3):                  # namespaces too small for a non-trivial split
        k = len(gen.all_shapes(n))
        for rooted in (True, False):
            for i in range(k):
                for j in range(i, k):
                    yield {"kind": "tiny", "n": n, "idx": [i, j], "rooted": rooted}
    quick = tier == "quick"
    for i in range(800 if quick else 8000):
        yield {"kind": "smallrand", "i": i, "seed": seed}
    for i in range(3000 if quick else 40000):
        yield {"kind": "lock", "i": i, "seed": seed}
    for i in range(400 if quick else 4000):
        yield {"kind": "legacy", "i": i, "seed": seed}


# ======================================================================================
#  workload
# ======================================================================================
THRESHOLDS = ("default", 0.5000001, 0.6, 0.75, 0.95, 1.0, 0.5, 0.34, 0.25, 0.1, None, "at-f", "at-f")


def pick_threshold(rng, r):
    t = rng.choice(THRESHOLDS)
    if t == "at-f":
        F = r.nontrivial_freqs() if r is not None and r.n else {}
        F = [f for f in F.values() if f > 0]
        return rng.choice(F) if F else 0.5
    return t


def thr_kw(t):
    return {} if t == "default" else {"min_freq": t}


def make_weights(rng, m, mode):
    if mode == "none":
        return [None] * m
    if mode == "equal":
        w = rng.choice([1.0, 2.0, 0.5, 3])
        return [w] * m
    if mode == "dyadic":
        return [rng.randint(1, 32) / 8.0 for _ in range(m)]
    if mode == "ints":
        return [rng.randint(1, 5) for _ in range(m)]
    if mode == "dominant":
        w = [1.0] * m
        w[rng.randrange(m)] = float(rng.choice([16, 64, 1000]))
        return w
    if mode == "float":
        return [rng.uniform(0.05, 3.0) for _ in range(m)]
    if mode == "mixed-none":
        return [rng.choice([None, 2.0, 0.25, 1.5]) for _ in range(m)]
    if mode == "with-zero":
        w = [rng.randint(1, 16) / 4.0 for _ in range(m)]
        if m > 1:
            w[rng.randrange(m)] = 0.0
        return w
    raise ValueError(mode)


WEIGHT_MODES = ("none", "none", "equal", "dyadic", "dyadic", "ints", "dominant", "float", "mixed-none", "with-zero")
LENGTH_MODES = ("none", "dyadic", "dyadic", "float", "unit", "zeros", "ints", "mixed_missing", "ultra", "ultra",
                "ultra_float", "same_float", "dyadic_rootlen")


def make_sample(rng, n, m, rooted, length_mode, p_unary=0.0):
    """m specs over n taxa: a base tree and an NNI/SPR walk around it, drawn with a preference for the
    early members (so split frequencies are spread over (0,1])."""
    labels = [gen.tname(i) for i in range(n)]
    base = gen.random_spec(rng, n, p_poly=rng.choice([0, 0, 0.2, 0.5]),
                           shape=rng.choice([None, None, None, None, "caterpillar", "balanced", "star"]), names=labels)
    pool = [base]
    for _ in range(rng.randint(0, 6)):
        v = pool[rng.randrange(len(pool))]
        v = gen.nni(v, rng) if rng.random() < 0.7 else gen.spr(v, rng)
        pool.append(v)
    if rng.random() < 0.15:
        pool.append(gen.random_spec(rng, n, p_poly=0.2, names=labels))
    if length_mode == "same_float":
        for p in pool:
            gen.decorate_lengths(p, rng, "float")
    out = []
    for _ in range(m):
        i = min(int(rng.expovariate(0.9)), len(pool) - 1)
        s = ref.copy(pool[i])
        if length_mode in ("ultra", "ultra_float"):
            gen.ultrametric_lengths(s, rng, dyadic=(length_mode == "ultra"))
        elif length_mode == "same_float":
            pass
        elif length_mode == "dyadic_rootlen":
            gen.decorate_lengths(s, rng, "dyadic", root_length=True)
        else:
            gen.decorate_lengths(s, rng, length_mode)
        if not rooted and rng.random() < 0.6:
            internal = [k for k, nd in enumerate(ref.preorder(s)) if nd[3]]
            s = ref.suppress_unary(ref.reroot(s, rng.choice(internal)))
            s[2] = None if length_mode != "dyadic_rootlen" else s[2]
        s = gen.shuffle_children(s, rng)
        if p_unary:
            s = gen.insert_unary(s, rng, p_unary)
        out.append(s)
    return labels, out


def make_ns(labels, rng):
    import dendropy
    sh = list(labels)
    rng.shuffle(sh)
    ns = dendropy.TaxonNamespace(sh)
    for t in ns:
        ns.taxon_bitmask(t)
    return ns


def build(spec, ns, rooted, weight=None):
    t = bridge.build_tree(spec, ns, rooted)
    t.weight = weight
    return t


def drive(ctx, mon, op, fn, *a, **k):
    """call library code.  Nothing is swallowed: an exception that no hook has judged (accepted as the
    documented error of the request, or reported) is reported here."""
    try:
        return True, fn(*a, **k)
    except Exception as e:
        if mon.seen_by_hooks(e):
            ctx.ev("exception-judged-by-a-hook")
        else:
            mon.report_exc(op, e)
        return False, e


def compose_label(f):
    return "s=%r" % (f,)


def rand_summ_kwargs(rng, lengths_ok, ages_ok):
    kw = {}
    if rng.random() < 0.4:
        kw["support_as_percentages"] = True
    if rng.random() < 0.4:
        kw["set_support_as_node_label"] = True
        if rng.random() < 0.6:
            kw["support_label_decimals"] = rng.choice([0, 1, 2, 6])
        elif rng.random() < 0.25:
            kw["support_label_compose_fn"] = compose_label
    if rng.random() < 0.15:
        kw["add_support_as_node_attribute"] = False
    if rng.random() < 0.15:
        kw["add_support_as_node_annotation"] = False
    for name in ("add_edge_length_summaries_as_edge_attributes", "add_edge_length_summaries_as_edge_annotations",
                 "add_node_age_summaries_as_node_attributes", "add_node_age_summaries_as_node_annotations"):
        if rng.random() < 0.1:
            kw[name] = False
    opts = [None, None, "support", "keep", "clear"]
    if lengths_ok:
        opts += ["mean-length", "median-length", "mean-length"]
    if ages_ok:
        opts += ["mean-age", "median-age", "mean-age"]
    sel = rng.choice(opts)
    if rng.random() < 0.03:
        # whether or not the collection has the values: the documented ValueError is accepted only when it has not
        sel = rng.choice(["mean-length", "median-length", "mean-age", "median-age"])
    if sel is not None:
        kw["set_edge_lengths"] = sel
    return kw


def mutate_in_place(tree, rng, keep_depths=False):
    """change a tree OBJECT that the library has already seen (encoded / counted / summarised): swap the taxa of
    two leaves, swap two subtrees, contract an internal edge, change lengths or the weight.  Only the node API
    is used; bipartitions are NOT re-encoded (that is the callee's job when is_bipartitions_updated is False)."""
    nodes = []
    stack = [tree.seed_node]
    while stack:
        nd = stack.pop()
        nodes.append(nd)
        stack.extend(nd._child_nodes)
    leaves = [nd for nd in nodes if not nd._child_nodes]
    how = rng.choice(["leaf-swap", "leaf-swap", "subtree-swap", "contract", "lengths", "weight"])
    if keep_depths and how in ("subtree-swap", "contract", "lengths"):
        how = "leaf-swap"
    if how == "leaf-swap" and len(leaves) >= 2:
        a, b = rng.sample(leaves, 2)
        a.taxon, b.taxon = b.taxon, a.taxon
    elif how == "subtree-swap":
        cands = [nd for nd in nodes if nd._parent_node is not None]
        for _ in range(8):
            if len(cands) < 2:
                break
            a, b = rng.sample(cands, 2)
            if a._parent_node is b._parent_node:
                continue

            def below(x, y):       # is x below-or-at y
                while x is not None:
                    if x is y:
                        return True
                    x = x._parent_node
                return False
            if below(a, b) or below(b, a):
                continue
            pa, pb = a._parent_node, b._parent_node
            pa.remove_child(a)
            pb.remove_child(b)
            pa.add_child(b)
            pb.add_child(a)
            break
    elif how == "contract":
        cands = [nd for nd in nodes if nd._parent_node is not None and nd._child_nodes]
        if cands:
            v = rng.choice(cands)
            p = v._parent_node
            kids = list(v._child_nodes)
            p.remove_child(v)
            v.clear_child_nodes()
            for c in kids:
                if c.edge.length is not None and v.edge.length is not None:
                    c.edge.length = c.edge.length + v.edge.length
                p.add_child(c)
    elif how == "lengths":
        for nd in nodes:
            if nd._parent_node is not None and nd.edge.length is not None and rng.random() < 0.5:
                nd.edge.length = nd.edge.length + rng.randint(1, 8) / 4.0
    else:
        tree.weight = rng.choice([None, 1.0, 2.0, 0.5, 3.0])
    return how


def nontrivial_sig(ctx, r, extra):
    if r is not None and r.n and r.has_conflict():
        ctx.nontrivial((sorted(repr(ref.canon(s, lengths=False)) for s in r.specs), r.rooted,
                        [repr(w) for w in r.weights], extra))


def make_target(rng, mon, r, ns, rooted):
    which = rng.choice(["member", "member", "nni", "unrelated"])
    if which == "member":
        tspec = ref.copy(rng.choice(r.specs))
    elif which == "nni":
        tspec = gen.nni(rng.choice(r.specs), rng)
    else:
        tspec = gen.random_spec(rng, len(mon.full), p_poly=0.2, names=sorted(mon.full))
        gen.decorate_lengths(tspec, rng, "dyadic")
    return build(tspec, ns, rooted)


def query_bundle(ctx, mon, rng, sd, ta, specs, ns, rooted, lengths_ok, ages_ok, heavy=True, summarise_first=False,
                 kept=None):
    """one round of queries on the distribution in its current state.  ``kept``: trees summarised in an earlier
    round (they are summarised AGAIN here, after the collection has grown, possibly after a change in place)."""
    r = mon.ref_of(sd)
    obj = ta if ta is not None else sd
    if summarise_first and r is not None and r.queries and not r.tainted:
        # let the summariser be the first reader after "count more trees" (it reads the length / age
        # summary tables before the frequency table)
        if kept and rng.random() < 0.5:
            tgt = rng.choice(kept)
        else:
            tgt = build(ref.copy(rng.choice(r.specs)), ns, rooted)
        mon.force_deep = True
        ok, _ = drive(ctx, mon, "summarize_splits_on_tree", obj.summarize_splits_on_tree, tgt)
        mon.force_deep = False
        if ok:
            ctx.ev("summarise-first-after-addition")
    if not mon.check_frequencies(sd, direct=rng.random() < 0.1):
        return
    mon.remember_table(sd)
    r = mon.ref_of(sd)
    if kept:
        # object history: a tree the summariser has decorated before is decorated again with fresh settings
        tgt = rng.choice(kept)
        how = None
        if rng.random() < 0.5:
            how = mutate_in_place(tgt, rng, keep_depths=False)
        kw = rand_summ_kwargs(rng, lengths_ok, ages_ok)
        mon.force_deep = True
        ok, _ = drive(ctx, mon, "summarize_splits_on_tree", obj.summarize_splits_on_tree, tgt, **kw)
        mon.force_deep = False
        if ok:
            ctx.ev("same-tree-summarised-again")
            if how is not None:
                ctx.ev("same-tree-summarised-again:changed-in-place")
    for _ in range(rng.choice([1, 1, 2])):
        t = pick_threshold(rng, r)
        kw = rand_summ_kwargs(rng, lengths_ok, ages_ok)
        if rng.random() < 0.15:
            kw["summarize_splits"] = False
        ok, con = drive(ctx, mon, "consensus_tree", obj.consensus_tree, **dict(thr_kw(t), **kw))
        if not ok:
            con = None
        if con is not None and kw.get("summarize_splits") is False and rng.random() < 0.7:
            kw2 = rand_summ_kwargs(rng, lengths_ok, ages_ok)
            drive(ctx, mon, "summarize_splits_on_tree", obj.summarize_splits_on_tree, con, **kw2)
        if con is not None and kept is not None and len(kept) < 2 and rng.random() < 0.3:
            kept.append(con)
    if not heavy:
        return
    if rng.random() < 0.6:
        # target trees: a member, a neighbour, an unrelated tree
        tgt = make_target(rng, mon, r, ns, rooted)
        kw = rand_summ_kwargs(rng, lengths_ok, ages_ok)
        upd = rng.random() < 0.3
        if upd:
            tgt.encode_bipartitions()
        ok, _ = drive(ctx, mon, "summarize_splits_on_tree", obj.summarize_splits_on_tree, tgt,
                      is_bipartitions_updated=upd, **kw)
        if ok and kept is not None and len(kept) < 2 and rng.random() < 0.5:
            kept.append(tgt)
    if rng.random() < 0.25:
        tgt = make_target(rng, mon, r, ns, rooted)
        unary = any(len(nd._child_nodes) == 1 for nd in tgt.preorder_node_iter())
        if unary or (not rooted and len(tgt.seed_node._child_nodes) == 2) or rng.random() < 0.4:
            # (encoding removes outdegree-1 nodes and an unrooted tree's basal bifurcation: fewer nodes to report on)
            tgt.encode_bipartitions()
        mon.check_support_iter(sd, tgt, rng)
    if rng.random() < 0.5:
        which = rng.choice(["member", "nni", "unrelated", "consensus-all", "recollapse"])
        if which == "member":
            tspec = ref.copy(rng.choice(r.specs))
        elif which == "nni":
            tspec = gen.nni(rng.choice(r.specs), rng)
        elif which == "unrelated":
            tspec = gen.random_spec(rng, len(mon.full), p_poly=0.1, names=sorted(mon.full))
            gen.decorate_lengths(tspec, rng, "dyadic")
        else:
            tspec = None
        if which == "recollapse" and kept:
            # a tree the library has encoded / decorated before, changed in place, collapsed with the default flag
            tgt = rng.choice(kept)
            mutate_in_place(tgt, rng)
        elif tspec is None:
            ok, tgt = drive(ctx, mon, "consensus_tree", obj.consensus_tree, min_freq=None, summarize_splits=False)
            if not ok:
                tgt = None
        else:
            tgt = build(tspec, ns, rooted)
        if tgt is not None:
            if which != "recollapse" or not kept or (not rooted and len(tgt.seed_node._child_nodes) == 2):
                tgt.encode_bipartitions()      # the restructuring encode performs is not collapse's doing
            t = pick_threshold(rng, r)
            if t is None:
                t = 0.5
            drive(ctx, mon, "collapse", obj.collapse_edges_with_less_than_minimum_support, tgt, **thr_kw(t))
    if rng.random() < 0.04:
        # the documented refusal: a target whose rooting state is not that of the counted trees
        tgt = build(ref.copy(rng.choice(r.specs)), ns, not rooted)
        drive(ctx, mon, "collapse", obj.collapse_edges_with_less_than_minimum_support, tgt, min_freq=0.5)
    if ta is not None and rng.random() < 0.7:
        kw = rand_summ_kwargs(rng, lengths_ok, ages_ok)
        if rng.random() < 0.2:
            kw["summarize_splits"] = False
        if rng.random() < 0.2:
            kw["include_external_splits"] = True
        fn = ta.maximum_product_of_split_support_tree if rng.random() < 0.5 else ta.maximum_sum_of_split_support_tree
        drive(ctx, mon, "max-credibility-tree", fn, **kw)
    if ta is not None and len(ta) and rng.random() < 0.2:
        kw = rand_summ_kwargs(rng, lengths_ok, ages_ok)
        drive(ctx, mon, "restore_tree", ta.restore_tree, rng.randrange(len(ta)), summarize_splits_on_tree=True, **kw)


def offer_rejected_tree(ctx, mon, rng, op, fn, t, **kw):
    """a collection that tracks node ages is offered a NON-ultrametric copy of ``t``; the documented refusal must leave the
    collection a summary of the accepted trees only.  True = carry on."""
    import dendropy
    bad = dendropy.Tree(t)
    leaves = [nd for nd in bad.leaf_node_iter()]
    lf = rng.choice(leaves)
    lf.edge.length = (lf.edge.length or 0) + 1.0 + rng.random()
    ok, res = drive(ctx, mon, op, fn, bad, **kw)
    if ok:
        ctx.note("non-ultrametric-tree-accepted-by-a-collection-tracking-ages")
        return True
    if mon.was_documented_rejection(res):
        ctx.ev("rejected-tree-skipped-by-the-caller")
        return True
    return False


def add_to_array(ctx, mon, rng, ta, t):
    """one accession through a random route of the TreeArray interface."""
    upd = rng.random() < 0.2
    if upd:
        t.encode_bipartitions()
    x = rng.random()
    if x < 0.4:
        return drive(ctx, mon, "TreeArray.add_tree", ta.add_tree, t, is_bipartitions_updated=upd)[0]
    if x < 0.7:
        return drive(ctx, mon, "TreeArray.append", ta.append, t, is_bipartitions_updated=upd)[0]
    if x < 0.85:
        return drive(ctx, mon, "TreeArray.insert", ta.insert, rng.randrange(len(ta) + 1), t,
                     is_bipartitions_updated=upd)[0]
    return drive(ctx, mon, "TreeArray.add_trees", ta.add_trees, [t], is_bipartitions_updated=upd)[0]


def run_merge(ctx, mon, rng, trees, specs, ns, rooted, use_w, ign_len, ages, lengths_ok):
    """merge routes: partial collections (one may be empty, one may have filled its caches) are combined by
    TreeArray.extend / += / + / update or SplitDistribution.update; the merged collection is queried, grown
    and queried again."""
    import dendropy
    m = len(trees)
    mode = rng.choice(["extend", "iadd", "add", "update", "sd.update"])
    nparts = rng.choice([2, 2, 3])
    hold = rng.choice([0, 0, 1, 2]) if m > 2 else 0          # trees added after the merge
    body = trees[:m - hold]
    cuts = sorted(rng.randint(0, len(body)) for _ in range(nparts - 1))
    groups = [body[a:b] for a, b in zip([0] + cuts, cuts + [len(body)])]
    parts = []
    for g in groups:
        if mode == "sd.update":
            p = dendropy.SplitDistribution(taxon_namespace=ns, use_tree_weights=use_w, ignore_edge_lengths=ign_len,
                                           ignore_node_ages=not ages)
            for t in g:
                if not drive(ctx, mon, "count_splits_on_tree", p.count_splits_on_tree, t)[0]:
                    return None
            psd = p
        else:
            p = dendropy.TreeArray(taxon_namespace=ns, use_tree_weights=use_w, ignore_edge_lengths=ign_len,
                                   ignore_node_ages=not ages, is_rooted_trees=rng.choice([None, rooted]))
            for t in g:
                if not add_to_array(ctx, mon, rng, p, t):
                    return None
            psd = p.split_distribution
        if g and rng.random() < 0.5:
            # the part has answered queries (its caches are filled) before it is merged
            query_bundle(ctx, mon, rng, psd, None if mode == "sd.update" else p, specs, ns, rooted, lengths_ok, ages,
                         heavy=False)
        parts.append(p)
    merged = parts[0]
    for p in parts[1:]:
        if mode == "extend":
            ok, _ = drive(ctx, mon, "TreeArray.extend", merged.extend, p)
        elif mode == "iadd":
            ok, res = drive(ctx, mon, "TreeArray.__iadd__", merged.__iadd__, p)
            if ok:
                merged = res
        elif mode == "add":
            ok, res = drive(ctx, mon, "TreeArray.__add__", merged.__add__, p)
            if ok:
                merged = res
        elif mode == "update":
            ok, _ = drive(ctx, mon, "TreeArray.update", merged.update, p)
        else:
            ok, _ = drive(ctx, mon, "SplitDistribution.update", merged.update, p)
        if not ok:
            return None
    if mode == "sd.update":
        sd, ta = merged, None
    else:
        sd, ta = merged.split_distribution, merged
    kept = []
    query_bundle(ctx, mon, rng, sd, ta, specs, ns, rooted, lengths_ok, ages, summarise_first=use_w and rng.random() < 0.3,
                 kept=kept)
    for t in trees[m - hold:]:
        if ta is None:
            ok = drive(ctx, mon, "count_splits_on_tree", sd.count_splits_on_tree, t)[0]
        else:
            ok = add_to_array(ctx, mon, rng, ta, t)
        if not ok:
            return sd
    if hold:
        query_bundle(ctx, mon, rng, sd, ta, specs, ns, rooted, lengths_ok, ages, summarise_first=use_w and rng.random() < 0.4,
                     kept=kept)
    # the SOURCES of the merge are collections in their own right: after the merged collection has grown they must still
    # describe their own trees (seeded change C05e: a receiver that lacked a split adopted the source's value lists by
    # reference, so the source's length / age summaries later held foreign values)
    for p in parts:
        if p is merged:
            continue
        psd = p if mode == "sd.update" else p.split_distribution
        r = mon.ref_of(psd)
        if r is None or r.tainted or not r.n:
            continue
        ctx.ev("merge-source-queried-after-the-merge")
        query_bundle(ctx, mon, rng, psd, None if mode == "sd.update" else p, specs, ns, rooted, lengths_ok, ages,
                     summarise_first=True, heavy=False)
    return sd


def run_lock(case, ctx, rng):
    import dendropy
    quick = ctx.tier == "quick"
    n = rng.choice([4, 5, 6, 7, 9] if quick else [4, 5, 6, 8, 10, 14, 18, 25])
    m = rng.choice([1, 2, 3, 4, 5, 6, 8, 12] if quick else [1, 2, 3, 4, 5, 8, 12, 20, 35, 60])
    rooted = rng.random() < 0.5
    length_mode = rng.choice(LENGTH_MODES)
    weight_mode = rng.choice(WEIGHT_MODES)
    route = rng.choice(["sd", "ta", "ta", "tl", "tl", "merge", "merge"])
    use_w = rng.random() < 0.7
    p_unary = 0.25 if rng.random() < 0.06 else 0.0
    labels, specs = make_sample(rng, n, m, rooted, length_mode, p_unary)
    weights = make_weights(rng, m, weight_mode)
    if all(w == 0 for w in weights if w is not None) and any(w is not None for w in weights):
        weights[0] = 1.0
    ns = make_ns(labels, rng)
    ages = length_mode in ("ultra", "ultra_float") and rooted and not p_unary and rng.random() < 0.8
    ign_len = rng.random() < 0.08
    lengths_ok = length_mode not in ("none", "mixed_missing") and not ign_len
    trees = [build(s, ns, rooted, w) for s, w in zip(specs, weights)]
    mon = Monitor(ctx, ns)
    mon.rng = random.Random(rng.random())
    with Hooks(ctx) as hooks:
        mon.install(hooks)
        steps = set([0, m - 1])
        for _ in range(2 if quick else 3):
            steps.add(rng.randrange(m))
        sd = ta = None
        kept = []
        if route == "sd":
            sd = dendropy.SplitDistribution(taxon_namespace=ns, use_tree_weights=use_w, ignore_edge_lengths=ign_len,
                                            ignore_node_ages=not ages)
            for i, t in enumerate(trees):
                upd = rng.random() < 0.2
                if upd:
                    t.encode_bipartitions()
                if not drive(ctx, mon, "count_splits_on_tree", sd.count_splits_on_tree, t, is_bipartitions_updated=upd)[0]:
                    return
                if ages and rng.random() < 0.2:
                    if not offer_rejected_tree(ctx, mon, rng, "count_splits_on_tree", sd.count_splits_on_tree, t):
                        return
                if i and rng.random() < 0.12:
                    # object history: a tree that has been encoded and counted is changed in place and counted
                    # again (as a further member of the multiset) with the default is_bipartitions_updated=False
                    old = trees[rng.randrange(i)]
                    mutate_in_place(old, rng, keep_depths=ages)
                    if not drive(ctx, mon, "count_splits_on_tree", sd.count_splits_on_tree, old)[0]:
                        return
                    ctx.ev("counted-again-after-change-in-place")
                if i in steps:
                    query_bundle(ctx, mon, rng, sd, None, specs, ns, rooted, lengths_ok, ages,
                                 summarise_first=rng.random() < 0.4, kept=kept)
        elif route == "ta":
            ta = dendropy.TreeArray(taxon_namespace=ns, use_tree_weights=use_w, ignore_edge_lengths=ign_len,
                                    ignore_node_ages=not ages,
                                    is_rooted_trees=rng.choice([None, rooted]))
            sd = ta.split_distribution
            for i, t in enumerate(trees):
                if not add_to_array(ctx, mon, rng, ta, t):
                    return
                if ages and rng.random() < 0.2:
                    if not offer_rejected_tree(ctx, mon, rng, "TreeArray.add_tree", rng.choice([ta.add_tree, ta.append]), t):
                        return
                if i and rng.random() < 0.12:
                    old = trees[rng.randrange(i)]
                    mutate_in_place(old, rng, keep_depths=ages)
                    if not drive(ctx, mon, "TreeArray.add_tree", ta.add_tree, old)[0]:
                        return
                    ctx.ev("counted-again-after-change-in-place")
                if i in steps:
                    # (not when the known use_tree_weights defect would be mistaken for a summariser fault)
                    query_bundle(ctx, mon, rng, sd, ta, specs, ns, rooted, lengths_ok, ages,
                                 summarise_first=use_w and rng.random() < 0.4, kept=kept)
        elif route == "merge":
            sd = run_merge(ctx, mon, rng, trees, specs, ns, rooted, use_w, ign_len, ages, lengths_ok)
        else:
            tl = dendropy.TreeList(taxon_namespace=ns)
            cut = sorted(steps)
            done = 0
            all_encoded = rng.random() < 0.15      # every member is kept encoded: is_bipartitions_updated=True is honest
            for c in cut:
                for t in trees[done:c + 1]:
                    tl.append(t)
                    if all_encoded:
                        t.encode_bipartitions()
                if done and rng.random() < 0.6:
                    # object history: members the list's earlier queries have encoded are changed in place
                    for _ in range(rng.choice([1, 1, 2])):
                        t = tl[rng.randrange(done)]
                        mutate_in_place(t, rng, keep_depths=ages)
                        if all_encoded:
                            t.encode_bipartitions()
                        ctx.ev("member-changed-in-place-between-queries")
                done = c + 1
                kwc = {"use_tree_weights": use_w}
                if ages:
                    kwc["ignore_node_ages"] = False
                if ign_len:
                    kwc["ignore_edge_lengths"] = True
                kwu = dict(kwc)
                if all_encoded:
                    kwu["is_bipartitions_updated"] = True
                ok, sd = drive(ctx, mon, "TreeList.split_distribution", tl.split_distribution, **kwu)  # frequency check in the hook
                if not ok:
                    return
                r = mon.ref_of(sd)
                if r is not None and not r.tainted:
                    query_bundle(ctx, mon, rng, sd, None, specs, ns, rooted, lengths_ok, ages, heavy=rng.random() < 0.3)
                if rng.random() < 0.5:
                    mon.check_treelist_frequency(tl, rng)
                t = pick_threshold(rng, r)
                kw = rand_summ_kwargs(rng, lengths_ok, ages)
                kw.update(kwu)
                drive(ctx, mon, "TreeList.consensus", tl.consensus, **dict(thr_kw(t), **kw))
                kwm = {"include_external_splits": True} if rng.random() < 0.2 else {}
                if rng.random() < 0.5:
                    drive(ctx, mon, "TreeList.maximum_tree", tl.maximum_product_of_split_support_tree, **kwm)
                else:
                    drive(ctx, mon, "TreeList.maximum_tree", tl.maximum_sum_of_split_support_tree, **kwm)
                if rng.random() < 0.35:
                    # the list's array constructors, then the array's own queries
                    if rng.random() < 0.5:
                        ok, ta2 = drive(ctx, mon, "TreeList.as_tree_array", tl.as_tree_array, **kwu)
                    else:
                        ok, ta2 = drive(ctx, mon, "TreeArray.from_tree_list", dendropy.TreeArray.from_tree_list, tl, **kwu)
                    if ok:
                        query_bundle(ctx, mon, rng, ta2.split_distribution, ta2, specs, ns, rooted, lengths_ok, ages,
                                     heavy=rng.random() < 0.5)
        r = mon.ref_of(sd) if sd is not None else None
        nontrivial_sig(ctx, r, (route, use_w, length_mode, ages))
        if case["i"] < 4 and r is not None:
            ctx.sample({"kind": "lock", "route": route, "rooted": rooted, "weights": [repr(w) for w in weights[:6]],
                        "use_tree_weights": use_w, "lengths": length_mode,
                        "trees": [ref.to_newick(s) for s in specs[:4]],
                        "frequencies": sorted(((U.key_repr(k, r.rooted, mon.full), r.freq(k))
                                               for k in r.nontrivial_freqs()), key=lambda x: -x[1])[:8]})


def run_small(ctx, rng, shapes, rooted, weights, sample=False):
    """one-shot routes on a tiny multiset of shapes; every threshold class."""
    import dendropy
    labels = sorted(ref.leaf_taxa(gen.shape_to_spec(shapes[0])))
    specs = [gen.decorate_lengths(gen.shape_to_spec(s), rng, "dyadic") for s in shapes]
    ns = make_ns(labels, rng)
    trees = [build(s, ns, rooted, w) for s, w in zip(specs, weights)]
    mon = Monitor(ctx, ns)
    with Hooks(ctx) as hooks:
        mon.install(hooks)
        tl = dendropy.TreeList(taxon_namespace=ns)
        for t in trees:
            tl.append(t)
        ok, sd = drive(ctx, mon, "TreeList.split_distribution", tl.split_distribution)
        if not ok:
            return
        for t in ("default", 1.0, 0.5, 0.34, None):
            drive(ctx, mon, "TreeList.consensus", tl.consensus, **thr_kw(t))
            drive(ctx, mon, "consensus_tree", sd.consensus_tree, **thr_kw(t))
        mon.check_treelist_frequency(tl, rng, n_queries=2)
        ta = dendropy.TreeArray(taxon_namespace=ns)
        for i, t in enumerate(trees):
            if not drive(ctx, mon, "TreeArray.add_tree", ta.add_tree, t)[0]:
                return
            mon.check_frequencies(ta.split_distribution)
        for fn in (ta.maximum_product_of_split_support_tree, ta.maximum_sum_of_split_support_tree,
                   tl.maximum_product_of_split_support_tree, tl.maximum_sum_of_split_support_tree):
            drive(ctx, mon, "max-credibility-tree", fn)
        tgt = build(ref.copy(specs[-1]), ns, rooted)
        tgt.encode_bipartitions()
        drive(ctx, mon, "collapse", ta.collapse_edges_with_less_than_minimum_support, tgt,
              min_freq=rng.choice([0.5, 0.75, 1.0]))
        r = mon.ref_of(sd)
        nontrivial_sig(ctx, r, "small")
        if sample and r is not None:
            ctx.sample({"kind": "small", "rooted": rooted, "trees": [ref.to_newick(s) for s in specs],
                        "weights": [repr(w) for w in weights]})


def run_legacy(ctx, rng):
    import dendropy
    from dendropy.calculate import treesum
    quick = ctx.tier == "quick"
    n = rng.choice([4, 5, 6, 8] if quick else [4, 5, 7, 10, 16])
    m = rng.choice([1, 2, 3, 5, 8] if quick else [1, 2, 3, 5, 8, 20])
    rooted = rng.random() < 0.5
    length_mode = rng.choice(["dyadic_rootlen", "dyadic_rootlen", "none", "dyadic", "ultra"])
    labels, specs = make_sample(rng, n, m, rooted, length_mode)
    if length_mode == "dyadic_rootlen":
        for s in specs:
            if s[2] is None:
                s[2] = 0.5
    ages = length_mode == "ultra" and rooted
    ns = make_ns(labels, rng)
    trees = [build(s, ns, rooted) for s in specs]
    mon = Monitor(ctx, ns)
    with Hooks(ctx) as hooks:
        mon.install(hooks)
        kw = {}
        if rng.random() < 0.5:
            kw["support_as_percentages"] = True
        if rng.random() < 0.5:
            kw["support_as_labels"] = rng.random() < 0.5
        if rng.random() < 0.5:
            kw["support_label_decimals"] = rng.choice([0, 1, 2, 6])
        ts = treesum.TreeSummarizer(**kw)
        sd = dendropy.SplitDistribution(taxon_namespace=ns, ignore_node_ages=not ages)
        if not drive(ctx, mon, "treesum.count_splits_on_trees", ts.count_splits_on_trees, trees, split_distribution=sd)[0]:
            return
        if not mon.check_frequencies(sd):
            return
        r = mon.ref_of(sd)
        t = pick_threshold(rng, r)
        t = 0.5 if t == "default" else t
        with_len = length_mode == "dyadic_rootlen"
        drive(ctx, mon, "treesum.tree_from_splits", ts.tree_from_splits, sd, min_freq=t, include_edge_lengths=with_len)
        tgt = build(gen.nni(rng.choice(specs), rng), ns, rooted)
        drive(ctx, mon, "treesum.map_split_support_to_tree", ts.map_split_support_to_tree, tgt, sd)
        # the summariser's value routes on a fresh (never encoded) target with the default flags
        tgt = make_target(rng, mon, r, ns, rooted)
        if rng.random() < 0.3:
            tgt.encode_bipartitions()
        if length_mode != "none":
            x = rng.random()
            if x < (0.25 if ages else 0.4):
                drive(ctx, mon, "treesum.annotate_nodes_and_edges", ts.annotate_nodes_and_edges, tgt, sd)
            elif x < 0.5 or not ages:
                drive(ctx, mon, "treesum.summarize_edge_lengths_on_tree", ts.summarize_edge_lengths_on_tree, tgt, sd)
            else:
                drive(ctx, mon, "treesum.summarize_node_ages_on_tree", ts.summarize_node_ages_on_tree, tgt, sd)
        if with_len or rng.random() < 0.3:
            # the convenience wrappers (mean lengths are always requested by them)
            t2 = rng.choice([0.5, 0.75, 1.0, 0.34])
            if rng.random() < 0.5:
                drive(ctx, mon, "treesum.consensus_tree", treesum.consensus_tree, trees, min_freq=t2, **kw)
            else:
                drive(ctx, mon, "TreeSummarizer.consensus_tree", ts.consensus_tree, trees, min_freq=t2)
        nontrivial_sig(ctx, r, ("legacy", sorted(kw.items())))


# ---- directed witnesses ----------------------------------------------------------------------------------------
def _spec_from_nested(x, ln=1.0):
    if isinstance(x, str):
        return ref.S(x, length=ln)
    return ref.S(None, [_spec_from_nested(c, ln) for c in x], length=ln)


def nested(x, ln=1.0):
    s = _spec_from_nested(x, ln)
    s[2] = None
    return s


def run_directed(case, ctx, rng):
    import dendropy
    from dendropy.calculate import treesum
    name = case["name"]
    labels = ["A", "B", "C", "D", "E"]
    ns = dendropy.TaxonNamespace(labels)
    for t in ns:
        ns.taxon_bitmask(t)
    mon = Monitor(ctx, ns)
    t1 = nested((("A", "B"), ("C", "D"), "E"))
    t2 = nested((("A", "C"), ("B", "D"), "E"))
    t3 = nested((("A", "B"), ("C", "E"), "D"))

    def D(fn, *a, **k):
        return drive(ctx, mon, "directed:" + name, fn, *a, **k)[1]
    with Hooks(ctx) as hooks:
        mon.install(hooks)
        if name == "treearray-use_tree_weights-false":
            # weights 3,1,1: {A,B} is in 2 of 3 trees; with weights (wrongly) applied 4/5
            for rooted in (True, False):
                ta = dendropy.TreeArray(taxon_namespace=ns, use_tree_weights=False)
                for s, w in ((t1, 3.0), (t2, 1.0), (t3, 1.0)):
                    D(ta.add_tree, build(ref.copy(s), ns, rooted, w))
                mon.check_frequencies(ta.split_distribution, "directed")
                tl = dendropy.TreeList(taxon_namespace=ns)
                for s, w in ((t1, 3.0), (t2, 1.0), (t3, 1.0)):
                    tl.append(build(ref.copy(s), ns, rooted, w))
                D(tl.consensus, min_freq=0.7, use_tree_weights=False)
        elif name == "rooted-mcct-support":
            # clade {A,B} contains the first taxon: the restored rooted tree carries the complement mask
            for rooted in (True, False):
                ta = dendropy.TreeArray(taxon_namespace=ns)
                for s in (t1, t1, t2, t3):
                    D(ta.add_tree, build(ref.copy(s), ns, rooted))
                mon.check_frequencies(ta.split_distribution, "directed")
                D(ta.maximum_product_of_split_support_tree)
                D(ta.maximum_sum_of_split_support_tree)
        elif name == "legacy-consensus-no-root-length":
            trees = [build(ref.copy(s), ns, True) for s in (t1, t1, t2)]
            D(treesum.consensus_tree, trees, min_freq=0.5)    # root edge without a length: the normal case
        elif name == "identical-float-lengths-sd":
            ta = dendropy.TreeArray(taxon_namespace=ns)
            for _ in range(3):
                D(ta.add_tree, build(nested((("A", "B"), ("C", "D"), "E"), 0.1), ns, True))
            mon.check_frequencies(ta.split_distribution, "directed")
            D(ta.consensus_tree, min_freq=0.5)
        elif name == "stale-cache-after-more-trees":
            for rooted in (True, False):
                sd = dendropy.SplitDistribution(taxon_namespace=ns)
                D(sd.count_splits_on_tree, build(ref.copy(t1), ns, rooted))
                mon.check_frequencies(sd, "directed")
                mon.remember_table(sd)
                D(sd.consensus_tree, min_freq=0.5)
                t2l = nested((("A", "C"), ("B", "D"), "E"), 3.0)
                D(sd.count_splits_on_tree, build(ref.copy(t2l), ns, rooted))
                D(sd.count_splits_on_tree, build(ref.copy(t2l), ns, rooted))
                # first reader after the additions is the summariser (it fetches the age / length tables
                # before the frequency table), then a consensus, and only then an explicit frequency read
                D(sd.summarize_splits_on_tree, build(ref.copy(t1), ns, rooted))
                D(sd.consensus_tree, min_freq=0.6)
                mon.check_frequencies(sd, "directed")
        elif name == "boundary-thresholds":
            for rooted in (True, False):
                ta = dendropy.TreeArray(taxon_namespace=ns)
                for s in (t1, t1, t1, t2):
                    D(ta.add_tree, build(ref.copy(s), ns, rooted))
                mon.check_frequencies(ta.split_distribution, "directed")
                for thr in (0.75, 0.25, 1.0, 0.5, 0.7500001):
                    D(ta.consensus_tree, min_freq=thr)
                    tgt = build(ref.copy(t1), ns, rooted)
                    tgt.encode_bipartitions()
                    D(ta.collapse_edges_with_less_than_minimum_support, tgt, min_freq=thr)
                    tgt = build(ref.copy(t2), ns, rooted)
                    tgt.encode_bipartitions()
                    D(ta.collapse_edges_with_less_than_minimum_support, tgt, min_freq=thr)
        elif name == "unary-near-root-unrooted":
            # unrooted drawings with outdegree-1 nodes next to the root
            u1 = ref.S(None, [ref.S(None, [nested(("A", "B"))]), nested(("C", "D")), ref.S("E")])
            u2 = ref.S(None, [ref.S(None, [nested((("A", "B"), "C"))]), nested(("D", "E"))])
            u3 = ref.S(None, [ref.S(None, [ref.S(None, [nested(("A", "B")), nested(("C", "D"))])]), ref.S("E")])
            for rooted in (False, True):
                sd = dendropy.SplitDistribution(taxon_namespace=ns)
                for s in (u1, u2, u3):
                    D(sd.count_splits_on_tree, build(ref.copy(s), ns, rooted))
                mon.check_frequencies(sd, "directed")
        elif name == "merge-then-query":
            # f({A,B}) = 2/3 after merging [t1] with [t1, t2] whichever way the collections are combined
            for rooted in (True, False):
                for how in ("extend", "iadd", "add", "update", "sd.update"):
                    parts = []
                    for group in ((t1,), (), (t1, t2)):
                        p = dendropy.TreeArray(taxon_namespace=ns)
                        for s in group:
                            D(p.add_tree, build(ref.copy(s), ns, rooted, 2.0))
                        if group:
                            mon.check_frequencies(p.split_distribution, "directed")      # caches filled before the merge
                        parts.append(p)
                    m = parts[0]
                    for p in parts[1:]:
                        if how == "extend":
                            D(m.extend, p)
                        elif how == "iadd":
                            m += p
                        elif how == "add":
                            m = m + p
                        elif how == "update":
                            D(m.update, p)
                        else:
                            D(m.split_distribution.update, p.split_distribution)
                    mon.check_frequencies(m.split_distribution, "directed")
                    D(m.split_distribution.consensus_tree, min_freq=0.6)
                    if how != "sd.update":
                        D(m.maximum_product_of_split_support_tree)
        elif name == "changed-in-place-then-requeried":
            # one tree object: counted, B and C exchanged in place, counted / summarised / collapsed again
            for rooted in (True, False):
                tl = dendropy.TreeList(taxon_namespace=ns)
                t = build(ref.copy(t1), ns, rooted)
                tl.append(t)
                tl.append(build(ref.copy(t3), ns, rooted))
                D(tl.split_distribution)
                sd = dendropy.SplitDistribution(taxon_namespace=ns)
                D(sd.count_splits_on_tree, t)
                tgt = build(ref.copy(t1), ns, rooted)
                D(sd.summarize_splits_on_tree, tgt, add_support_as_node_attribute=False)
                lv = dict((nd.taxon.label, nd) for nd in t.leaf_node_iter())
                lv["B"].taxon, lv["C"].taxon = lv["C"].taxon, lv["B"].taxon
                D(tl.split_distribution)
                D(tl.consensus, min_freq=0.5)
                D(sd.count_splits_on_tree, t)
                mon.check_frequencies(sd, "directed")
                lv = dict((nd.taxon.label, nd) for nd in tgt.leaf_node_iter())
                lv["B"].taxon, lv["C"].taxon = lv["C"].taxon, lv["B"].taxon
                mon.force_deep = True
                D(sd.summarize_splits_on_tree, tgt, add_support_as_node_attribute=False)
                mon.force_deep = False
                D(sd.collapse_edges_with_less_than_minimum_support, tgt, min_freq=0.75)
        elif name == "requests-through-aliases":
            # every alias must hand the caller's threshold / settings / flags to the function that does the work
            for rooted in (True, False):
                tl = dendropy.TreeList(taxon_namespace=ns)
                ta = dendropy.TreeArray(taxon_namespace=ns)
                for s, w in ((t1, 1.0), (t1, 1.0), (t2, 2.0), (t3, 1.0)):
                    tl.append(build(ref.copy(s, ), ns, rooted, w))
                    D(ta.add_tree, build(ref.copy(s), ns, rooted, w))
                for thr in (0.3, 0.45, 0.9, None):
                    D(tl.consensus, min_freq=thr, support_as_percentages=True, set_support_as_node_label=True)
                    D(tl.consensus, min_freq=thr, use_tree_weights=False)
                    D(ta.consensus_tree, min_freq=thr, support_as_percentages=True)
                    tgt = build(ref.copy(t1), ns, rooted)
                    D(ta.summarize_splits_on_tree, tgt, support_as_percentages=True, set_support_as_node_label=True,
                      support_label_decimals=1)
                    tgt = build(ref.copy(t2), ns, rooted)
                    tgt.encode_bipartitions()
                    D(ta.collapse_edges_with_less_than_minimum_support, tgt, min_freq=0.3 if thr is None else thr)
                D(ta.restore_tree, 2, summarize_splits_on_tree=True, support_as_percentages=True)
                D(tl.as_tree_array, use_tree_weights=False)
                D(tl.split_distribution, use_tree_weights=False)
                D(treesum.consensus_tree, list(tl), min_freq=0.45, support_as_percentages=True, support_label_decimals=1)
        ctx.sample({"kind": "directed", "name": name})


def run_case(case, ctx):
    rng = random.Random("%s/%s" % (case.get("seed", 0), sorted(case.items())))
    kind = case["kind"]
    if kind == "directed":
        run_directed(case, ctx, rng)
    elif kind == "small":
        i, j = case["idx"]
        sh = gen.all_shapes(4)
        wsel = (i + j) % 3
        weights = [None, None] if wsel == 0 else ([2.0, 1.0] if wsel == 1 else [1.0, 3.0])
        run_small(ctx, rng, [sh[i], sh[j]], case["rooted"], weights, sample=(i == 3 and j == 7))
    elif kind == "tiny":
        i, j = case["idx"]
        sh = gen.all_shapes(case["n"])
        run_small(ctx, rng, [sh[i], sh[j]], case["rooted"], [None, 2.0] if (i + j) % 2 else [None, None])
    elif kind == "smallrand":
        n = rng.choice([4, 4, 5, 5, 6])
        sh = gen.all_shapes(n)
        k = rng.choice([1, 2, 3, 3, 4])
        shapes = [rng.choice(sh) for _ in range(k)]
        weights = make_weights(rng, k, rng.choice(["none", "dyadic", "ints", "dominant"]))
        run_small(ctx, rng, shapes, rng.random() < 0.5, weights)
    elif kind == "lock":
        run_lock(case, ctx, rng)
    elif kind == "legacy":
        run_legacy(ctx, rng)
    else:
        raise ValueError(kind)
