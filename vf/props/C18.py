"""C18  Simulated trees meet their specification for every seed and are reproducible.

The real simulators (treesim.birth_death_tree, birthdeath.fast_birth_death_tree, treesim.uniform_pure_birth_tree,
treesim.pure_kingman_tree / mean_kingman_tree / constrained_kingman_tree / contained_coalescent_tree,
coalescent.coalesce_nodes, and the vectorising wrapper treesim.rand_trees) are run on generated (parameters, seed)
jobs; every argument object is rebuilt from the job descriptor for every run.  Monitors / oracle clauses:

 spec (on the DendroPy-free spec extracted from the raw child lists of the returned tree, plus vf.mon.arbor.check)
   birth-death / pure birth, grown to N extant tips, extinct lineages pruned (default), no gsa_ntax:
     well-formed   arborescence walker silent
     tip-count     exactly N leaves
     taxa          every leaf carries a taxon; the N taxa are pairwise distinct objects with distinct labels
     bifurcating   every internal node has exactly two children
     equidistant   all leaves at the same distance from the root (root edge ignored), 1e-9 relative
   pure / mean Kingman tree over a namespace of N taxa:
     well-formed, bifurcating, equidistant (= ultrametric), and leaf taxa = the namespace's taxa, each exactly once
   gene tree inside a species tree (contained_coalescent_tree, constrained_kingman_tree; species trees are
   ultrametric with dyadic lengths, so divergence times are exact):
     well-formed; for every internal gene node v, every two leaves x (species a), y (species b != a) below
     different children of v: dist(x, v) >= dist_S(a, mrca_S(a, b)) and dist(y, v) >= dist_S(b, mrca_S(a, b))
     (1e-9 relative slack) -- i.e. no join of different species more recent than their divergence.
 rng tripwire
   while a simulator runs with an explicit ``rng``, every public method of dendropy.utility.GLOBAL_RNG and every
   module-level function of ``random`` is a recorder (stack kept); any hit is a violation.  The states of both
   generators are compared before/after as a second line.  When ``rng`` is omitted only module-level ``random`` is
   watched (GLOBAL_RNG is the documented default).
 determinism (ordered structure + taxon labels + node labels + exact float lengths must be identical)
   (a) in-process: twice from random.Random(seed) with fresh arguments;
   (b) across interpreters: the same jobs in two further child processes started with subprocess, one with another
       PYTHONHASHSEED, one with PYTHONHASHSEED unset (other hash seeds, other heap addresses);
   (c) default generator: GLOBAL_RNG.seed(seed) + call without rng  ==  call with rng=Random(seed).
 restart path
   Node.clear_child_nodes called from a birth-death simulator's frame = the restart-after-total-extinction branch
   was executed; counted so that the evidence shows the specification was judged on such runs.

Keys: spec|<simulator>|<clause>[|detail] ; rng-tripwire|<simulator>|<generator.method>|<innermost library function>
(first stray call of the monitored call; "nested-simulator-called-without-the-rng" when a hooked simulator was seen being
called without a generator inside a call that was given one) ; determinism|<simulator>|<what differs>|<in-process |
cross-process | default-generator>, where <what differs> is decided on the two encodings: gene-taxa-permuted-within-
species (equal after relabelling gene leaves by species) / child-order-only / leaf-labels-permuted / lengths-only /
topology.  When the tripwire fired for a job its determinism comparisons are skipped (same root cause, one key).
The witness case of every violation is the single job ({"kind": "jobs", "jobs": [job]}), re-runnable with --replay.

Soundness limits: only the tip-count stopping rule (num_extant_tips), extinct tips pruned, no gsa_ntax, no ``tree=``
continuation, birth > death >= 0 (rate drift sd only tiny, and death drift only when death >= 0.3*birth); population
sizes > 0; every species that reaches contained_coalescent_tree has >= 1 gene; species trees carry lengths on all
non-root edges.  A tree whose lengths are all zero satisfies "equidistant" (the statement asks no more).  Gene trees are
only judged on the join-time clause (their leaf taxa being *copies* outside the gene tree's namespace after
constrained_kingman_tree(decorate_original_tree=False) is recorded, not judged; so are a mismatch between the number of
gene leaves and the number of genes, and extant leaves lacking the ``is_extinct`` attribute).  A differing *namespace*
after two runs is not judged, only the returned tree.  Re-using one species-tree object across calls is explored
(note), not judged.  coalesce_nodes called directly is judged for tripwire + determinism only.  rand_trees is judged
with birth_death_tree as model function (mapping without rng / mapping with rng / callable keyword generator).  A child
interpreter that dies or times out makes the case inconclusive, never a verdict."""
import json
import os
import random
import subprocess
import sys

from .. import ref, bridge, core
from ..mon.hooks import Hooks
from ..mon import arbor
from . import _c18_util as U

PROP = "C18"
LEVEL = "exploration"
TECHNIQUE = ("runtime monitoring: hooks on the real simulators + spec predicates on the extracted tree, RNG tripwire "
             "(recorders on GLOBAL_RNG / module-level random), in-process and cross-interpreter determinism, restart-path counter")
LEVEL_TEXT = ("Runtime monitors (hooks on the simulator entry points, spec predicates on the tree extracted from the raw child "
              "lists, an RNG tripwire on GLOBAL_RNG / module-level random, reruns in-process and in two further interpreters) observe "
              "the real simulators on generated (parameters, seed) jobs; the property held on the executions listed in the evidence "
              "file, nothing more.")
LEVEL_NOTE = ("Trusted: the spec predicates and species-divergence tables of the property module (on vf/ref.py, vf/bridge.py, "
              "vf/mon/arbor.py), CPython's random.Random and subprocess; coverage is the seeds / parameters the workload reached "
              "(see evidence). Distributional correctness of the simulators is not part of the property and is not examined.")
RULE = ("cases = batches of jobs (simulator x parameters x seed); parameters: tip counts 1..40 (quick) / 1..300 (thorough), "
        "birth > death >= 0 incl. death/birth = 0.9, six namespace configurations, pop sizes 0.5..1e4, 1-5 genes per species on "
        "random ultrametric species trees (polytomies, unary nodes, per-edge pop sizes), three gene sampling strategies; "
        "a job is non-trivial when its tree has >= 3 leaves (gene trees: >= 1 cross-species join judged); "
        "distinct = distinct (simulator, parameters, seed)")
REACH = ["birthdeath:birth_death_tree", "birthdeath:fast_birth_death_tree", "birthdeath:uniform_pure_birth_tree",
         "coalescent:coalesce_nodes", "coalescent:time_to_coalescence", "coalescent:expected_tmrca",
         "coalescent:pure_kingman_tree", "coalescent:mean_kingman_tree", "coalescent:constrained_kingman_tree",
         "coalescent:contained_coalescent_tree", "probability:weighted_choice", "treesim:rand_trees"]
MIN_EVENTS = {"spec:bd-tree-judged": (300, 10000), "spec:kingman-tree-judged": (150, 5000),
              "spec:gene-tree-judged": (150, 5000), "spec:cross-species-joins-judged": (1000, 50000),
              "determinism:in-process-judged": (800, 30000), "determinism:cross-process-judged": (1500, 60000),
              "determinism:default-generator-judged": (100, 3000),
              "tripwire:armed-calls": (1500, 60000), "restart:runs-that-restarted": (40, 1000),
              "hook:treesim.birth_death_tree:return": (100, 3000),
              "hook:treesim.contained_coalescent_tree:return": (60, 2000),
              "hook:coalescent.coalesce_nodes:return": (500, 20000)}
ASSUMPTIONS = ["oracles are computed on a DendroPy-free spec extracted from raw child lists; species divergence times come from "
               "the generator's own spec of the species tree (dyadic lengths, exact)",
               "float comparisons 1e-9 relative (equidistance, join times); determinism is exact equality",
               "heap addresses / hash seeds differ between the parent and the two child interpreters (not controlled, observed)"]
CASE_TIMEOUT = 420
SHARD_TIMEOUT = {"quick": 1800, "thorough": 7200}
CHILD_TIMEOUT = 300

HOOKED = (("treesim", "birth_death_tree"), ("treesim", "uniform_pure_birth_tree"), ("treesim", "pure_kingman_tree"),
          ("treesim", "mean_kingman_tree"), ("treesim", "constrained_kingman_tree"),
          ("treesim", "contained_coalescent_tree"), ("birthdeath", "fast_birth_death_tree"))


# ------------------------------------------------------------------------------------------
def cases(tier, seed):
    for name in DIRECTED:
        yield {"kind": "directed", "name": name, "seed": seed}
    if tier == "quick":
        nb, per = 176, 24
    else:
        nb, per = 2400, 36
    for i in range(nb):
        yield {"kind": "batch", "i": i, "n": per, "seed": seed, "tier": tier}   # tier inside: --replay re-creates the same jobs


def _bd(sim, n, birth, death, seed, ns="none", **kw):
    return dict({"sim": sim, "n": n, "birth": birth, "death": death, "seed": seed, "ns": ns, "attr": True}, **kw)


def _contained(nsp, genes, seed, tseed=1, **kw):
    return dict({"sim": "contained_coalescent_tree", "nsp": nsp, "tseed": tseed, "genes_fixed": genes, "seed": seed,
                 "mapping": "create", "pop": "default", "scale": 1, "defpop": 1, "attrname": "pop_size"}, **kw)


def _constrained(nsp, strategy, ngenes, seed, tseed=1, **kw):
    return dict({"sim": "constrained_kingman_tree", "nsp": nsp, "tseed": tseed, "strategy": strategy, "ngenes": ngenes,
                 "seed": seed, "pop": "default", "scale": 1, "decorate": False, "treelist": False, "gmax": 3}, **kw)


def _directed_jobs(name):
    if name == "contained-set-order":      # smallest witness of the known finding: 1 species x 3 genes
        jobs = [_contained(1, 3, s) for s in range(4)]
        jobs += [_contained(2, 3, s, tseed=2) for s in range(3)]
        jobs += [_contained(4, 5, s, tseed=3, pop="random", scale=64) for s in range(3)]
        jobs += [_contained(1, 2, 0), _contained(3, 1, 0, tseed=4), _contained(3, 2, 1, tseed=4, mapping="dict")]
        return jobs
    if name == "smallest":
        jobs = []
        for n in (1, 2, 3):
            for s in (0, 1):
                jobs.append(_bd("birth_death_tree", n, 1.0, 0.5, s))
                jobs.append(_bd("fast_birth_death_tree", n, 1.0, 0.5, s, ns="exact"))
                jobs.append({"sim": "uniform_pure_birth_tree", "n": n, "birth": 1.0, "seed": s})
                jobs.append({"sim": "pure_kingman_tree", "n": n, "pop": 1, "seed": s})
                jobs.append({"sim": "mean_kingman_tree", "n": n, "pop": 10, "seed": s})
                jobs.append({"sim": "coalesce_nodes", "n": n, "pop": 1, "period": 0.125, "expected": False, "seed": s})
        for j in jobs[::3]:
            j["default"] = True
        return jobs
    if name == "restarts":                 # death/birth = 0.9: most seeds take the restart-after-extinction branch
        jobs = []
        for s in range(12):
            jobs.append(_bd("birth_death_tree", 10, 1.0, 0.9, s, ns=U.NS_CFGS[s % 6]))
            jobs.append(_bd("fast_birth_death_tree", 10, 1.0, 0.9, s, ns=U.NS_CFGS[(s + 3) % 6]))
        jobs.append(_bd("birth_death_tree", 6, 2.0, 1.0, 3, bsd=0.04, dsd=0.04))
        for j in jobs[::4]:
            j["default"] = True
        return jobs
    if name == "gene-trees":
        jobs = []
        for k, strat in enumerate(U.STRATEGIES):
            for s in range(3):
                jobs.append(_constrained(4, strat, 3, s, tseed=10 + k, pop=("default", "const", "random")[s], popsize=50,
                                         scale=(1, 64, 1024)[s], decorate=(s == 1), treelist=(s == 2)))
        jobs.append(_constrained(1, "random_uniform", 4, 0))
        jobs.append(_constrained(5, "random_uniform", None, 0, tseed=5))
        jobs += [{"sim": "rand_trees", "form": f, "n": 5, "reps": 3, "birth": 1.0, "death": 0.5, "seed": s}
                 for f in ("mapping", "mapping+rng", "callable") for s in (0, 1)]
        jobs[0]["default"] = True
        return jobs
    raise ValueError(name)


DIRECTED = ("contained-set-order", "smallest", "restarts", "gene-trees")


# ------------------------------------------------------------------------------------------
def viol(ctx, job, key, what, detail=None):
    """report a violation with the single job as the (re-runnable) witness case instead of its whole batch."""
    saved = ctx.case
    ctx.case = {"kind": "jobs", "jobs": [job]}
    try:
        ctx.violation(key, what, detail)
    finally:
        ctx.case = saved


class Monitor(object):
    """pre/post hooks of the simulator entry points: arms the RNG tripwire (explicit rng given) and the
    restart counter around the outermost simulator call; reports tripwire hits."""

    def __init__(self, ctx):
        self.ctx = ctx
        self.active = False
        self.fired = False
        self.tw = None
        self.rc = None
        self.last = None
        self.job = None
        self.nested_without_rng = False

    def _explicit(self, name, args, kw):
        if kw.get("rng") is not None:
            return True
        if name == "rand_trees" and args and args[0] is not None:
            return True
        return False

    def mk_pre(self, name):
        def pre(obj, args, kw):
            if self.active:
                if name != "coalesce_nodes" and kw.get("rng") is None:
                    self.nested_without_rng = True      # e.g. rand_trees calling its model_fn without the generator
                return None
            self.active = True
            self.nested_without_rng = False
            self.tw = U.Tripwire()
            self.rc = U.RestartCounter()
            explicit = self._explicit(name, args, kw)
            self.rc.install()
            self.tw.arm(watch_global_rng=explicit)
            self.ctx.ev("tripwire:armed-calls")
            if not explicit:
                self.ctx.ev("tripwire:armed-calls-default-generator")
            return {"name": name, "explicit": explicit}
        return pre

    def mk_post(self, name):
        def post(snap, obj, args, kw, result, exc):
            if snap is not None:
                self.finish(snap)
        return post

    def finish(self, snap):
        changed = self.tw.disarm()
        self.rc.uninstall()
        self.active = False
        ctx = self.ctx
        name = snap["name"]
        if self.tw.hits:
            # one violation per monitored call, keyed by the first stray call (deterministic) -- or, when a nested
            # simulator was observed being called without the generator, by that mechanism
            which, inner, stack = self.tw.hits[0]
            ctx.ev("tripwire:hits", len(self.tw.hits))
            if self.nested_without_rng and snap["explicit"]:
                key = "rng-tripwire|%s|%s|nested-simulator-called-without-the-rng" % (name, which.split(".")[0])
            else:
                key = "rng-tripwire|%s|%s|%s" % (name, which, inner)
            viol(ctx, self.job, key, "%s was called (from %s) while %s ran with %s" % (
                which, inner, name, "an explicit rng" if snap["explicit"] else "the default generator"),
                {"job": self.job, "stack": stack, "stray_calls": len(self.tw.hits)})
        if changed and not self.tw.hits:
            for which in changed:
                viol(ctx, self.job, "rng-tripwire|%s|state-changed-without-recorded-call|%s" % (name, which),
                     "state of %s changed while %s ran although no recorder fired" % (which, name), {"job": self.job})
        self.last = {"restarts": self.rc.count, "hits": len(self.tw.hits) + len(changed)}

    def reset(self):
        """force everything off (watchdog / unexpected BaseException)."""
        if self.tw is not None and self.tw.armed:
            self.tw.disarm()
        if self.rc is not None:
            self.rc.uninstall()
        self.active = False

    def install(self, hooks, inner_hooks):
        from dendropy.simulate import treesim
        from dendropy.model import birthdeath, coalescent
        mods = {"treesim": treesim, "birthdeath": birthdeath}
        for m, name in HOOKED:
            hooks.install(mods[m], name, pre=self.mk_pre(name), post=self.mk_post(name), tag="%s.%s" % (m, name))
        # coalesce_nodes: counted on every call (also when called by the tree simulators); armed only when outermost
        inner_hooks.install(coalescent, "coalesce_nodes", pre=self.mk_pre("coalesce_nodes"),
                            post=self.mk_post("coalesce_nodes"), tag="coalescent.coalesce_nodes", outermost_only=False)


# ------------------------------------------------------------------------------------------
# spec predicates
def _tol(x):
    return 1e-9 * max(1.0, abs(x))


def _shape_clauses(ctx, sim, spec, job, want_bifurcating=True):
    """bifurcating + equidistant on a spec; returns False when violated."""
    ok = True
    for n in ref.preorder(spec):
        k = len(n[3])
        if k and k != 2 and want_bifurcating:
            viol(ctx, job, "spec|%s|not-bifurcating|%s" % (sim, "outdegree-1" if k == 1 else "outdegree>2"),
                          "an internal node has %d children" % k, {"job": job, "tree": ref.to_newick(spec)[:1500]})
            ok = False
            break
    d = [x for n, x, _ in ref.root_distances(spec) if not n[3]]
    if d and max(d) - min(d) > _tol(max(d)):
        viol(ctx, job, "spec|%s|tips-not-equidistant-from-root" % sim,
                      "leaf root distances range from %r to %r" % (min(d), max(d)),
                      {"job": job, "tree": ref.to_newick(spec)[:1500]})
        ok = False
    return ok


def _well_formed(ctx, sim, tree, job):
    probs = arbor.check(tree)
    if probs:
        viol(ctx, job, "spec|%s|not-well-formed" % sim, "; ".join(probs), {"job": job})
        return None
    try:
        return bridge.extract(tree, with_nodes=True)
    except bridge.ExtractError as e:
        viol(ctx, job, "spec|%s|not-well-formed" % sim, str(e), {"job": job})
        return None


def judge_bd(ctx, sim, tree, n, job):
    ctx.ev("spec:bd-tree-judged")
    got = _well_formed(ctx, sim, tree, job)
    if got is None:
        return
    spec, nodes = got
    leaves = [(s, nd) for s, nd in nodes if not s[3]]
    if len(leaves) != n:
        viol(ctx, job, "spec|%s|tip-count|%s" % (sim, "fewer" if len(leaves) < n else "more"),
                      "%d leaves, %d extant tips requested" % (len(leaves), n),
                      {"job": job, "tree": ref.to_newick(spec)[:1500]})
    taxa = [nd.taxon for s, nd in leaves]
    if any(t is None for t in taxa):
        viol(ctx, job, "spec|%s|leaf-without-taxon" % sim, "%d of %d leaves carry no taxon" % (
            sum(1 for t in taxa if t is None), len(taxa)), {"job": job, "tree": ref.to_newick(spec)[:1500]})
    else:
        if len(set(map(id, taxa))) != len(taxa):
            viol(ctx, job, "spec|%s|taxa-not-distinct" % sim, "a taxon sits on two leaves",
                          {"job": job, "tree": ref.to_newick(spec)[:1500]})
        elif len(set(t.label for t in taxa)) != len(taxa):
            viol(ctx, job, "spec|%s|taxon-labels-not-distinct" % sim, "two leaf taxa share a label",
                          {"job": job, "tree": ref.to_newick(spec)[:1500]})
        ns = tree.taxon_namespace
        if any(not any(t is x for x in ns) for t in taxa[:50]):
            ctx.note("%s:leaf-taxon-outside-tree-namespace" % sim)
    _shape_clauses(ctx, sim, spec, job)
    if job.get("attr") and len(leaves) > 1 and any(not hasattr(nd, "is_extinct") for s, nd in leaves):
        ctx.note("%s:extant-leaf-without-is_extinct-attribute" % sim)
    if len(leaves) >= 3:
        ctx.nontrivial(("job", json.dumps(job, sort_keys=True)))


def judge_kingman(ctx, sim, tree, ns, job):
    ctx.ev("spec:kingman-tree-judged")
    got = _well_formed(ctx, sim, tree, job)
    if got is None:
        return
    spec, nodes = got
    leaf_taxa = [nd.taxon for s, nd in nodes if not s[3]]
    want = sorted(id(t) for t in ns)
    have = sorted(id(t) for t in leaf_taxa if t is not None)
    if len(have) != len(leaf_taxa) or want != have:
        viol(ctx, job, "spec|%s|not-one-leaf-per-taxon" % sim,
                      "%d leaves (%d without taxon) for %d taxa" % (len(leaf_taxa), len(leaf_taxa) - len(have), len(want)),
                      {"job": job, "tree": ref.to_newick(spec)[:1500]})
    _shape_clauses(ctx, sim, spec, job)
    if len(leaf_taxa) >= 3:
        ctx.nontrivial(("job", json.dumps(job, sort_keys=True)))


def species_tables(sspec):
    """{species: root distance}, {(a, b): root distance of mrca(a, b)} from the generator's species spec."""
    rd = {}
    below = {}
    for n, d, _ in ref.root_distances(sspec):
        rd[id(n)] = d
    leafd = {}
    mrca_d = {}
    for n, c in ref.clades(sspec):       # post-order: the first clade containing both is the mrca
        if not n[3]:
            leafd[n[0]] = rd[id(n)]
        kids = [below[id(ch)] for ch in n[3]]
        for i in range(len(kids)):
            for j in range(i + 1, len(kids)):
                for a in kids[i]:
                    for b in kids[j]:
                        mrca_d[(a, b)] = mrca_d[(b, a)] = rd[id(n)]
        below[id(n)] = c
    return leafd, mrca_d


def judge_gene(ctx, sim, gtree, aux, job):
    ctx.ev("spec:gene-tree-judged")
    got = _well_formed(ctx, sim, gtree, job)
    if got is None:
        return
    gspec, nodes = got
    g2s = aux["g2s"]
    leafd, mrca_d = species_tables(aux["species"])
    n_leaves = 0
    mind = {}
    joins = 0
    for n in ref.postorder(gspec):
        if not n[3]:
            n_leaves += 1
            sp = g2s.get(n[0])
            if sp is None:
                viol(ctx, job, "spec|%s|gene-leaf-not-attributable-to-a-species" % sim,
                              "gene leaf with taxon label %r" % (n[0],), {"job": job, "tree": ref.to_newick(gspec)[:1500]})
                return
            mind[id(n)] = {sp: 0.0}
            continue
        kids = []
        for c in n[3]:
            ln = c[2] or 0
            kids.append(dict((sp, d + ln) for sp, d in mind.pop(id(c)).items()))
        for i in range(len(kids)):
            for j in range(i + 1, len(kids)):
                for a, da in kids[i].items():
                    for b, db in kids[j].items():
                        if a == b:
                            continue
                        joins += 1
                        ta = leafd[a] - mrca_d[(a, b)]
                        tb = leafd[b] - mrca_d[(a, b)]
                        if da < ta - _tol(ta) or db < tb - _tol(tb):
                            ctx.ev("spec:cross-species-joins-judged", joins)
                            viol(ctx, job, "spec|%s|join-more-recent-than-species-divergence" % sim,
                                          "lineages of %s and %s join %r / %r before the present, the species diverged %r / %r before it" % (
                                              a, b, da, db, ta, tb),
                                          {"job": job, "gene_tree": ref.to_newick(gspec)[:1500],
                                           "species_tree": ref.to_newick(aux["species"])[:800]})
                            return
        merged = {}
        for k in kids:
            for sp, d in k.items():
                if sp not in merged or d < merged[sp]:
                    merged[sp] = d
        mind[id(n)] = merged
    ctx.ev("spec:cross-species-joins-judged", joins)
    if joins:
        ctx.nontrivial(("job", json.dumps(job, sort_keys=True)))
    if n_leaves != len(g2s):
        ctx.note("%s:gene-leaf-count-differs-from-gene-count" % sim)
    ns = gtree.taxon_namespace
    for s, nd in nodes:
        if not s[3] and nd.taxon is not None and not any(nd.taxon is x for x in ns):
            ctx.note("%s:leaf-taxa-are-copies-outside-the-gene-tree-namespace" % sim)
            break


def judge(ctx, job, result, call):
    sim = job["sim"]
    if sim in ("birth_death_tree", "fast_birth_death_tree"):
        judge_bd(ctx, sim, result, job["n"], job)
    elif sim == "uniform_pure_birth_tree":
        judge_bd(ctx, sim, result, job["n"], job)
    elif sim in U.KINGMAN_SIMS:
        judge_kingman(ctx, sim, result, call.aux["ns"], job)
    elif sim == "constrained_kingman_tree":
        judge_gene(ctx, sim, result[0], call.aux, job)
    elif sim == "contained_coalescent_tree":
        judge_gene(ctx, sim, result, call.aux, job)
    elif sim == "rand_trees":
        for t in result:
            judge_bd(ctx, "rand_trees>birth_death_tree", t, job["n"], job)
    elif sim == "coalesce_nodes":
        ctx.ev("coalesce_nodes-forest-recorded")


# ------------------------------------------------------------------------------------------
# rand_trees (vectorising wrapper in treesim) as one more "simulator"
def prepare_any(job, mon):
    if job["sim"] != "rand_trees":
        return U.prepare(job)
    from dendropy.simulate import treesim
    base = {"birth_rate": job["birth"], "death_rate": job["death"], "num_extant_tips": job["n"]}
    return RandTreesCall(treesim, base, job, mon)


class RandTreesCall(object):
    """rand_trees returns a generator: the monitored window must span its consumption, so the pre/post
    pair of the Monitor is applied here by hand instead of through vf.mon.hooks."""

    def __init__(self, treesim, base, job, mon):
        self.treesim, self.base, self.job, self.aux, self.mon = treesim, base, job, {}, mon

    def invoke(self, rng):
        mon = self.mon
        snap = mon.mk_pre("rand_trees")(None, (rng,), {})
        mon.ctx.ev("hook:treesim.rand_trees:call")
        try:
            res = self._invoke(rng)
            mon.ctx.ev("hook:treesim.rand_trees:return")
            return res
        finally:
            if snap is not None:
                mon.finish(snap)

    def _invoke(self, rng):
        form = self.job["form"]
        ts = self.treesim
        if form == "mapping":
            mk = dict(self.base)
        elif form == "mapping+rng":
            mk = dict(self.base, rng=rng)
        else:
            base = self.base

            def mk(rep_idx, r):
                return dict(base, rng=r)
        return list(ts.rand_trees(rng, ts.birth_death_tree, mk, self.job["reps"]))


def encode_any(job, result):
    if job["sim"] == "rand_trees":
        return [U.flat(bridge.extract(t)) for t in result]
    return U.encode_result(job, result)


# ------------------------------------------------------------------------------------------
# determinism
def classify_diff(job, aux, enc_a, enc_b):
    if len(enc_a) != len(enc_b):
        return "number-of-trees"
    g2s = (aux or {}).get("g2s")
    classes = []
    for fa, fb in zip(enc_a, enc_b):
        if fa == fb:
            continue
        a, b = U.unflat(fa), U.unflat(fb)
        if g2s is not None:
            ra = [[g2s.get(r[0], r[0])] + r[1:] for r in fa]
            rb = [[g2s.get(r[0], r[0])] + r[1:] for r in fb]
            if ra == rb:
                classes.append("gene-taxa-permuted-within-species")
                continue
        if ref.canon(a) == ref.canon(b):
            classes.append("child-order-only")
        elif ref.canon(a, lengths=False) != ref.canon(b, lengths=False):
            sa = [[None] + r[1:] for r in fa]
            sb = [[None] + r[1:] for r in fb]
            if sa == sb:
                classes.append("leaf-labels-permuted")
            else:
                classes.append("topology")
        else:
            classes.append("lengths-only")
    for c in ("topology", "leaf-labels-permuted", "lengths-only", "gene-taxa-permuted-within-species", "child-order-only"):
        if c in classes:
            return c
    return "unknown"


def compare(ctx, job, aux, ref_enc, other, how, other_err=None, extra=None):
    """ref_enc: encoding of the judged in-process run; other: encoding (or None + error) of the other run."""
    sim = job["sim"]
    ctx.ev("determinism:%s-judged" % how)
    if other is None:
        viol(ctx, job, "determinism|%s|other-run-raised|%s" % (sim, how),
                      "second run raised %s where the first returned a tree" % other_err, {"job": job, "extra": extra})
        return
    if other == ref_enc:
        return
    cls = classify_diff(job, aux, ref_enc, other)
    d = {"job": job, "extra": extra}
    try:
        d["first"] = [ref.to_newick(U.unflat(f))[:700] for f in ref_enc[:3]]
        d["other"] = [ref.to_newick(U.unflat(f))[:700] for f in other[:3]]
    except Exception:
        pass
    viol(ctx, job, "determinism|%s|%s|%s" % (sim, cls, how),
                  "%s: two runs of the same (parameters, seed) returned different trees (%s)" % (sim, cls), d)


def run_children(ctx, jobs):
    """the same jobs in two further interpreters; returns [(label, results|None)]"""
    payload = json.dumps({"jobs": jobs}).encode()
    hs = 1 + (int(core.short_hash(jobs), 16) % 4000000000)
    plans = [("PYTHONHASHSEED=%d" % hs, str(hs)), ("PYTHONHASHSEED unset", None)]
    procs = []
    out = []
    try:
        for label, val in plans:
            env = dict(os.environ)
            env["PYTHONPATH"] = core.VERIF
            env["PYTHONDONTWRITEBYTECODE"] = "1"
            if val is None:
                env.pop("PYTHONHASHSEED", None)
            else:
                env["PYTHONHASHSEED"] = val
            procs.append((label, subprocess.Popen([sys.executable, "-B", "-m", "vf.props._c18_util"], cwd=core.VERIF,
                                                  env=env, stdin=subprocess.PIPE, stdout=subprocess.PIPE,
                                                  stderr=subprocess.PIPE)))
        for label, p in procs:
            try:
                so, se = p.communicate(payload, timeout=CHILD_TIMEOUT)
            except subprocess.TimeoutExpired:
                p.kill()
                p.communicate()
                ctx.mark_inconclusive("child interpreter (%s) exceeded %ss" % (label, CHILD_TIMEOUT))
                out.append((label, None))
                continue
            res = None
            if p.returncode == 0:
                try:
                    res = json.loads(so.decode())["results"]
                except Exception:
                    res = None
            if res is None or len(res) != len(jobs):
                ctx.mark_inconclusive("child interpreter (%s) failed: exit %s %s" % (
                    label, p.returncode, se.decode("utf-8", "replace")[-400:]))
                ctx.ev("child-interpreter-failed")
                out.append((label, None))
            else:
                ctx.ev("child-interpreters-completed")
                out.append((label, res))
    finally:
        for label, p in procs:
            if p.poll() is None:
                p.kill()
                try:
                    p.communicate(timeout=5)
                except Exception:
                    pass
    return out


# ------------------------------------------------------------------------------------------
def monitored_run(ctx, mon, job, mode):
    """one in-process run under the monitors: (call, result, encoding) or (call, None, None) when it raised."""
    import dendropy.utility
    call = prepare_any(job, mon)
    mon.job = job
    mon.last = None
    if mode == "explicit":
        rng = random.Random(job["seed"])
    else:
        dendropy.utility.GLOBAL_RNG.seed(job["seed"])
        rng = None
    ok, res = core.call(ctx, job["sim"], call.invoke, rng, detail={"job": job, "mode": mode})
    if mon.last and mon.last["hits"]:
        mon.fired = True
    if not ok:
        return call, None, None
    return call, res, encode_any(job, res)


def run_jobs(ctx, jobs):
    mon = Monitor(ctx)
    firsts = []
    with Hooks(ctx) as hooks, Hooks(ctx) as inner:
        mon.install(hooks, inner)
        try:
            for job in jobs:
                sim = job["sim"]
                mon.fired = False
                call, res, enc = monitored_run(ctx, mon, job, "explicit")
                if res is None:
                    continue
                if mon.last and mon.last["restarts"]:
                    ctx.ev("restart:runs-that-restarted")
                    ctx.ev("restart:branch-executions", mon.last["restarts"])
                    ctx.ev("restart:%s" % sim)
                judge(ctx, job, res, call)
                if len(ctx.samples) < 6 and job["seed"] % 7 == 3:
                    ctx.sample({"job": job, "returned": [ref.to_newick(U.unflat(f))[:400] for f in enc[:2]],
                                "restart_branch_executions": mon.last["restarts"] if mon.last else None})
                # (a) second in-process run with fresh arguments
                call2, res2, enc2 = monitored_run(ctx, mon, job, "explicit")
                if mon.fired:
                    # the stray generator use is already reported; its consequences are not keyed a second time
                    ctx.ev("determinism:not-judged-tripwire-fired")
                    continue
                firsts.append((job, call.aux, enc))
                if res2 is not None:
                    compare(ctx, job, call.aux, enc, enc2, "in-process")
                # re-use of the (mutated) species tree object: explored, not judged
                if sim in U.GENE_SIMS and job["seed"] % 5 == 0:
                    try:
                        res3 = call.invoke(random.Random(job["seed"]))
                        ctx.note("%s:reused-species-tree:%s" % (sim, "same-tree" if encode_any(job, res3) == enc else "different-tree"))
                    except Exception as e:
                        ctx.note("%s:reused-species-tree:raised-%s" % (sim, type(e).__name__))
                # (c) default generator
                if job.get("default"):
                    call3, res3, enc3 = monitored_run(ctx, mon, job, "default")
                    if res3 is not None and not mon.fired:
                        compare(ctx, job, call.aux, enc, enc3, "default-generator")
        finally:
            mon.reset()
    # (b) other interpreters
    child_jobs = [j for j, aux, enc in firsts if j["sim"] != "rand_trees" and enc is not None]
    if not child_jobs:
        return
    results = run_children(ctx, child_jobs)
    by_job = [(j, aux, enc) for j, aux, enc in firsts if j["sim"] != "rand_trees" and enc is not None]
    for label, res in results:
        if res is None:
            continue
        for (job, aux, enc), r in zip(by_job, res):
            other = r["enc"]
            compare(ctx, job, aux, enc, other, "cross-process", other_err=r["err"], extra=label)


def run_case(case, ctx):
    if case["kind"] == "directed":
        jobs = _directed_jobs(case["name"])
    elif case["kind"] == "jobs":
        jobs = case["jobs"]
    else:
        rng = random.Random("%s/%s" % (case["seed"], sorted(case.items())))
        jobs = []
        for k in range(case["n"]):
            job = U.make_job(rng, case.get("tier", ctx.tier))
            if rng.random() < 0.12:
                job["default"] = True
            jobs.append(job)
        if case["i"] % 8 == 0:
            jobs.append({"sim": "rand_trees", "form": rng.choice(["mapping", "mapping+rng", "callable"]),
                         "n": rng.randint(2, 12), "reps": 2, "birth": 1.0, "death": rng.choice([0.0, 0.5, 0.9]),
                         "seed": rng.randrange(1000)})
    run_jobs(ctx, jobs)
