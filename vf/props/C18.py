"""C18  Simulated trees meet their specification for every seed and are reproducible.

The real simulators (treesim.birth_death_tree, birthdeath.fast_birth_death_tree, treesim.uniform_pure_birth_tree,
treesim.pure_kingman_tree / mean_kingman_tree / constrained_kingman_tree / contained_coalescent_tree,
reconcile.ContainingTree.simulate_contained_kingman / embed_contained_kingman, coalescent.coalesce_nodes, the
vectorising wrapper treesim.rand_trees, and the pass-through wrappers of dendropy.legacy.treesim) are run on
generated (parameters, seed) jobs; every argument object is rebuilt from the job descriptor for every run, except
in the *re-use* step, where the very same argument objects are handed to the simulator a second time.
Monitors / oracle clauses:

 spec (on the DendroPy-free spec extracted from the raw child lists of the returned tree, plus vf.mon.arbor.check)
   birth-death / pure birth, grown to N extant tips (given as num_extant_tips= or through the accepted alias
   ntax=), extinct lineages pruned (default), no gsa_ntax:
     well-formed   arborescence walker silent
     tip-count     exactly N leaves
     taxa          every leaf carries a taxon; the N taxa are pairwise distinct objects (and, when the supplied
                   namespace had no two taxa with one label, pairwise distinct labels)
     bifurcating   every internal node has exactly two children
     equidistant   all leaves at the same distance from the root (root edge ignored), 1e-9 relative
   pure / mean Kingman tree over a namespace of N taxa:
     well-formed, bifurcating, equidistant (= ultrametric), and leaf taxa = the namespace's taxa, each exactly once
   gene tree inside a species tree (contained_coalescent_tree, constrained_kingman_tree, ContainingTree.*_kingman;
   species trees have dyadic or integral lengths, so divergence times are exact; ultrametric or not, with or
   without a length on the root edge, with zero-length edges, with taxa on internal species nodes):
     well-formed
     gene-leaf-set the leaves carry exactly the genes that were to be simulated, each once: the domain of the
                   gene -> species mapping, resp. the labels constrained_kingman_tree obtained from its
                   gene_node_label_fn during THIS call (default label function: "<species>_<nn>")
     genes-sampled constrained_kingman_tree drew the requested number of genes (per species / in total)
     join times    for every internal gene node v, every two leaves x (species a), y (species b != a) below
                   different children of v: dist(x, v) >= dist_S(a, mrca_S(a, b)) and dist(y, v) >= dist_S(b, mrca_S(a, b))
                   (1e-9 relative slack) -- i.e. no join of different species more recent than their divergence.
 rng tripwire
   while a simulator runs with an explicit ``rng`` (keyword or positional), every public method of
   dendropy.utility.GLOBAL_RNG and every module-level function of ``random`` is a recorder (stack kept); any hit is
   a violation, one per distinct stray source.  The states of both generators are compared before/after as a
   second line.  When ``rng`` is omitted / None only module-level ``random`` is watched (GLOBAL_RNG is the
   documented default).
 determinism (ordered structure + taxon labels + node labels + exact float lengths must be identical)
   (a) in-process: twice from generators in equal states (freshly seeded / already drawn from / state copied with
       getstate-setstate) with fresh arguments;
   (b) across interpreters: the same jobs in two further child processes started with subprocess, one with another
       PYTHONHASHSEED, one with PYTHONHASHSEED unset (other hash seeds, other heap addresses);
   (c) default generator: GLOBAL_RNG put into that state + call with rng omitted or rng=None  ==  explicit call
       (the documented "otherwise GLOBAL_RNG is used" read as: GLOBAL_RNG takes the place of rng);
   (d) same arguments again: the same argument objects + an equal generator state, for the simulators that do not
       document changing their arguments (see reuse_comparable).
 restart path
   Node.clear_child_nodes called from a birth-death simulator's frame = the restart-after-total-extinction branch
   was executed; counted so that the evidence shows the specification was judged on such runs.

Keys: spec|<simulator>|<clause>[|detail][|second-call-on-the-same-arguments] ;
rng-tripwire|<simulator>|<generator.method>|<innermost library function> (one per distinct stray source of the
monitored call; "nested-simulator-called-without-the-rng" for the GLOBAL_RNG calls made below a hooked simulator that
was seen being called without a generator inside a call that was given one; rand_trees is keyed as "rand_trees" for the
mapping / callable forms and as "rand_trees(iterable-of-mappings)" for that separate branch) ; determinism|<simulator>|<what differs>|
<in-process | cross-process | default-generator | same-arguments-again>, where <what differs> is decided on the two
encodings: gene-taxa-permuted-within-species (equal after relabelling gene leaves by species) / child-order-only /
leaf-labels-permuted / lengths-only / topology ; <simulator>(rng=None)|unexpected-exception|... for a call that spells
the default generator as rng=None.  When the tripwire fired for a job its determinism comparisons are skipped (same
root cause, one key).  The witness case of every violation is the single job ({"kind": "jobs", "jobs": [job]}),
re-runnable with --replay.

Soundness limits: only the tip-count stopping rule (num_extant_tips / ntax alias) of the continuous-time simulators
(treesim.discrete_birth_death_tree, whose generations are synchronous and whose ``ntax`` is a stopping threshold, is
outside the statement), extinct tips pruned, no gsa_ntax, no ``tree=`` continuation, birth > death >= 0 (rate drift sd
only tiny, and death drift only when death >= 0.3*birth); every LEAF species that reaches contained_coalescent_tree /
ContainingTree has >= 1 gene (constrained_kingman_tree is also driven with gene-less species); species trees carry
lengths on all non-root edges; taxa on internal species nodes never own genes.  A tree whose lengths are all zero
satisfies "equidistant" (the statement asks no more).  Gene-tree leaf taxa being *copies* outside the gene tree's
namespace after constrained_kingman_tree(decorate_original_tree=False) is recorded, not judged; so are extant leaves
lacking the extinct attribute, and the number of trees rand_trees yields.  A differing *namespace* after two runs is
not judged, only the returned tree.  coalesce_nodes called directly is judged for tripwire + determinism only.
rand_trees is judged with birth_death_tree as model function (mapping / list of mappings, each without and with rng;
callable keyword generator).  After ContainingTree.embed_contained_kingman with fit_containing_edge_lengths=True the
containing tree's lengths are rewritten by the fit, so that object is not simulated in again.  A child interpreter
that dies or times out makes the case inconclusive, never a verdict."""
import inspect
import json
import os
import random
import re
import subprocess
import sys

from .. import ref, bridge, core
from ..mon.hooks import Hooks
from ..mon import arbor
from . import _c18_util as U

PROP = "C18"
LEVEL = "exploration"
TECHNIQUE = ("runtime monitoring: hooks on the real simulators + spec predicates on the extracted tree, RNG tripwire "
             "(recorders on GLOBAL_RNG / module-level random), in-process, cross-interpreter, default-generator and "
             "same-arguments-again determinism, restart-path counter")
LEVEL_TEXT = ("Runtime monitors (hooks on the simulator entry points, spec predicates on the tree extracted from the raw child "
              "lists, an RNG tripwire on GLOBAL_RNG / module-level random, reruns in-process, on the same argument objects and in "
              "two further interpreters) observe the real simulators on generated (parameters, seed) jobs; the property held on "
              "the executions listed in the evidence file, nothing more.")
LEVEL_NOTE = ("Trusted: the spec predicates and species-divergence tables of the property module (on vf/ref.py, vf/bridge.py, "
              "vf/mon/arbor.py), CPython's random.Random and subprocess; coverage is the seeds / parameters the workload reached "
              "(see evidence). Distributional correctness of the simulators is not part of the property and is not examined.")
RULE = ("cases = batches of jobs (simulator x parameters x seed); parameters: tip counts 1..40 (quick) / 1..300 (thorough) given "
        "as num_extant_tips or the ntax alias, birth > death >= 0 incl. death/birth = 0.9 and 0.99, integer rates, rates 1e-6 / 1e6, "
        "thirteen namespace configurations (none / empty / fewer / exact / more / colliding T<k> labels / lower- and mixed-case "
        "look-alikes / case-sensitive / blanks / random labels / duplicate labels / labels differing in case only), pop sizes "
        "None, 0, 1e-6..1e9, 1-5 genes per species (0 for constrained_kingman_tree) on random species trees (ultrametric or not, "
        "zero-length edges, integer lengths, root edge with / without length, polytomies, unary nodes, taxa on internal nodes, "
        "per-edge pop sizes under default / other attribute names), three gene sampling strategies, five kinds of gene -> species "
        "mapping, default / own gene label function, three ContainingTree routes, legacy wrappers; generators fresh / used / "
        "state-copied, by keyword / positional / omitted / None; a quarter of the jobs re-use their argument objects; "
        "a job is non-trivial when its tree has >= 3 leaves (gene trees: >= 1 cross-species join judged); "
        "distinct = distinct (simulator, parameters, seed)")
REACH = ["birthdeath:birth_death_tree", "birthdeath:fast_birth_death_tree", "birthdeath:uniform_pure_birth_tree",
         "coalescent:coalesce_nodes", "coalescent:time_to_coalescence", "coalescent:expected_tmrca",
         "coalescent:pure_kingman_tree", "coalescent:mean_kingman_tree", "coalescent:constrained_kingman_tree",
         "coalescent:contained_coalescent_tree", "probability:weighted_choice", "treesim:rand_trees",
         "reconcile:ContainingTree.simulate_contained_kingman", "reconcile:ContainingTree.embed_contained_kingman",
         "treesim:birth_death", "treesim:contained_coalescent", "treesim:constrained_kingman"]
MIN_EVENTS = {"spec:bd-tree-judged": (300, 10000), "spec:kingman-tree-judged": (150, 5000),
              "spec:gene-tree-judged": (150, 5000), "spec:cross-species-joins-judged": (1000, 50000),
              "determinism:in-process-judged": (800, 30000), "determinism:cross-process-judged": (1500, 60000),
              "determinism:default-generator-judged": (100, 3000),
              "tripwire:armed-calls": (1500, 60000), "restart:runs-that-restarted": (40, 1000),
              "hook:treesim.birth_death_tree:return": (100, 3000),
              "hook:treesim.contained_coalescent_tree:return": (60, 2000),
              "hook:coalescent.coalesce_nodes:return": (500, 20000),
              # per-simulator gene-tree monitors (the three implementations of the constrained coalescent)
              "spec:gene-tree-judged:contained_coalescent_tree": (280, 4000),
              "spec:gene-tree-judged:constrained_kingman_tree": (270, 3800),
              "spec:gene-tree-judged:ContainingTree.simulate_contained_kingman": (190, 2700),
              "spec:gene-tree-judged:ContainingTree.embed_contained_kingman": (85, 1200),
              "spec:cross-species-joins-judged:contained_coalescent_tree": (3000, 450000),
              "spec:cross-species-joins-judged:constrained_kingman_tree": (2300, 350000),
              "spec:cross-species-joins-judged:ContainingTree.simulate_contained_kingman": (1900, 300000),
              "spec:cross-species-joins-judged:ContainingTree.embed_contained_kingman": (950, 150000),
              "spec:gene-leaf-set-judged": (800, 11000),
              "hook:reconcile.ContainingTree.simulate_contained_kingman:return": (360, 5000),
              "hook:reconcile.ContainingTree.embed_contained_kingman:return": (160, 2200),
              # re-use histories, generator forms
              "reuse:second-calls-judged": (420, 6000), "determinism:same-arguments-again-judged": (300, 4200),
              "determinism:default-generator-spelled-omit": (120, 1700),
              "determinism:default-generator-spelled-none": (110, 1500),
              "input:rng-positional": (330, 4600), "input:rng-used": (430, 6000), "input:rng-state": (420, 5900),
              # input classes / option dimensions / API routes of the judged jobs
              "input:namespace-label-class": (220, 3000), "input:namespace-label-class:tlower": (30, 420),
              "input:namespace-label-class:tmixed": (28, 400), "input:namespace-label-class:sensitive": (28, 400),
              "input:namespace-label-class:blanks": (30, 420), "input:namespace-label-class:random": (30, 420),
              "input:namespace-label-class:dups": (20, 280), "input:namespace-label-class:selfcase": (28, 400),
              "input:tip-count-given-as-ntax-alias": (65, 900), "input:legacy-wrapper": (100, 1400),
              "input:extreme-or-integer-rates": (175, 2400),
              "input:species-root-edge-has-length": (370, 5000), "input:species-internal-taxa": (150, 2100),
              "input:species-lengths:ultra0": (120, 1700), "input:species-lengths:int": (130, 1800),
              "input:species-lengths:nonultra": (120, 1700), "input:default-gene-label-function": (70, 950),
              "input:species-without-genes": (17, 230),
              "input:rand_trees:mapping": (1, 20), "input:rand_trees:mapping+rng": (1, 20),
              "input:rand_trees:callable": (1, 20), "input:rand_trees:list": (1, 20), "input:rand_trees:list+rng": (1, 20)}
ASSUMPTIONS = ["oracles are computed on a DendroPy-free spec extracted from raw child lists; species divergence times come from "
               "the generator's own spec of the species tree (dyadic / integral lengths, exact)",
               "float comparisons 1e-9 relative (equidistance, join times); determinism is exact equality",
               "heap addresses / hash seeds differ between the parent and the two child interpreters (not controlled, observed)",
               "the statement is read for the continuous-time simulators; treesim.discrete_birth_death_tree (synchronous "
               "generations, ntax is a stopping threshold) and the general-sampling option are outside it",
               "'otherwise GLOBAL_RNG is used' (docstrings) is read as: with rng omitted or None the simulator draws from "
               "GLOBAL_RNG exactly as it would from rng, so determinism (c) compares the two runs",
               "a gene tree simulated for a set of genes has exactly those genes as leaves (the statement quantifies over the "
               "numbers of genes per species; a tree without them is not a simulation of them)",
               "handing the same argument objects to a simulator again is an admissible parameter setting; equality with the "
               "first result is only demanded where the simulator does not document changing its arguments"]
CASE_TIMEOUT = 420
SHARD_TIMEOUT = {"quick": 1800, "thorough": 7200}
CHILD_TIMEOUT = 300

HOOKED = (("treesim", "birth_death_tree"), ("treesim", "uniform_pure_birth_tree"), ("treesim", "pure_kingman_tree"),
          ("treesim", "mean_kingman_tree"), ("treesim", "constrained_kingman_tree"),
          ("treesim", "contained_coalescent_tree"), ("birthdeath", "fast_birth_death_tree"))
CT_METHODS = ("simulate_contained_kingman", "embed_contained_kingman")
REUSE_TAG = "second-call-on-the-same-arguments"


# ------------------------------------------------------------------------------------------
def cases(tier, seed):
    for name in DIRECTED:
        yield {"kind": "directed", "name": name, "seed": seed}
    if tier == "quick":
        nb, per = 176, 24
    else:
        nb, per = 2400, 36
    for i in range(nb):
        yield {"kind": "batch", "i": i, "n": per, "seed": seed, "tier": tier}   # tier inside: --replay re-creates the same jobs


def _bd(sim, n, birth, death, seed, ns="none", **kw):
    return dict({"sim": sim, "n": n, "birth": birth, "death": death, "seed": seed, "ns": ns, "attr": True}, **kw)


def _contained(nsp, genes, seed, tseed=1, **kw):
    return dict({"sim": "contained_coalescent_tree", "nsp": nsp, "tseed": tseed, "genes_fixed": genes, "seed": seed,
                 "mapping": "create", "pop": "default", "scale": 1, "defpop": 1, "attrname": "pop_size"}, **kw)


def _containing(nsp, genes, seed, tseed=1, **kw):
    return dict({"sim": "containing_tree_kingman", "nsp": nsp, "tseed": tseed, "genes_fixed": genes, "seed": seed,
                 "mapping": "create", "pop": "default", "scale": 1, "defpop": 1, "attrname": "pop_size",
                 "method": "simulate", "expected": False, "fit": False}, **kw)


def _constrained(nsp, strategy, ngenes, seed, tseed=1, **kw):
    return dict({"sim": "constrained_kingman_tree", "nsp": nsp, "tseed": tseed, "strategy": strategy, "ngenes": ngenes,
                 "seed": seed, "pop": "default", "scale": 1, "decorate": False, "treelist": False, "gmax": 3}, **kw)


def _directed_jobs(name):
    if name == "contained-set-order":      # smallest witness of the known finding: 1 species x 3 genes
        jobs = [_contained(1, 3, s) for s in range(4)]
        jobs += [_contained(2, 3, s, tseed=2) for s in range(3)]
        jobs += [_contained(4, 5, s, tseed=3, pop="random", scale=64) for s in range(3)]
        jobs += [_contained(1, 2, 0), _contained(3, 1, 0, tseed=4), _contained(3, 2, 1, tseed=4, mapping="dict")]
        return jobs
    if name == "smallest":
        jobs = []
        for n in (1, 2, 3):
            for s in (0, 1):
                jobs.append(_bd("birth_death_tree", n, 1.0, 0.5, s))
                jobs.append(_bd("fast_birth_death_tree", n, 1.0, 0.5, s, ns="exact"))
                jobs.append({"sim": "uniform_pure_birth_tree", "n": n, "birth": 1.0, "seed": s})
                jobs.append({"sim": "pure_kingman_tree", "n": n, "pop": 1, "seed": s})
                jobs.append({"sim": "mean_kingman_tree", "n": n, "pop": 10, "seed": s})
                jobs.append({"sim": "coalesce_nodes", "n": n, "pop": 1, "period": 0.125, "expected": False, "seed": s})
        for j in jobs[::3]:
            j["default"] = True
        return jobs
    if name == "restarts":                 # death/birth = 0.9: most seeds take the restart-after-extinction branch
        jobs = []
        for s in range(12):
            jobs.append(_bd("birth_death_tree", 10, 1.0, 0.9, s, ns=U.NS_CFGS[s % 6]))
            jobs.append(_bd("fast_birth_death_tree", 10, 1.0, 0.9, s, ns=U.NS_CFGS[(s + 3) % 6]))
        jobs.append(_bd("birth_death_tree", 6, 2.0, 1.0, 3, bsd=0.04, dsd=0.04))
        for j in jobs[::4]:
            j["default"] = True
        return jobs
    if name == "gene-trees":
        jobs = []
        for k, strat in enumerate(U.STRATEGIES):
            for s in range(3):
                jobs.append(_constrained(4, strat, 3, s, tseed=10 + k, pop=("default", "const", "random")[s], popsize=50,
                                         scale=(1, 64, 1024)[s], decorate=(s == 1), treelist=(s == 2)))
        jobs.append(_constrained(1, "random_uniform", 4, 0))
        jobs.append(_constrained(5, "random_uniform", None, 0, tseed=5))
        jobs += [{"sim": "rand_trees", "form": f, "n": 5, "reps": 3, "birth": 1.0, "death": 0.5, "seed": s}
                 for f in ("mapping", "mapping+rng", "callable", "list", "list+rng") for s in (0, 1)]
        jobs[0]["default"] = True
        return jobs
    if name == "label-classes":            # namespace label classes x both birth-death simulators
        jobs = []
        for cfg in U.NS_CFGS[5:]:
            for sim in ("birth_death_tree", "fast_birth_death_tree"):
                for n, death, s in ((4, 0.0, 0), (9, 0.5, 1)):
                    jobs.append(_bd(sim, n, 1.0, death, s, ns=cfg))
        for j in jobs[::5]:
            j["reuse"] = True
            j["n2"] = j["n"] + 4
        return jobs
    if name == "aliases":                  # accepted argument aliases, legacy wrappers, option spellings
        jobs = []
        for s in range(4):
            for sim in ("birth_death_tree", "fast_birth_death_tree"):
                jobs.append(_bd(sim, 8, 1.0, 0.5, s, alias="ntax", ns=U.NS_CFGS[s]))
                jobs.append(_bd(sim, 6, 1.0, 0.8, s, alias="ntax+assign", extattr="gone"))
                jobs.append(_bd(sim, 5, 1.0, 0.5, s, norepeat=True))
            jobs.append(_bd("birth_death_tree", 7, 2, 1, s, legacy=True, alias="ntax"))
            jobs.append({"sim": "uniform_pure_birth_tree", "n": 6, "birth": 1, "seed": s, "legacy": True})
            jobs.append({"sim": "pure_kingman_tree", "n": 6, "pop": None, "seed": s, "legacy": True, "rngpass": "pos"})
            jobs.append({"sim": "mean_kingman_tree", "n": 6, "pop": 0, "seed": s, "legacy": True})
            jobs.append(_contained(3, 2, s, tseed=6, legacy=True))
            jobs.append(_constrained(3, "fixed_per_population", 2, s, tseed=6, legacy=True, labelfn="default"))
        return jobs
    if name == "containing-tree":          # the third constrained-coalescent implementation
        jobs = []
        for s in range(3):
            jobs.append(_containing(1, 3, s))
            jobs.append(_containing(3, 3, s, tseed=7, mapping=U.MAPPINGS[s]))
            jobs.append(_containing(3, 2, s, tseed=100 + s, scale=128, method="embed", mapping="rawdict"))
            jobs.append(_containing(5, 2, s, tseed=200 + s, scale=128, method="embed", fit=True, mapping="attr"))
            jobs.append(_containing(4, 2, s, tseed=300 + s, scale=64, expected=True, mapping="fn", pop="random",
                                    attrname="ne"))
            jobs.append(_containing(4, 3, s, tseed=400 + s, scale=1024, reuse=True, rngpass="pos", mapping="dict"))
        jobs[1]["default"] = True
        jobs[2]["default"] = True
        jobs[2]["defspell"] = "none"
        return jobs
    if name == "species-classes":          # species-tree input classes x the three gene-tree simulators
        jobs = []
        k = 0
        for lens in ("ultra", "ultra0", "int", "nonultra"):
            for rootlen in (None, 0.0, 0.5):
                k += 1
                extra = {"lens": lens, "rootlen": rootlen, "inttaxa": k % 2 == 0, "scale": (1, 64, 256)[k % 3]}
                jobs.append(_contained(4, 2, k, tseed=500 + k, mapping=U.MAPPINGS[k % 5], **extra))
                jobs.append(_containing(4, 2, k, tseed=500 + k, mapping=U.MAPPINGS[(k + 1) % 5], **extra))
                jobs.append(_constrained(4, U.STRATEGIES[k % 3], 2, k, tseed=500 + k, labelfn=("own", "default")[k % 2],
                                         gzero=(k % 3 == 2), ngattr=("num_genes", "k")[k % 2],
                                         psattr=("pop_size", "ne")[k % 2], pop="random", **extra))
        return jobs
    if name == "reuse":                    # the same argument objects handed to a simulator twice
        jobs = []
        for s in range(3):
            for strat in U.STRATEGIES:
                for decorate in (False, True):
                    jobs.append(_constrained(3, strat, 3, s, tseed=600 + s, scale=64, decorate=decorate, reuse=True,
                                             treelist=(s == 2), labelfn=("own", "default")[s % 2]))
            jobs.append(_contained(3, 2, s, tseed=600 + s, scale=64, reuse=True, mapping=U.MAPPINGS[s]))
            jobs.append(_containing(3, 2, s, tseed=600 + s, scale=64, reuse=True, method=("simulate", "embed")[s % 2]))
            jobs.append(_bd("birth_death_tree", 5, 1.0, 0.25, s, ns="tlabels", reuse=True, n2=9))
            jobs.append(_bd("fast_birth_death_tree", 5, 1.0, 0.25, s, ns="empty", reuse=True, n2=9))
            jobs.append(_bd("birth_death_tree", 6, 1.0, 0.25, s, ns="exact", reuse=True, n2=6))
            jobs.append({"sim": "pure_kingman_tree", "n": 6, "pop": 1, "seed": s, "reuse": True})
            jobs.append({"sim": "uniform_pure_birth_tree", "n": 6, "birth": 1.0, "seed": s, "reuse": True})
        return jobs
    if name == "rng-forms":                # generator states and the ways of handing the generator over
        jobs = []
        for s, form in enumerate(("used", "state", "fresh")):
            for spell in ("omit", "none"):
                extra = {"rngform": form, "default": True, "defspell": spell}
                jobs.append(_bd("birth_death_tree", 6, 1.0, 0.5, s, **extra))
                jobs.append(_bd("fast_birth_death_tree", 6, 1.0, 0.5, s, **extra))
                jobs.append(dict({"sim": "uniform_pure_birth_tree", "n": 6, "birth": 1.0, "seed": s, "rngpass": "pos"}, **extra))
                jobs.append(dict({"sim": "pure_kingman_tree", "n": 6, "pop": 2, "seed": s, "rngpass": "pos"}, **extra))
                jobs.append(dict({"sim": "mean_kingman_tree", "n": 6, "pop": 2, "seed": s, "rngpass": "pos"}, **extra))
                jobs.append(dict({"sim": "coalesce_nodes", "n": 6, "pop": 1, "period": 2, "expected": False, "seed": s,
                                  "rngpass": "pos"}, **extra))
                jobs.append(_contained(3, 2, s, tseed=700, rngpass="pos", **extra))
                jobs.append(_constrained(3, "random_uniform", 5, s, tseed=700, rngpass="pos", **extra))
                jobs.append(_containing(3, 2, s, tseed=700, rngpass="pos", **extra))
        return jobs
    raise ValueError(name)


DIRECTED = ("contained-set-order", "smallest", "restarts", "gene-trees", "label-classes", "aliases", "containing-tree",
            "species-classes", "reuse", "rng-forms")


# ------------------------------------------------------------------------------------------
def viol(ctx, job, key, what, detail=None):
    """report a violation with the single job as the (re-runnable) witness case instead of its whole batch."""
    saved = ctx.case
    ctx.case = {"kind": "jobs", "jobs": [job]}
    try:
        ctx.violation(key, what, detail)
    finally:
        ctx.case = saved


def _key(sim, clause, tag):
    return "spec|%s|%s%s" % (sim, clause, "|" + tag if tag else "")


class Monitor(object):
    """pre/post hooks of the simulator entry points: arms the RNG tripwire (explicit rng given) and the
    restart counter around the outermost simulator call; reports tripwire hits."""

    def __init__(self, ctx):
        self.ctx = ctx
        self.active = False
        self.fired = False
        self.tw = None
        self.rc = None
        self.last = None
        self.job = None
        self.nested_names = set()
        self.rng_pos = {"rand_trees": 0, "rand_trees(iterable-of-mappings)": 0}

    def _learn_signature(self, name, fn, method=False):
        """position of ``rng`` among the positional parameters (None: keyword only / **kwargs)."""
        try:
            params = list(inspect.signature(fn).parameters)
        except (TypeError, ValueError):
            return
        if method and params and params[0] == "self":
            params = params[1:]
        if "rng" in params:
            self.rng_pos[name] = params.index("rng")

    def _rng_of(self, name, args, kw):
        if kw.get("rng") is not None:
            return kw["rng"]
        pos = self.rng_pos.get(name)
        if pos is not None and len(args) > pos:
            return args[pos]
        return None

    def mk_pre(self, name):
        def pre(obj, args, kw):
            if self.active:
                if name != "coalesce_nodes" and self._rng_of(name, args, kw) is None:
                    self.nested_names.add(name)      # e.g. rand_trees calling its model_fn without the generator
                return None
            self.active = True
            self.nested_names = set()
            self.tw = U.Tripwire()
            self.rc = U.RestartCounter()
            explicit = self._rng_of(name, args, kw) is not None
            self.rc.install()
            self.tw.arm(watch_global_rng=explicit)
            self.ctx.ev("tripwire:armed-calls")
            if not explicit:
                self.ctx.ev("tripwire:armed-calls-default-generator")
            return {"name": name, "explicit": explicit}
        return pre

    def mk_post(self, name):
        def post(snap, obj, args, kw, result, exc):
            if snap is not None:
                self.finish(snap)
        return post

    def finish(self, snap):
        changed = self.tw.disarm()
        self.rc.uninstall()
        self.active = False
        ctx = self.ctx
        name = snap["name"]
        if self.tw.hits:
            # one violation per distinct stray source of the monitored call.  GLOBAL_RNG calls made below a nested
            # simulator that was observed being called without the generator are keyed by that mechanism
            ctx.ev("tripwire:hits", len(self.tw.hits))
            seen = {}
            for which, inner, stack in self.tw.hits:
                below_nested = any(fr.split(":")[1] in self.nested_names for fr in stack if fr.count(":") >= 2)
                if snap["explicit"] and which.startswith("GLOBAL_RNG.") and below_nested:
                    key = "rng-tripwire|%s|GLOBAL_RNG|nested-simulator-called-without-the-rng" % name
                else:
                    key = "rng-tripwire|%s|%s|%s" % (name, which, inner)
                if key in seen:
                    seen[key][3] += 1
                else:
                    seen[key] = [which, inner, stack, 1]
            for key, (which, inner, stack, count) in seen.items():
                viol(ctx, self.job, key, "%s was called (from %s) while %s ran with %s" % (
                    which, inner, name, "an explicit rng" if snap["explicit"] else "the default generator"),
                    {"job": self.job, "stack": stack, "stray_calls": count})
        if changed and not self.tw.hits:
            for which in changed:
                viol(ctx, self.job, "rng-tripwire|%s|state-changed-without-recorded-call|%s" % (name, which),
                     "state of %s changed while %s ran although no recorder fired" % (which, name), {"job": self.job})
        self.last = {"restarts": self.rc.count, "hits": len(self.tw.hits) + len(changed)}

    def reset(self):
        """force everything off (watchdog / unexpected BaseException)."""
        if self.tw is not None and self.tw.armed:
            self.tw.disarm()
        if self.rc is not None:
            self.rc.uninstall()
        self.active = False

    def install(self, hooks, inner_hooks):
        from dendropy.simulate import treesim
        from dendropy.model import birthdeath, coalescent, reconcile
        mods = {"treesim": treesim, "birthdeath": birthdeath}
        for m, name in HOOKED:
            self._learn_signature(name, getattr(mods[m], name))
            hooks.install(mods[m], name, pre=self.mk_pre(name), post=self.mk_post(name), tag="%s.%s" % (m, name))
        for meth in CT_METHODS:
            nm = "ContainingTree.%s" % meth
            self._learn_signature(nm, getattr(reconcile.ContainingTree, meth), method=True)
            hooks.install(reconcile.ContainingTree, meth, pre=self.mk_pre(nm), post=self.mk_post(nm),
                          tag="reconcile.%s" % nm)
        # coalesce_nodes: counted on every call (also when called by the tree simulators); armed only when outermost
        self._learn_signature("coalesce_nodes", coalescent.coalesce_nodes)
        inner_hooks.install(coalescent, "coalesce_nodes", pre=self.mk_pre("coalesce_nodes"),
                            post=self.mk_post("coalesce_nodes"), tag="coalescent.coalesce_nodes", outermost_only=False)


# ------------------------------------------------------------------------------------------
# spec predicates
def _tol(x):
    return 1e-9 * max(1.0, abs(x))


def _shape_clauses(ctx, sim, spec, job, tag=None, want_bifurcating=True):
    """bifurcating + equidistant on a spec; returns False when violated."""
    ok = True
    for n in ref.preorder(spec):
        k = len(n[3])
        if k and k != 2 and want_bifurcating:
            viol(ctx, job, _key(sim, "not-bifurcating|%s" % ("outdegree-1" if k == 1 else "outdegree>2"), tag),
                 "an internal node has %d children" % k, {"job": job, "tree": ref.to_newick(spec)[:1500]})
            ok = False
            break
    d = [x for n, x, _ in ref.root_distances(spec) if not n[3]]
    if d and max(d) - min(d) > _tol(max(d)):
        viol(ctx, job, _key(sim, "tips-not-equidistant-from-root", tag),
             "leaf root distances range from %r to %r" % (min(d), max(d)),
             {"job": job, "tree": ref.to_newick(spec)[:1500]})
        ok = False
    return ok


def _well_formed(ctx, sim, tree, job, tag=None):
    probs = arbor.check(tree)
    if probs:
        viol(ctx, job, _key(sim, "not-well-formed", tag), "; ".join(probs), {"job": job})
        return None
    try:
        return bridge.extract(tree, with_nodes=True)
    except bridge.ExtractError as e:
        viol(ctx, job, _key(sim, "not-well-formed", tag), str(e), {"job": job})
        return None


_GENERATED = re.compile(r"^T[0-9]+$")
_GENERATED_CASELESS = re.compile(r"^[tT][0-9]+$")


def judge_bd(ctx, sim, tree, n, job, aux=None, tag=None):
    ctx.ev("spec:bd-tree-judged")
    got = _well_formed(ctx, sim, tree, job, tag)
    if got is None:
        return
    spec, nodes = got
    before = (aux or {}).get("ns_before") or []          # [(id, label)] of the supplied namespace before the call
    leaves = [(s, nd) for s, nd in nodes if not s[3]]
    if len(leaves) != n:
        viol(ctx, job, _key(sim, "tip-count|%s" % ("fewer" if len(leaves) < n else "more"), tag),
             "%d leaves, %d extant tips requested" % (len(leaves), n),
             {"job": job, "tree": ref.to_newick(spec)[:1500]})
    taxa = [nd.taxon for s, nd in leaves]
    if any(t is None for t in taxa):
        viol(ctx, job, _key(sim, "leaf-without-taxon", tag), "%d of %d leaves carry no taxon" % (
            sum(1 for t in taxa if t is None), len(taxa)), {"job": job, "tree": ref.to_newick(spec)[:1500]})
    else:
        if len(set(map(id, taxa))) != len(taxa):
            seen = set()
            shared = None
            for t in taxa:
                if id(t) in seen:
                    shared = t
                    break
                seen.add(id(t))
            supplied = id(shared) in set(i for i, _ in before)
            lbl = shared.label
            if supplied and isinstance(lbl, str) and _GENERATED_CASELESS.match(lbl) and not _GENERATED.match(lbl):
                disc = "supplied-taxon-whose-label-equals-a-generated-label-caselessly"
            elif supplied:
                disc = "supplied-taxon"
            else:
                disc = "created-taxon"
            viol(ctx, job, _key(sim, "taxa-not-distinct|%s" % disc, tag),
                 "the taxon %r sits on two leaves" % (lbl,),
                 {"job": job, "tree": ref.to_newick(spec)[:1500], "supplied_labels": [l for _, l in before][:50]})
        elif len(set(t.label for t in taxa)) != len(taxa):
            if len(set(l for _, l in before)) == len(before):
                viol(ctx, job, _key(sim, "taxon-labels-not-distinct", tag),
                     "two leaf taxa share a label although no two supplied taxa did",
                     {"job": job, "tree": ref.to_newick(spec)[:1500]})
            else:
                ctx.note("%s:leaf-taxa-share-a-label-as-in-the-supplied-namespace" % sim)
        ns = tree.taxon_namespace
        if any(not any(t is x for x in ns) for t in taxa[:50]):
            ctx.note("%s:leaf-taxon-outside-tree-namespace" % sim)
    _shape_clauses(ctx, sim, spec, job, tag)
    attr = job.get("extattr") or "is_extinct"
    if job.get("attr") and len(leaves) > 1 and any(not hasattr(nd, attr) for s, nd in leaves):
        ctx.note("%s:extant-leaf-without-extinct-attribute" % sim)
    if len(leaves) >= 3:
        ctx.nontrivial(("job", json.dumps(job, sort_keys=True)))


def judge_kingman(ctx, sim, tree, ns, job, tag=None):
    ctx.ev("spec:kingman-tree-judged")
    got = _well_formed(ctx, sim, tree, job, tag)
    if got is None:
        return
    spec, nodes = got
    leaf_taxa = [nd.taxon for s, nd in nodes if not s[3]]
    want = sorted(id(t) for t in ns)
    have = sorted(id(t) for t in leaf_taxa if t is not None)
    if len(have) != len(leaf_taxa) or want != have:
        viol(ctx, job, _key(sim, "not-one-leaf-per-taxon", tag),
             "%d leaves (%d without taxon) for %d taxa" % (len(leaf_taxa), len(leaf_taxa) - len(have), len(want)),
             {"job": job, "tree": ref.to_newick(spec)[:1500]})
    _shape_clauses(ctx, sim, spec, job, tag)
    if len(leaf_taxa) >= 3:
        ctx.nontrivial(("job", json.dumps(job, sort_keys=True)))


def species_tables(sspec):
    """{species: root distance}, {(a, b): root distance of mrca(a, b)} from the generator's species spec
    (leaf species only; the root edge's own length cancels out)."""
    rd = {}
    below = {}
    for n, d, _ in ref.root_distances(sspec):
        rd[id(n)] = d
    leafd = {}
    mrca_d = {}
    for n, c in ref.clades(sspec):       # post-order: the first clade containing both is the mrca
        if not n[3]:
            leafd[n[0]] = rd[id(n)]
        kids = [below[id(ch)] for ch in n[3]]
        for i in range(len(kids)):
            for j in range(i + 1, len(kids)):
                for a in kids[i]:
                    for b in kids[j]:
                        mrca_d[(a, b)] = mrca_d[(b, a)] = rd[id(n)]
        below[id(n)] = c
    return leafd, mrca_d


_DEFAULT_LABEL = re.compile(r"^(.*)_([0-9]{2,})$")


def gene_expectation(ctx, sim, job, aux, leaf_labels):
    """({gene label: species} or None, [(clause, text)]): which genes the tree must have as leaves, from the job
    (mapping domain / labels handed out by the label function during this call / the default label scheme)."""
    problems = []
    leaf_species = [n[0] for n in ref.preorder(aux["species"]) if not n[3]]
    g2s = aux.get("g2s")
    if job["sim"] == "constrained_kingman_tree":
        strategy = job["strategy"]
        if g2s is None:                               # default gene_node_label_fn
            g2s = aux.get("expected_labels")
            if g2s is None:                           # random_uniform: indices 1..num, species free
                g2s = {}
                idx = []
                for lbl in leaf_labels:
                    m = _DEFAULT_LABEL.match(lbl) if isinstance(lbl, str) else None
                    if m and m.group(1) in leaf_species:
                        g2s[lbl] = m.group(1)
                        idx.append(int(m.group(2)))
                want = set(range(1, aux["num_random"] + 1))
                if want - set(idx):
                    problems.append(("missing", "no leaf for gene indices %s" % sorted(want - set(idx))[:10]))
                if set(idx) - want:
                    problems.append(("extra", "leaves for gene indices %s outside 1..%d" % (
                        sorted(set(idx) - want)[:10], aux["num_random"])))
        else:
            handed = aux.get("handed_out", [])
            per = {}
            for lbl in handed:
                per[g2s[lbl]] = per.get(g2s[lbl], 0) + 1
            if strategy == "random_uniform":
                bad = len(handed) != aux["num_random"]
                text = "%d genes sampled, %d requested" % (len(handed), aux["num_random"])
            else:
                if strategy == "fixed_per_population":
                    want_per = dict((s, job["ngenes"]) for s in leaf_species)
                else:
                    gps = U.genes_per_species(job)
                    want_per = dict((s, gps[s]) for s in leaf_species)
                want_per = dict((s, k) for s, k in want_per.items() if k)
                bad = per != want_per
                text = "genes sampled per species %r, requested %r" % (sorted(per.items())[:10], sorted(want_per.items())[:10])
            if bad:
                problems.append(("genes-sampled", text))
    want = set(g2s)
    have = set(leaf_labels)
    if want - have:
        problems.append(("missing", "%d of %d genes have no leaf, e.g. %r" % (
            len(want - have), len(want), sorted(want - have, key=repr)[:5])))
    extra = [l for l in leaf_labels if l not in want]
    if extra:
        problems.append(("extra", "%d leaves carry a taxon that is none of the %d genes, e.g. %r" % (
            len(extra), len(want), extra[:5])))
    if len(have) != len(leaf_labels):
        problems.append(("duplicate", "%d leaves carry %d different labels" % (len(leaf_labels), len(have))))
    return g2s, problems


def judge_gene(ctx, sim, gtree, aux, job, tag=None):
    ctx.ev("spec:gene-tree-judged")
    ctx.ev("spec:gene-tree-judged:%s" % sim)
    got = _well_formed(ctx, sim, gtree, job, tag)
    if got is None:
        return
    gspec, nodes = got
    leaf_labels = [n[0] for n in ref.preorder(gspec) if not n[3]]
    g2s, problems = gene_expectation(ctx, sim, job, aux, leaf_labels)
    reported = set()
    for clause, text in problems:
        if clause in reported:
            continue
        reported.add(clause)
        k = "genes-sampled|differs-from-the-requested-number" if clause == "genes-sampled" else "gene-leaf-set|%s" % clause
        viol(ctx, job, _key(sim, k, tag), text,
             {"job": job, "gene_tree": ref.to_newick(gspec)[:1500], "species_tree": ref.to_newick(aux["species"])[:800]})
    ctx.ev("spec:gene-leaf-set-judged")
    if "extra" in reported:
        return            # a leaf that is no gene of the job cannot be attributed to a species
    leafd, mrca_d = species_tables(aux["species"])
    mind = {}
    joins = 0
    for n in ref.postorder(gspec):
        if not n[3]:
            mind[id(n)] = {g2s[n[0]]: 0.0}
            continue
        kids = []
        for c in n[3]:
            ln = c[2] or 0
            kids.append(dict((sp, d + ln) for sp, d in mind.pop(id(c)).items()))
        for i in range(len(kids)):
            for j in range(i + 1, len(kids)):
                for a, da in kids[i].items():
                    for b, db in kids[j].items():
                        if a == b:
                            continue
                        joins += 1
                        ta = leafd[a] - mrca_d[(a, b)]
                        tb = leafd[b] - mrca_d[(a, b)]
                        if da < ta - _tol(ta) or db < tb - _tol(tb):
                            ctx.ev("spec:cross-species-joins-judged", joins)
                            ctx.ev("spec:cross-species-joins-judged:%s" % sim, joins)
                            viol(ctx, job, _key(sim, "join-more-recent-than-species-divergence", tag),
                                 "lineages of %s and %s join %r / %r before the present, the species diverged %r / %r before it" % (
                                     a, b, da, db, ta, tb),
                                 {"job": job, "gene_tree": ref.to_newick(gspec)[:1500],
                                  "species_tree": ref.to_newick(aux["species"])[:800]})
                            return
        merged = {}
        for k in kids:
            for sp, d in k.items():
                if sp not in merged or d < merged[sp]:
                    merged[sp] = d
        mind[id(n)] = merged
    ctx.ev("spec:cross-species-joins-judged", joins)
    ctx.ev("spec:cross-species-joins-judged:%s" % sim, joins)
    if joins:
        ctx.nontrivial(("job", json.dumps(job, sort_keys=True)))
    ns = gtree.taxon_namespace
    for s, nd in nodes:
        if not s[3] and nd.taxon is not None and not any(nd.taxon is x for x in ns):
            ctx.note("%s:leaf-taxa-are-copies-outside-the-gene-tree-namespace" % sim)
            break


def input_events(ctx, job):
    """which input classes / option dimensions / API routes the judged jobs covered (MIN_EVENTS watches them)."""
    sim = job["sim"]
    if sim in ("birth_death_tree", "fast_birth_death_tree"):
        if job.get("ns") in U.NS_CFGS[6:]:
            ctx.ev("input:namespace-label-class")
            ctx.ev("input:namespace-label-class:%s" % job["ns"])
        if job.get("alias"):
            ctx.ev("input:tip-count-given-as-ntax-alias")
        if isinstance(job["birth"], int) or job["birth"] in (1e-6, 1e6) or job["death"] > 0.95 * job["birth"]:
            ctx.ev("input:extreme-or-integer-rates")
    if sim in U.GENE_SIMS:
        ctx.ev("input:species-lengths:%s" % job.get("lens", "ultra"))
        if job.get("rootlen") is not None:
            ctx.ev("input:species-root-edge-has-length")
        if job.get("inttaxa"):
            ctx.ev("input:species-internal-taxa")
        if job.get("labelfn") == "default":
            ctx.ev("input:default-gene-label-function")
        if job.get("gzero"):
            ctx.ev("input:species-without-genes")
    if job.get("legacy"):
        ctx.ev("input:legacy-wrapper")
    if job.get("rngpass") == "pos":
        ctx.ev("input:rng-positional")
    if job.get("rngform", "fresh") != "fresh":
        ctx.ev("input:rng-%s" % job["rngform"])
    if sim == "rand_trees":
        ctx.ev("input:rand_trees:%s" % job["form"])


def judge(ctx, job, result, call, tag=None):
    sim = job["sim"]
    nm = U.name(job)
    if tag is None:
        input_events(ctx, job)
    if sim in U.BD_SIMS:
        n = job["n"]
        if tag and "n2" in job and sim != "uniform_pure_birth_tree":
            n = job["n2"]
        judge_bd(ctx, nm, result, n, job, call.aux, tag)
    elif sim in U.KINGMAN_SIMS:
        judge_kingman(ctx, nm, result, call.aux["ns"], job, tag)
    elif sim == "constrained_kingman_tree":
        judge_gene(ctx, nm, result[0], call.aux, job, tag)
    elif sim in U.GENE_SIMS:
        judge_gene(ctx, nm, result, call.aux, job, tag)
    elif sim == "rand_trees":
        if len(result) != call.expected_count():
            ctx.note("rand_trees:%s:number-of-trees-differs-from-replicates-x-mappings" % job["form"])
        for t in result:
            judge_bd(ctx, "rand_trees>birth_death_tree", t, job["n"], job, None, tag)
    elif sim == "coalesce_nodes":
        # the statement says nothing about the forest of a direct call; it must at least be a forest (the
        # determinism comparisons need an encoding), anything else would silently drop those comparisons
        ctx.ev("coalesce_nodes-forest-recorded")
        for nd in result:
            try:
                bridge.extract(nd)
            except bridge.ExtractError as e:
                viol(ctx, job, _key(nm, "not-well-formed", tag), str(e), {"job": job})
                break


# ------------------------------------------------------------------------------------------
# determinism
def classify_diff(job, aux, enc_a, enc_b):
    if len(enc_a) != len(enc_b):
        return "number-of-trees"
    g2s = (aux or {}).get("g2s")
    classes = []
    for fa, fb in zip(enc_a, enc_b):
        if fa == fb:
            continue
        a, b = U.unflat(fa), U.unflat(fb)
        if g2s:
            ra = [[g2s.get(r[0], r[0])] + r[1:] for r in fa]
            rb = [[g2s.get(r[0], r[0])] + r[1:] for r in fb]
            if ra == rb:
                classes.append("gene-taxa-permuted-within-species")
                continue
        if ref.canon(a) == ref.canon(b):
            classes.append("child-order-only")
        elif ref.canon(a, lengths=False) != ref.canon(b, lengths=False):
            sa = [[None] + r[1:] for r in fa]
            sb = [[None] + r[1:] for r in fb]
            if sa == sb:
                classes.append("leaf-labels-permuted")
            else:
                classes.append("topology")
        else:
            classes.append("lengths-only")
    for c in ("topology", "leaf-labels-permuted", "lengths-only", "gene-taxa-permuted-within-species", "child-order-only"):
        if c in classes:
            return c
    return "unknown"


def compare(ctx, job, aux, ref_enc, other, how, other_err=None, extra=None):
    """ref_enc: encoding of the judged in-process run; other: encoding (or None + error) of the other run."""
    sim = U.name(job)
    ctx.ev("determinism:%s-judged" % how)
    if other is None:
        viol(ctx, job, "determinism|%s|other-run-raised|%s" % (sim, how),
             "second run raised %s where the first returned a tree" % other_err, {"job": job, "extra": extra})
        return
    if other == ref_enc:
        return
    cls = classify_diff(job, aux, ref_enc, other)
    d = {"job": job, "extra": extra}
    try:
        d["first"] = [ref.to_newick(U.unflat(f))[:700] for f in ref_enc[:3]]
        d["other"] = [ref.to_newick(U.unflat(f))[:700] for f in other[:3]]
    except Exception:
        pass
    viol(ctx, job, "determinism|%s|%s|%s" % (sim, cls, how),
         "%s: two runs of the same (parameters, generator state) returned different trees (%s)" % (sim, cls), d)


def run_children(ctx, jobs):
    """the same jobs in two further interpreters; returns [(label, results|None)]"""
    payload = json.dumps({"jobs": jobs}).encode()
    hs = 1 + (int(core.short_hash(jobs), 16) % 4000000000)
    plans = [("PYTHONHASHSEED=%d" % hs, str(hs)), ("PYTHONHASHSEED unset", None)]
    procs = []
    out = []
    try:
        for label, val in plans:
            env = dict(os.environ)
            env["PYTHONPATH"] = core.VERIF
            env["PYTHONDONTWRITEBYTECODE"] = "1"
            if val is None:
                env.pop("PYTHONHASHSEED", None)
            else:
                env["PYTHONHASHSEED"] = val
            procs.append((label, subprocess.Popen([sys.executable, "-B", "-m", "vf.props._c18_util"], cwd=core.VERIF,
                                                  env=env, stdin=subprocess.PIPE, stdout=subprocess.PIPE,
                                                  stderr=subprocess.PIPE)))
        for label, p in procs:
            try:
                so, se = p.communicate(payload, timeout=CHILD_TIMEOUT)
            except subprocess.TimeoutExpired:
                p.kill()
                p.communicate()
                ctx.mark_inconclusive("child interpreter (%s) exceeded %ss" % (label, CHILD_TIMEOUT))
                out.append((label, None))
                continue
            res = None
            if p.returncode == 0:
                try:
                    res = json.loads(so.decode())["results"]
                except Exception:
                    res = None
            if res is None or len(res) != len(jobs):
                ctx.mark_inconclusive("child interpreter (%s) failed: exit %s %s" % (
                    label, p.returncode, se.decode("utf-8", "replace")[-400:]))
                ctx.ev("child-interpreter-failed")
                out.append((label, None))
            else:
                ctx.ev("child-interpreters-completed")
                out.append((label, res))
    finally:
        for label, p in procs:
            if p.poll() is None:
                p.kill()
                try:
                    p.communicate(timeout=5)
                except Exception:
                    pass
    return out


# ------------------------------------------------------------------------------------------
def documented_errors(job):
    """exceptions the job's call documents for its arguments."""
    if job.get("norepeat") and job["sim"] in ("birth_death_tree", "fast_birth_death_tree"):
        from dendropy.utility.error import TreeSimTotalExtinctionException
        return (TreeSimTotalExtinctionException,)      # repeat_until_success=False: documented
    return ()


def monitored_run(ctx, mon, job, mode, call=None):
    """one in-process run under the monitors; mode "explicit" / "default-omit" / "default-none"; ``call`` given =
    the same argument objects again.  Returns (call, status, result, encoding), status "ok" / "documented-error" /
    "unexpected" / "malformed" (returned something that cannot be walked as a tree: judged, not encoded)."""
    import dendropy.utility
    if call is None:
        call = U.prepare(job)
    if isinstance(call, U.RandTreesCall):
        call.mon = mon
    mon.job = job
    mon.last = None
    ns = call.aux.get("ns")
    call.aux["ns_before"] = [(id(t), t.label) for t in ns] if ns is not None else []
    op = U.name(job)
    if mode == "explicit":
        rng = U.make_rng(job)
        spell_none = False
    else:
        dendropy.utility.GLOBAL_RNG.setstate(U.make_rng(job).getstate())
        rng = None
        spell_none = mode == "default-none"
        if spell_none:
            op = "%s(rng=None)" % op
    status, res = "ok", None
    try:
        res = call.invoke(rng, spell_none=spell_none)
    except core.CaseTimeout:
        raise
    except Exception as e:
        allowed = documented_errors(job)
        if allowed and isinstance(e, allowed):
            ctx.ev("documented-error:%s:%s" % (op, type(e).__name__))
            status = "documented-error"
        else:
            saved = ctx.case
            ctx.case = {"kind": "jobs", "jobs": [job]}
            try:
                ctx.unexpected(op, e, {"job": job, "mode": mode})
            finally:
                ctx.case = saved
            status = "unexpected"
    if mon.last and mon.last["hits"]:
        mon.fired = True
    if status != "ok":
        return call, status, None, None
    try:
        enc = U.encode_result(job, res)
    except bridge.ExtractError:
        return call, "malformed", res, None
    return call, "ok", res, enc


def reuse_comparable(job, call):
    """may the second call on the same argument objects be compared with the first?  Only where the simulator
    does not document changing its arguments (and the check did not change the request)."""
    sim = job["sim"]
    if sim in ("birth_death_tree", "fast_birth_death_tree"):
        if job.get("n2", job["n"]) != job["n"]:
            return False
        ns = call.aux.get("ns")
        return ns is None or call.aux.get("ns_first_len", 0) >= job["n"]     # else the namespace was grown
    if sim == "constrained_kingman_tree":
        return not job["decorate"]          # decorate_original_tree=True: the argument is documented to be changed
    if sim == "containing_tree_kingman":
        return not (job.get("method") == "embed" and job.get("fit"))
    return True


def reuse_step(ctx, mon, job, call, enc):
    """the same argument objects (namespace / species tree / mapping / tree list / ContainingTree) once more."""
    sim = job["sim"]
    if sim == "containing_tree_kingman" and job.get("method") == "embed" and job.get("fit"):
        ctx.ev("reuse:not-driven-containing-tree-refitted")
        return
    ns = call.aux.get("ns")
    call.aux["ns_first_len"] = len(call.aux.get("ns_before") or []) if ns is not None else 0
    call.reuse_setup(job)
    mon.fired = False
    call_r, status, res, enc_r = monitored_run(ctx, mon, job, "explicit", call=call)
    ctx.ev("reuse:second-calls")
    if status in ("documented-error", "unexpected"):
        return
    judge(ctx, job, res, call, tag=REUSE_TAG)
    ctx.ev("reuse:second-calls-judged")
    if mon.fired or enc is None:
        return
    if not reuse_comparable(job, call):
        ctx.ev("reuse:comparison-not-applicable")
        return
    if enc_r is None:
        ctx.ev("determinism:not-judged-malformed-tree")
        return
    compare(ctx, job, call.aux, enc, enc_r, "same-arguments-again")


def run_jobs(ctx, jobs):
    mon = Monitor(ctx)
    firsts = []
    with Hooks(ctx) as hooks, Hooks(ctx) as inner:
        mon.install(hooks, inner)
        try:
            for job in jobs:
                sim = U.name(job)
                mon.fired = False
                call, status, res, enc = monitored_run(ctx, mon, job, "explicit")
                if status == "unexpected":
                    continue
                if status == "documented-error":
                    # the second run from an equal generator state must end the same way
                    call2, status2, res2, enc2 = monitored_run(ctx, mon, job, "explicit")
                    ctx.ev("determinism:in-process-judged")
                    if status2 in ("ok", "malformed"):
                        viol(ctx, job, "determinism|%s|other-run-returned-a-tree|in-process" % sim,
                             "first run raised a documented error, the second run from an equal generator state returned a tree",
                             {"job": job})
                    continue
                if mon.last and mon.last["restarts"]:
                    ctx.ev("restart:runs-that-restarted")
                    ctx.ev("restart:branch-executions", mon.last["restarts"])
                    ctx.ev("restart:%s" % sim)
                judge(ctx, job, res, call)
                if enc is not None and len(ctx.samples) < 6 and job["seed"] % 7 == 3:
                    ctx.sample({"job": job, "returned": [ref.to_newick(U.unflat(f))[:400] for f in enc[:2]],
                                "restart_branch_executions": mon.last["restarts"] if mon.last else None})
                fired_first = mon.fired
                # (d) the same argument objects again
                if job.get("reuse") and job["sim"] != "rand_trees":
                    reuse_step(ctx, mon, job, call, None if fired_first else enc)
                    mon.fired = fired_first
                if enc is None:
                    ctx.ev("determinism:not-judged-malformed-tree")
                    continue
                # (a) second in-process run with fresh arguments
                call2, status2, res2, enc2 = monitored_run(ctx, mon, job, "explicit")
                if mon.fired:
                    # the stray generator use is already reported; its consequences are not keyed a second time
                    ctx.ev("determinism:not-judged-tripwire-fired")
                    continue
                firsts.append((job, call.aux, enc))
                if status2 == "ok":
                    compare(ctx, job, call.aux, enc, enc2, "in-process")
                elif status2 == "documented-error":
                    compare(ctx, job, call.aux, enc, None, "in-process", other_err="a documented error")
                # (c) default generator
                if job.get("default") and job["sim"] != "rand_trees":     # rand_trees(None, ...) seeds from the OS
                    mode = "default-none" if job.get("defspell") == "none" else "default-omit"
                    call3, status3, res3, enc3 = monitored_run(ctx, mon, job, mode)
                    ctx.ev("determinism:default-generator-spelled-%s" % mode.split("-")[1])
                    if status3 == "ok" and not mon.fired:
                        compare(ctx, job, call.aux, enc, enc3, "default-generator")
        finally:
            mon.reset()
    # (b) other interpreters
    by_job = [(j, aux, enc) for j, aux, enc in firsts if enc is not None]
    child_jobs = [j for j, aux, enc in by_job]
    if not child_jobs:
        return
    results = run_children(ctx, child_jobs)
    for label, res in results:
        if res is None:
            continue
        for (job, aux, enc), r in zip(by_job, res):
            other = r["enc"]
            compare(ctx, job, aux, enc, other, "cross-process", other_err=r["err"], extra=label)


def run_case(case, ctx):
    if case["kind"] == "directed":
        jobs = _directed_jobs(case["name"])
    elif case["kind"] == "jobs":
        jobs = case["jobs"]
    else:
        rng = random.Random("%s/%s" % (case["seed"], sorted(case.items())))
        jobs = []
        for k in range(case["n"]):
            job = U.make_job(rng, case.get("tier", ctx.tier))
            if rng.random() < 0.12:
                job["default"] = True
                job["defspell"] = rng.choice(["omit", "none"])
            jobs.append(job)
        if case["i"] % 8 == 0:
            jobs.append({"sim": "rand_trees", "form": rng.choice(["mapping", "mapping+rng", "callable", "list", "list+rng"]),
                         "n": rng.randint(2, 12), "reps": 2, "birth": 1.0, "death": rng.choice([0.0, 0.5, 0.9]),
                         "seed": rng.randrange(1000)})
    run_jobs(ctx, jobs)
