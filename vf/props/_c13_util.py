"""Helpers of the C13 check: document templates (text only, nothing here calls a library
writer), canonical records of delivered trees / matrices, and the offline comparison.

Nothing in this module decides what a document *means*; the templates only have to be
valid input.  The oracle is agreement of the records that different reading routes deliver."""
from .. import ref, gen, bridge

# ----------------------------------------------------------------------------------------
# document model
#   doc = {"schema": ..., "text": ..., "blocks": [n_trees_in_block, ...], "features": [...],
#          "matrices": [datatype, ...]}


class Taxa(object):
    """label pool of one document: every taxon i has one *style* (how its token is written);
    equivalent alternative spellings are used now and then inside later trees."""

    STYLES = ("plain", "plain", "plain", "underscore", "quoted-space", "quoted-quote", "quoted-punct",
              "quoted-underscore", "dash", "dot", "mixedcase")

    def __init__(self, rng, n, hostile=True, ascii_only=True, allow_integer=False):
        self.n = n
        self.tokens = []
        # labels that are plain integers - only in Newick documents, where a number is just a label (in NEXUS a number may also
        # be a taxon number and its meaning depends on what the shared namespace already holds: not a route difference):
        # descending, multiples of ten, or small numbers below the number of taxa
        int_scheme = rng.choice(["reverse", "tens", "small"])
        if allow_integer and hostile:
            self.STYLES = self.STYLES + ("integer", "integer")
            if rng.random() < 0.15:
                self.STYLES = ("integer",)          # an all-integer document
        for i in range(n):
            st = rng.choice(self.STYLES) if hostile else "plain"
            if st == "integer":
                t = str({"reverse": n - i, "tens": 10 * (i + 1), "small": (i * 2) % (n + 1) + 1}[int_scheme])
                if t in self.tokens:
                    t = "tx%d" % i
            elif st == "plain":
                t = "tx%d" % i
            elif st == "underscore":
                t = "Gen_sp%d" % i
            elif st == "quoted-space":
                t = "'Gen sp%d'" % i
            elif st == "quoted-quote":
                t = "'t''x%d'" % i
            elif st == "quoted-punct":
                t = "'t(x),%d;'" % i
            elif st == "quoted-underscore":
                t = "'t_x%d'" % i
            elif st == "dash":
                t = "tx-%d" % i
            elif st == "dot":
                t = "T.x%d" % i
            else:
                t = "TaXon%d" % i
            self.tokens.append(t)

    def token(self, i, rng=None, alias=False):
        t = self.tokens[i]
        if alias and rng is not None and rng.random() < 0.5:
            # an equivalent spelling of the same label (same for every route whatever it means)
            if t.startswith("'"):
                return t
            if rng.random() < 0.5:
                return t.upper() if rng.random() < 0.5 else t.lower()
            if "_" in t:
                return "'%s'" % t.replace("_", " ")
        return t


def ws(rng, p=0.3, nl="\n"):
    if rng.random() >= p:
        return ""
    return rng.choice([" ", "  ", "\t", nl, " " + nl + "  "])


NODE_COMMENTS = ("[c]", "[a comment, with; punctuation (x)]", "[&k=v]", "[&rate=0.125]", "[&height={1.5,2.5},posterior=0.75]",
                 "[&&NHX:S=human:E=1.1.1.1]", "[&&NHX:B=100]", "[&flag=true]", "[& ]", "[&]", "[&name=\"q s\"]", "[100]",
                 "[&!color=#ff0000]", "[&a=1][&b=2]", "[ spaced ]", "[&k=v][plain]")
TREE_COMMENTS = ("[tree comment]", "[&lnP=-12.5]", "[&lnP=-12.5,posterior=0.5]", "[&&NHX:T=1]", "[!note]", "[&x={1,2}]",
                 "[%sth]", "[&state=1000]")
WEIGHTS = ("[&W 1/2]", "[&W 0.25]", "[&w 3]", "[&W 1/3]", "[&W 2/8]", "[&W 1.5e-1]", "[&W 0]", "[&W 0/4]")   # zero: a boundary value every route must deliver as 0.0, not as "no weight"


def length_token(rng, pattern):
    if pattern == "none":
        return None
    if pattern == "ints":
        return str(rng.randint(0, 9))
    if pattern == "dyadic":
        return repr(rng.randint(0, 64) / 8.0)
    if pattern == "sci":
        return rng.choice(["1e-3", "2.5E+1", "1.0e0", "4e2", "-1e-1"])
    if pattern == "float":
        return "%.6f" % rng.uniform(0, 3)
    if pattern == "mixed":
        return rng.choice([None, "1", "0.5", "1e-2", "-0.25", "0", "00.50", "3."])
    raise ValueError(pattern)


LENGTH_PATTERNS = ("none", "ints", "dyadic", "sci", "float", "mixed")


def newick_body(rng, taxa, leaves, opt):
    """text of one tree statement without rooting/weight comments and without ';'.
    opt: lengths pattern, p_comment, internal labels, nl, alias, int_only"""
    spec = gen.random_spec(rng, len(leaves), p_poly=opt.get("p_poly", 0.25), p_unary=opt.get("p_unary", 0.0),
                           names=list(leaves), shape=opt.get("shape"))
    pat = opt.get("lengths", "none")
    nl = opt.get("nl", "\n")
    pc = opt.get("p_comment", 0.0)
    pw = opt.get("p_ws", 0.1)
    counter = [0]
    edge_no = [0]

    def com():
        if rng.random() < pc:
            return rng.choice(NODE_COMMENTS)
        return ""

    def rec(n, is_root):
        s = ""
        if n[3]:
            s += com() + "(" + ws(rng, pw, nl)
            s += ("," + ws(rng, pw, nl)).join(rec(c, False) for c in n[3])
            s += ws(rng, pw, nl) + ")"
            if opt.get("internal_labels") and rng.random() < 0.6:
                counter[0] += 1
                il = opt["internal_labels"]
                if il == "numeric":
                    s += rng.choice(["100", "0.95", "75"])
                elif il == "unique":
                    s += "inode%s_%d" % (opt.get("tree_no", 0), counter[0])
                else:
                    s += rng.choice(["inner", "'in ner'", "in_ner", "X%d" % counter[0]])
        else:
            if opt.get("p_blank_leaf", 0) and rng.random() < opt["p_blank_leaf"]:
                pass
            else:
                c, t = com(), taxa.token(n[0], rng, alias=opt.get("alias", False))
                # (a quote that directly follows a comment is not recognised by the tokenizer - every route refuses
                # such a statement alike; keep the documents readable)
                s += c + (" " if c and t.startswith("'") else "") + t
        s += com()
        ln = length_token(rng, pat)
        if is_root and rng.random() < 0.7:
            ln = None
        if is_root and opt.get("no_final_semicolon"):
            # the readers accept a missing terminator only right after an edge length.  Otherwise the statement is
            # refused - or, if it is a bare label followed by at most ONE white-space character, silently dropped;
            # with two it is an error.  A CR LF that a file read translates to LF flips that, i.e. this end-of-stream
            # quirk of the tokenizer would show up as a string-vs-path difference that is not a matter of the routes.
            ln = "1"
        if ln is not None:
            s += ws(rng, pw, nl) + ":" + ws(rng, pw, nl) + com() + ln + com()
        if opt.get("jplace") and not (is_root and opt.get("no_final_semicolon")) and rng.random() < 0.8:
            # .jplace edge number (only written when is_parse_jplace_tokens=True is among the options)
            s += "{%d}" % edge_no[0]
            edge_no[0] += 1
        return s
    return rec(spec, True), spec


def tree_prefix(rng, opt):
    """comments between '=' (or statement start) and '(' : rooting, weight, metadata"""
    parts = []
    r = opt.get("rooting_tokens", "none")
    if r == "mixed":
        tok = rng.choice(["[&R]", "[&U]", "[&r]", "[&u]", "", "[&R] ", "[ &R ]"])
    elif r == "R":
        tok = "[&R]"
    elif r == "U":
        tok = "[&U]"
    else:
        tok = ""
    if tok:
        parts.append(tok)
    if opt.get("weights") and rng.random() < 0.7:
        parts.append(rng.choice(WEIGHTS))
    if opt.get("tree_comments") and rng.random() < 0.6:
        parts.append(rng.choice(TREE_COMMENTS))
    rng.shuffle(parts)
    return (" " if rng.random() < 0.5 else "").join(parts) + (" " if parts and rng.random() < 0.5 else "")


def tree_options(rng, hostile):
    if not hostile:
        return {"lengths": rng.choice(["none", "ints", "dyadic"]), "rooting_tokens": rng.choice(["none", "mixed"])}
    return {"lengths": rng.choice(LENGTH_PATTERNS), "p_comment": rng.choice([0, 0, 0.1, 0.3]),
            "p_ws": rng.choice([0, 0.1, 0.4]), "p_poly": rng.choice([0, 0.3]), "p_unary": rng.choice([0, 0, 0.15]),
            "internal_labels": rng.choice([None, None, "mixed", "numeric", "unique"]),
            "rooting_tokens": rng.choice(["none", "mixed", "mixed", "R", "U"]),
            "weights": rng.random() < 0.5, "tree_comments": rng.random() < 0.5,
            "alias": rng.random() < 0.3, "p_blank_leaf": rng.choice([0, 0, 0, 0.1]),
            "shape": rng.choice([None, None, None, "caterpillar", "star"])}


def pick_leaves(rng, n_taxa, full=False):
    idx = list(range(n_taxa))
    if full or n_taxa <= 2 or rng.random() < 0.6:
        k = n_taxa
    else:
        k = rng.randint(2, n_taxa)
    rng.shuffle(idx)
    return idx[:k]


def newick_doc(rng, hostile=True, nl="\n", force=None):
    n_taxa = rng.choice([1, 2, 3, 4, 5, 6, 8]) if hostile else rng.choice([3, 4, 5])
    taxa = Taxa(rng, n_taxa, hostile, allow_integer=True)
    n_trees = rng.choice([1, 2, 3, 4, 6])
    topt = tree_options(rng, hostile)
    topt["nl"] = nl
    if force:
        topt.update(force)
    if topt.get("taxa_internal") and topt.get("internal_labels"):
        topt["internal_labels"] = "unique"     # internal labels become taxa: must be unique within a tree
    out = []
    feats = set()
    if hostile and rng.random() < 0.2:
        out.append(rng.choice(["[leading comment]", nl, ";", " "]) + nl)
        feats.add("leading-junk")
    for i in range(n_trees):
        topt["tree_no"] = i
        body, spec = newick_body(rng, taxa, pick_leaves(rng, n_taxa), topt)
        stmt = tree_prefix(rng, topt) + body
        last = i == n_trees - 1
        if last and topt.get("no_final_semicolon"):
            term = ""
            feats.add("no-final-semicolon")
        else:
            term = ";"
            if hostile and rng.random() < 0.15:
                term = rng.choice([";;", "; ;", ";" + nl + ";"])
                feats.add("blank-statement")
        sep = rng.choice([nl, nl, " ", "", nl + nl]) if not last else rng.choice([nl, "", nl + nl])
        if hostile and rng.random() < 0.15 and term:
            sep += "[between statements]" + nl
            feats.add("comment-between-statements")
        out.append(stmt + term + sep)
    if n_trees > 1:
        feats.add("multi-statement")
    for k in ("weights", "tree_comments", "alias", "jplace"):
        if topt.get(k):
            feats.add(k)
    if topt["rooting_tokens"] != "none":
        feats.add("rooting-" + topt["rooting_tokens"])
    if topt.get("p_comment"):
        feats.add("node-comments")
    if topt.get("internal_labels"):
        feats.add("internal-labels")
    return {"schema": "newick", "text": "".join(out), "blocks": [n_trees], "features": sorted(feats), "matrices": []}


def kw(rng, word):
    return rng.choice([word, word, word.lower(), word.capitalize()])


SYMBOLS = {"dna": "ACGT", "rna": "ACGU", "protein": "ACDEFGHIKLMNPQRSTVWY", "standard": "01"}


def chars_block(rng, taxa, order, nl, title=None, link=None, data_block=False, allow_multistate=True):
    dt = rng.choice(["dna", "dna", "standard", "continuous", "protein", "rna"])
    nchar = rng.randint(2, 7)
    n = len(order)
    rows = []
    if dt == "continuous":
        for i in order:
            rows.append([rng.choice(["0.5", "1e-3", "-1", "2", "4.25", "0", "10.125"]) for _ in range(nchar)])
    else:
        sym = SYMBOLS[dt] if dt != "standard" else rng.choice(["01", "012", "0123"])
        for i in order:
            r = []
            for _ in range(nchar):
                x = rng.random()
                if x < 0.75:
                    r.append(rng.choice(sym))
                elif x < 0.85:
                    r.append(rng.choice("?-"))
                elif x < 0.95 and allow_multistate and len(sym) >= 2:
                    a, b = rng.sample(sym, 2)
                    r.append(rng.choice(["{%s%s}", "(%s%s)", "{%s %s}"]) % (a, b))
                else:
                    r.append(rng.choice(sym).lower())
            rows.append(r)
    fmt = "DATATYPE=%s" % dt.upper()
    feats = ["chars-" + dt]
    if dt == "standard":
        if rng.random() < 0.35:
            # legal NEXUS: no DATATYPE means STANDARD - whatever class the client reads the block through, and whatever
            # type another block of the document declared (seeded change C13e)
            fmt = ""
            feats.append("datatype-implicit")
        fmt += ' SYMBOLS="%s"' % (sym if rng.random() < 0.5 else " ".join(sym))
        fmt = fmt.strip()
    if dt != "continuous" and rng.random() < 0.4:
        fmt += " MISSING=? GAP=-"
    interleave = rng.random() < 0.3 and nchar >= 4
    matchchar = dt not in ("continuous",) and rng.random() < 0.25 and n > 1
    if matchchar:
        fmt += " MATCHCHAR=."
        feats.append("matchchar")
        for r in rows[1:]:
            for j in range(nchar):
                if r[j] == rows[0][j] and len(r[j]) == 1 and r[j] not in "?-" and rng.random() < 0.7:
                    r[j] = "."
    if interleave:
        fmt += rng.choice([" INTERLEAVE", " INTERLEAVE=YES"])
        feats.append("interleave")
    sep = " " if dt == "continuous" else rng.choice(["", "", " "])
    lines = []
    chunks = [(0, nchar)] if not interleave else [(0, nchar // 2), (nchar // 2, nchar)]
    for a, b in chunks:
        for k, i in enumerate(order):
            lines.append("    %s  %s" % (taxa.token(i), sep.join(rows[k][a:b])))
        if interleave:
            lines.append("")
    s = "%s %s;%s" % (kw(rng, "BEGIN"), kw(rng, "DATA" if data_block else "CHARACTERS"), nl)
    if title:
        s += "  TITLE %s;%s" % (title, nl)
    if link:
        s += "  LINK TAXA = %s;%s" % (link, nl)
    if data_block:
        s += "  DIMENSIONS NTAX=%d NCHAR=%d;%s" % (n, nchar, nl)
    else:
        s += "  DIMENSIONS NCHAR=%d;%s" % (nchar, nl)
    s += "  FORMAT %s;%s" % (fmt, nl)
    if rng.random() < 0.2:
        s += "  [a comment in the characters block]%s" % nl
    s += "  MATRIX%s%s%s  ;%s%s;%s" % (nl, nl.join(lines), nl, nl, kw(rng, "END"), nl)
    return s, dt, nchar, feats


TAXA_TITLES = ("taxa1", "'My Taxa'", "Second_set", "'taxa three'", "OTUs.b")


def taxa_groups(rng, n_taxa, hostile, have_taxa_block, allow_multi):
    """TAXA blocks of a NEXUS document: [{"title": token or None, "ids": taxon indices, "order": order of TAXLABELS}].
    Usually one block over all taxa.  Mesquite-style documents carry two or three TITLEd blocks whose label sets are
    disjoint, overlapping or identical; every TREES / CHARACTERS block is then LINKed to one of them."""
    ids = list(range(n_taxa))
    if not (have_taxa_block and allow_multi and hostile and n_taxa >= 4 and rng.random() < 0.16):
        order = ids[:]
        rng.shuffle(order)
        title = rng.choice([None, None, "taxa1", "'My Taxa'"]) if have_taxa_block else None
        return [{"title": title, "ids": ids, "order": order}], None
    k = rng.choice([2, 2, 3])
    relation = rng.choice(["disjoint", "overlapping", "identical"])
    if relation == "disjoint" and n_taxa < 2 * k:
        k = 2
    titles = rng.sample(TAXA_TITLES, k)
    groups = []
    pool = ids[:]
    rng.shuffle(pool)
    for g in range(k):
        if relation == "identical":
            mine = ids[:]
        elif relation == "disjoint":
            size = len(pool) // k
            mine = pool[g * size:(g + 1) * size] if g < k - 1 else pool[g * size:]
        else:
            mine = rng.sample(ids, rng.randint(2, n_taxa - 1))
            if g and not set(mine) & set(groups[0]["ids"]):
                mine[0] = groups[0]["ids"][0]
        order = mine[:]
        rng.shuffle(order)
        groups.append({"title": titles[g], "ids": sorted(mine), "order": order})
    return groups, relation


def nexus_doc(rng, hostile=True, nl="\n", force=None, with_chars=False, allow_multistate=True, allow_multi_taxa=True):
    n_taxa = rng.choice([2, 3, 4, 5, 6, 8]) if hostile else rng.choice([3, 4, 5])
    taxa = Taxa(rng, n_taxa, hostile)
    feats = set()
    topt = tree_options(rng, hostile)
    topt["nl"] = nl
    if force:
        topt.update(force)
    if topt.get("taxa_internal") and topt.get("internal_labels"):
        topt["internal_labels"] = "unique"     # internal labels become taxa: must be unique within a tree
    data_block = with_chars and rng.random() < 0.3
    have_taxa_block = (not data_block) and (with_chars or rng.random() < 0.6)
    if data_block:
        # without a TAXA block the first spelling seen defines a taxon's label, and a matrix read skips the TREES
        # blocks while a tree read skips the matrix: alternative spellings would differ legitimately
        topt["alias"] = False
    groups, relation = taxa_groups(rng, n_taxa, hostile, have_taxa_block, allow_multi_taxa and not topt.get("taxa_internal"))
    multi = len(groups) > 1
    if multi:
        feats.add("taxa-blocks-%d" % len(groups))
        feats.add("taxa-sets-" + relation)
    out = ["#NEXUS" + nl]
    if hostile and rng.random() < 0.4:
        out.append(rng.choice(["[file comment]", "[!a visible comment]", "[&file=meta]"]) + nl)
        feats.add("file-comment")

    def taxa_block(g):
        s = "%s %s;%s" % (kw(rng, "BEGIN"), kw(rng, "TAXA"), nl)
        if g["title"]:
            s += "  TITLE %s;%s" % (g["title"], nl)
            feats.add("taxa-title")
        s += "  DIMENSIONS NTAX=%d;%s" % (len(g["ids"]), nl)
        s += "  TAXLABELS" + nl + "".join("    %s%s%s" % (taxa.token(i), " [taxon comment]" if hostile and rng.random() < 0.1 else "", nl)
                                          for i in g["order"]) + "  ;" + nl
        s += "%s;%s" % (kw(rng, "END"), nl)
        return s
    if have_taxa_block:
        feats.add("taxa-block")
        for g in groups:
            out.append(taxa_block(g))

    def link_of(g):
        """LINK TAXA statement of a block that uses the taxa of g: mandatory with several TAXA blocks"""
        if g["title"] and (multi or rng.random() < 0.7):
            return g["title"]
        return None
    matrices = []
    n_char_blocks = 0
    if with_chars:
        n_char_blocks = 1 if data_block else rng.choice([1, 1, 2, 3])
    char_titles = []

    def add_chars():
        title = None
        if n_char_blocks > 1 or rng.random() < 0.3:
            title = "chars%d" % len(matrices)
        g = rng.choice(groups)
        s, dt, nchar, f = chars_block(rng, taxa, g["order"], nl, title=title, link=link_of(g), data_block=data_block,
                                      allow_multistate=allow_multistate)
        out.append(s)
        matrices.append(dt)
        char_titles.append((title, nchar))
        feats.update(f)
    sets_done = [False]

    def emit_sets():
        """charset statements on the LAST characters block read so far (position lists are validated against the NCHAR read
        last, whichever block the LINK names - a reader matter outside this property; every route that parses SETS refuses
        alike).  Position lists use a range, a single position and the keyword ALL, in random order."""
        if sets_done[0] or not (with_chars and matrices):
            return
        k = len(matrices) - 1
        title, nchar = char_titles[k]
        if title is None and len(matrices) != 1:
            return
        sets_done[0] = True
        stmts = ["  CHARSET cs1 = 1-%d;%s" % (max(1, nchar - 1), nl), "  CHARSET cs2 = %d;%s" % (nchar, nl),
                 "  CHARSET cs3 = %s;%s" % (rng.choice(["ALL", "all", "All"]), nl)]
        rng.shuffle(stmts)
        s_ = "BEGIN SETS;%s" % nl
        if title is not None:
            s_ += "  LINK CHARACTERS = %s;%s" % (title, nl)
        s_ += "".join(stmts[:rng.randint(1, 3)]) + "END;%s%s" % (nl, nl)
        out.append(s_)
        feats.add("charset")

    chars_left = n_char_blocks
    if chars_left and rng.random() < 0.7:
        add_chars()
        chars_left -= 1
        if not chars_left and rng.random() < 0.5:
            emit_sets()
    n_blocks = rng.choice([1, 1, 2, 2, 3]) if not with_chars else rng.choice([0, 1, 2])
    blocks = []

    def empty_trees_block():
        """a TREES block without any tree statement: no reader makes a collection of it, so it is not counted in 'blocks'"""
        g = rng.choice(groups)
        s = "%s %s;%s" % (kw(rng, "BEGIN"), kw(rng, "TREES"), nl)
        if rng.random() < 0.3:
            s += "  TITLE no_trees_here;%s" % nl
        if multi or (g["title"] and rng.random() < 0.5):
            s += "  LINK TAXA = %s;%s" % (g["title"], nl)
        if rng.random() < 0.3:
            s += "  [nothing here]" + nl
        s += "%s;%s" % (kw(rng, "END"), nl)
        out.append(s)
        feats.add("empty-trees-block")
    for b in range(n_blocks):
        if hostile and rng.random() < 0.25:
            out.append(rng.choice(["[comment between blocks]" + nl,
                                   "BEGIN PAUP;%s  set autoclose=yes;%s  [tree t = (a,b);]%sEND;%s" % (nl, nl, nl, nl),
                                   "begin mrbayes;%s  mcmc ngen=10;%send;%s" % (nl, nl, nl)]))
            feats.add("foreign-block-or-comment")
        if hostile and rng.random() < 0.06:
            empty_trees_block()
        g = rng.choice(groups)
        g_ids, g_order = g["ids"], g["order"]
        n_trees = rng.choice([1, 2, 3, 4])
        s = "%s %s;%s" % (kw(rng, "BEGIN"), kw(rng, "TREES"), nl)
        if rng.random() < 0.3:
            s += "  TITLE %s;%s" % (rng.choice(["trees%d" % b, "'Tree Block %d'" % b]), nl)
            feats.add("trees-title")
        link = link_of(g)
        if link:
            s += "  LINK TAXA = %s;%s" % (link, nl)
        if hostile and rng.random() < 0.3:
            s += "  [comment at start of trees block]" + nl
            feats.add("block-comment")
        # how taxa are written in this block
        modes = ["labels", "translate-numeric", "translate-permuted", "translate-symbolic", "translate-partial"]
        if have_taxa_block and not multi:
            # (with several TAXA blocks a taxon NUMBER means "n-th taxon of the linked block" only while every block keeps a
            # namespace of its own; the routes that - as documented - pool all blocks in one namespace number differently)
            modes += ["numbers", "numbers"]
        mode = rng.choice(modes)
        feats.add("block-" + mode)
        tokens = None
        if mode.startswith("translate"):
            ids = list(g_ids)
            if mode == "translate-numeric":
                tok = dict((i, str(k + 1)) for k, i in enumerate(g_order))
            elif mode == "translate-permuted":
                perm = g_order[:]
                rng.shuffle(perm)
                tok = dict((i, str(k + 1)) for k, i in enumerate(perm))
            elif mode == "translate-symbolic":
                tok = dict((i, rng.choice(["s%d", "S_%d", "'q %d'"]) % i) for i in ids)
            else:
                keep = set(rng.sample(ids, max(1, len(ids) // 2)))
                tok = dict((i, "k%d" % i) for i in ids if i in keep)
            entries = ["    %s %s" % (tok[i], taxa.token(i)) for i in sorted(tok, key=lambda i: (len(tok[i]), tok[i]))]
            if mode == "translate-permuted":
                rng.shuffle(entries)
            s += "  %s%s%s%s  ;%s" % (kw(rng, "TRANSLATE"), nl, ("," + nl).join(entries), nl, nl)
            tokens = tok
        elif mode == "numbers":
            tokens = dict((i, str(k + 1)) for k, i in enumerate(g_order))

        class View(object):
            n = len(g_ids)

            def token(self, i, rng=None, alias=False):
                if tokens is not None and i in tokens:
                    return tokens[i]
                return taxa.token(i, rng, alias=alias and mode == "labels")
        view = View()
        for t in range(n_trees):
            topt["tree_no"] = "%d_%d" % (b, t)
            leaves = [g_ids[j] for j in pick_leaves(rng, len(g_ids))]
            body, spec = newick_body(rng, view, leaves, topt)
            pre = ""
            if hostile and rng.random() < 0.2:
                pre = rng.choice(["[before tree statement] ", "[&pre=1] "])
                feats.add("comment-before-TREE")
            if hostile and rng.random() < 0.1:
                # a command the readers skip, inside the TREES block (between TREE statements when t > 0): the parser leaves
                # and re-enters its TREE branch, comments around it must still end up where every other route puts them
                # (seeded change C13d)
                s += "  %s%s source = run%d;%s" % (rng.choice(["", "[skipped command follows] "]), kw(rng, "PROPERTIES"), t, nl)
                feats.add("skipped-command-inside-TREES")
                if rng.random() < 0.7:
                    pre = rng.choice(["[after a skipped command] ", "[&burnin=true] [note] ", "[&pre=2] "])
                    feats.add("comment-before-TREE")
            name = rng.choice(["t%d" % t, "tree_%d_%d" % (b, t), "'tree %d'" % t, "PAUP_%d" % t, "%d" % (t + 1), "rep.%d" % t])
            star = "* " if rng.random() < 0.15 else ""
            mid = " [named] " if hostile and rng.random() < 0.1 else " "
            s += "  %s%s %s%s%s= %s%s;%s" % (pre, kw(rng, "TREE"), star, name, mid, tree_prefix(rng, topt), body, nl)
            if hostile and rng.random() < 0.1:
                s += "  [after tree statement]" + nl
                feats.add("comment-after-tree")
        s += "%s;%s" % (rng.choice(["END", "End", "end", "ENDBLOCK"]), nl)
        out.append(s)
        blocks.append(n_trees)
        if chars_left and rng.random() < 0.6:
            add_chars()
            chars_left -= 1
            if not chars_left and rng.random() < 0.5:
                emit_sets()     # SETS right after its CHARACTERS block, i.e. BEFORE the remaining TREES blocks
    if hostile and blocks and rng.random() < 0.04:
        empty_trees_block()
    while chars_left:
        add_chars()
        chars_left -= 1
    if not sets_done[0] and rng.random() < 0.4:
        emit_sets()
    if len(blocks) > 1:
        feats.add("multi-trees-block")
    for k in ("weights", "tree_comments", "alias", "jplace"):
        if topt.get(k):
            feats.add(k)
    if topt["rooting_tokens"] != "none":
        feats.add("rooting-" + topt["rooting_tokens"])
    if topt.get("p_comment"):
        feats.add("node-comments")
    if topt.get("internal_labels"):
        feats.add("internal-labels")
    return {"schema": "nexus", "text": "".join(out), "blocks": blocks, "features": sorted(feats), "matrices": matrices,
            "taxa_blocks": len(groups) if have_taxa_block else 0, "n_taxa": n_taxa}


# ----------------------------------------------------------------------------------------
# NeXML template (trees only; character NeXML documents are obtained elsewhere)
def xml_attr(s):
    return s.replace("&", "&amp;").replace("<", "&lt;").replace('"', "&quot;")


META = ('<meta xsi:type="nex:LiteralMeta" property="dendropy:support" content="0.75" datatype="xsd:float" id="%s"/>',
        '<meta xsi:type="nex:LiteralMeta" property="dendropy:note" content="a &amp; b" id="%s"/>',
        '<meta xsi:type="nex:LiteralMeta" property="dc:description" content="7" datatype="xsd:integer" id="%s"/>',
        '<meta xsi:type="nex:ResourceMeta" rel="dc:source" href="http://example.org/x" id="%s"/>',
        '<meta xsi:type="nex:LiteralMeta" property="dendropy:flag" content="true" datatype="xsd:boolean" id="%s"/>')


def nexml_doc(rng, hostile=True, nl="\n"):
    n_otus_blocks = rng.choice([1, 1, 2]) if hostile else 1
    ids = [0]

    def nid(p):
        ids[0] += 1
        return "%s%d" % (p, ids[0])

    def meta(p):
        if hostile and rng.random() < p:
            return "".join("      " + rng.choice(META) % nid("m") + nl for _ in range(rng.randint(1, 2)))
        return ""
    feats = set()
    out = ['<?xml version="1.0" encoding="UTF-8"?>' + nl if rng.random() < 0.7 else "",
           '<nex:nexml version="0.9" xmlns="http://www.nexml.org/2009" xmlns:nex="http://www.nexml.org/2009" '
           'xmlns:xsi="http://www.w3.org/2001/XMLSchema-instance" xmlns:xsd="http://www.w3.org/2001/XMLSchema#" '
           'xmlns:dc="http://purl.org/dc/elements/1.1/" xmlns:dendropy="http://pypi.org/project/DendroPy/">' + nl]
    otus = []
    for b in range(n_otus_blocks):
        oid = nid("otus")
        n = rng.choice([2, 3, 4, 5, 6])
        members = []
        s = '  <otus id="%s"%s>%s' % (oid, ' label="%s"' % ("Taxa %d" % b) if rng.random() < 0.5 else "", nl)
        s += meta(0.15)
        for i in range(n):
            tid = nid("t")
            lab = rng.choice(["tx%d", "Gen sp%d", "Gen_sp%d", "t'x%d", "T&amp;x%d", "TAXON%d"]) % i if hostile else "tx%d" % i
            if n_otus_blocks > 1 and rng.random() < 0.7:
                lab = "tx%d" % i     # same labels in both otus blocks: must stay distinct or merge identically
            m = meta(0.1)
            if m:
                s += '    <otu id="%s" label="%s">%s%s    </otu>%s' % (tid, lab, nl, m, nl)
            else:
                s += '    <otu id="%s" label="%s"/>%s' % (tid, lab, nl)
            members.append(tid)
        s += "  </otus>" + nl
        out.append(s)
        otus.append((oid, members))
    if n_otus_blocks > 1:
        feats.add("multi-otus")
    n_blocks = rng.choice([1, 2, 2, 3])
    blocks = []
    for b in range(n_blocks):
        oid, members = rng.choice(otus)
        s = '  <trees id="%s" otus="%s"%s>%s' % (nid("trees"), oid, ' label="Trees %d"' % b if rng.random() < 0.5 else "", nl)
        s += meta(0.15)
        n_trees = rng.choice([1, 2, 3])
        if hostile and n_blocks > 1 and rng.random() < 0.07:
            n_trees = 0          # an empty <trees> element IS a (empty) collection for every route: counted in 'blocks'
            feats.add("empty-trees-element")
        for t in range(n_trees):
            k = rng.randint(1, len(members))
            leaves = rng.sample(members, k)
            spec = gen.random_spec(rng, k, p_poly=0.25, p_unary=rng.choice([0, 0.15]), names=leaves)
            ttype = rng.choice(["nex:FloatTree", "nex:FloatTree", "nex:IntTree"])
            lab = rng.choice([None, "tree %d" % t, "t_%d" % t, ""])
            s += '    <tree id="%s"%s xsi:type="%s">%s' % (nid("tree"), "" if lab is None else ' label="%s"' % lab, ttype, nl)
            s += meta(0.3)
            nodes, edges = [], []
            rooted = rng.random() < 0.5
            lenmode = rng.choice(["none", "all", "some"])

            def walk(n, parent):
                me = nid("n")
                a = ' id="%s"' % me
                if not n[3] and not (hostile and rng.random() < 0.05):
                    a += ' otu="%s"' % n[0]
                if rng.random() < 0.2:
                    a += ' label="%s"' % rng.choice(["node x", "95", "inner"])
                if parent is None and rooted:
                    a += ' root="true"'
                m = meta(0.1)
                nodes.append('      <node%s>%s%s      </node>%s' % (a, nl, m, nl) if m else '      <node%s/>%s' % (a, nl))
                if parent is not None:
                    ea = ' id="%s" source="%s" target="%s"' % (nid("e"), parent, me)
                    if lenmode == "all" or (lenmode == "some" and rng.random() < 0.5):
                        ea += ' length="%s"' % (rng.randint(0, 9) if ttype == "nex:IntTree" else rng.choice(["0.5", "1.25", "1e-2", "3", "0.0"]))
                    if hostile and rng.random() < 0.05:
                        ea += ' label="edge label"'
                    m2 = meta(0.05)
                    edges.append('      <edge%s>%s%s      </edge>%s' % (ea, nl, m2, nl) if m2 else '      <edge%s/>%s' % (ea, nl))
                for c in n[3]:
                    walk(c, me)
                return me
            root_id = walk(spec, None)
            if hostile and rng.random() < 0.3:
                rng.shuffle(nodes)
                feats.add("nodes-shuffled")
            s += "".join(nodes)
            if rng.random() < 0.3:
                s += '      <rootedge id="%s" target="%s"%s/>%s' % (nid("re"), root_id, ' length="0.5"' if ttype != "nex:IntTree" and rng.random() < 0.5 else "", nl)
                feats.add("rootedge")
            s += "".join(edges)
            s += "    </tree>" + nl
            if hostile and rng.random() < 0.1:
                s += "    <!-- an xml comment -->" + nl
        s += "  </trees>" + nl
        out.append(s)
        blocks.append(n_trees)
    out.append("</nex:nexml>" + nl)
    if n_blocks > 1:
        feats.add("multi-trees-element")
    if "<meta" in "".join(out):
        feats.add("meta")
    return {"schema": "nexml", "text": "".join(out), "blocks": blocks, "features": sorted(feats), "matrices": []}


def nexml_chars_doc(rng, hostile=True, nl="\n"):
    """hand-written NeXML with <characters> elements (nothing here comes from the library's writer): StandardCells
    with TWO <states> sets whose columns alternate, polymorphic and uncertain state sets, cells in any order;
    DnaSeqs / DnaCells over the fixed alphabet (ambiguity codes as uncertain sets); ContinuousSeqs / ContinuousCells;
    <meta> on the characters element, on <char> and on <row>; one or two <otus>; <trees> before or after."""
    ids = [0]

    def nid(p):
        ids[0] += 1
        return "%s%d" % (p, ids[0])

    def meta(p, indent="      "):
        if hostile and rng.random() < p:
            return "".join(indent + rng.choice(META) % nid("m") + nl for _ in range(rng.randint(1, 2)))
        return ""
    feats = set(["chars-hand-written"])
    out = ['<?xml version="1.0" encoding="UTF-8"?>' + nl,
           '<nex:nexml version="0.9" xmlns="http://www.nexml.org/2009" xmlns:nex="http://www.nexml.org/2009" '
           'xmlns:xsi="http://www.w3.org/2001/XMLSchema-instance" xmlns:xsd="http://www.w3.org/2001/XMLSchema#" '
           'xmlns:dc="http://purl.org/dc/elements/1.1/" xmlns:dendropy="http://pypi.org/project/DendroPy/">' + nl]
    otus = []
    for b in range(rng.choice([1, 1, 2]) if hostile else 1):
        oid = nid("otus")
        n = rng.choice([2, 3, 4, 5])
        members = []
        s = '  <otus id="%s">%s' % (oid, nl)
        for i in range(n):
            tid = nid("t")
            s += '    <otu id="%s" label="%s"/>%s' % (tid, rng.choice(["tx%d", "Gen sp%d", "Gen_sp%d"]) % i if hostile else "tx%d" % i, nl)
            members.append(tid)
        s += "  </otus>" + nl
        out.append(s)
        otus.append((oid, members))
    if len(otus) > 1:
        feats.add("multi-otus")
    body = []
    matrices = []

    def characters():
        oid, members = rng.choice(otus)
        kind = rng.choice(["standard-cells", "standard-cells", "dna-seqs", "dna-cells", "continuous-seqs", "continuous-cells"])
        feats.add("chars-" + kind)
        nchar = rng.randint(2, 6)
        xtype = {"standard-cells": "StandardCells", "dna-seqs": "DnaSeqs", "dna-cells": "DnaCells",
                 "continuous-seqs": "ContinuousSeqs", "continuous-cells": "ContinuousCells"}[kind]
        lab = rng.choice(["", ' label="matrix %d"' % len(matrices)])
        s = '  <characters id="%s" otus="%s"%s xsi:type="nex:%s">%s' % (nid("cb"), oid, lab, xtype, nl)
        s += meta(0.3, "    ")
        s += "    <format>" + nl
        sets = []         # [(states id, {symbol: state id})]
        if kind == "standard-cells":
            for k in range(rng.choice([1, 2, 2])):
                sid = nid("S")
                sym = {}
                s += '      <states id="%s">%s' % (sid, nl)
                basics = "012"[:rng.choice([2, 3])] if k == 0 else "01"
                for ch in basics:
                    sym[ch] = nid("s")
                    s += '        <state id="%s" symbol="%s"/>%s' % (sym[ch], ch, nl)
                if rng.random() < 0.7:
                    sym["P"] = nid("s")
                    s += '        <polymorphic_state_set id="%s" symbol="P">%s' % (sym["P"], nl)
                    for ch in basics[:2]:
                        s += '          <member state="%s"/>%s' % (sym[ch], nl)
                    s += "        </polymorphic_state_set>" + nl
                if rng.random() < 0.7:
                    sym["?"] = nid("s")
                    s += '        <uncertain_state_set id="%s" symbol="?">%s' % (sym["?"], nl)
                    for ch in basics:
                        s += '          <member state="%s"/>%s' % (sym[ch], nl)
                    s += "        </uncertain_state_set>" + nl
                s += "      </states>" + nl
                sets.append((sid, sym))
            if len(sets) > 1:
                feats.add("two-state-sets")
        elif kind.startswith("dna"):
            sid = nid("S")
            sym = {}
            s += '      <states id="%s">%s' % (sid, nl)
            for ch in "ACGT":
                sym[ch] = nid("s")
                s += '        <state id="%s" symbol="%s"/>%s' % (sym[ch], ch, nl)
            for ch, mem in (("R", "AG"), ("N", "ACGT")):
                sym[ch] = nid("s")
                s += '        <uncertain_state_set id="%s" symbol="%s">%s' % (sym[ch], ch, nl)
                for m in mem:
                    s += '          <member state="%s"/>%s' % (sym[m], nl)
                s += "        </uncertain_state_set>" + nl
            s += "      </states>" + nl
            sets.append((sid, sym))
        cols = []
        for j in range(nchar):
            cid = nid("c")
            which = sets[j % len(sets)] if sets else None
            a = ' id="%s"' % cid
            if which is not None and (kind == "standard-cells" or rng.random() < 0.7):
                a += ' states="%s"' % which[0]
            m = meta(0.15, "        ")
            s += ('      <char%s>%s%s      </char>%s' % (a, nl, m, nl)) if m else ('      <char%s/>%s' % (a, nl))
            cols.append((cid, which))
        s += "    </format>" + nl + "    <matrix>" + nl
        for tid in members:
            s += '      <row id="%s" otu="%s">%s' % (nid("r"), tid, nl)
            s += meta(0.15, "        ")
            if kind == "continuous-seqs":
                s += "        <seq>%s</seq>%s" % (" ".join(rng.choice(["0.5", "1e-3", "-1", "2", "4.25"]) for _ in cols), nl)
            elif kind == "dna-seqs":
                s += "        <seq>%s</seq>%s" % ("".join(rng.choice("ACGTACGTRN") for _ in cols), nl)
            else:
                cells = []
                for cid, which in cols:
                    if kind == "continuous-cells":
                        st = rng.choice(["0.5", "1e-3", "-1", "2", "4.25"])
                    else:
                        st = which[1][rng.choice(sorted(which[1]))]
                    cells.append('        <cell char="%s" state="%s"/>%s' % (cid, st, nl))
                if hostile and rng.random() < 0.3:
                    rng.shuffle(cells)
                    feats.add("cells-shuffled")
                s += "".join(cells)
            s += "      </row>" + nl
        s += "    </matrix>" + nl + "  </characters>" + nl
        matrices.append("standard" if kind.startswith("standard") else "dna" if kind.startswith("dna") else "continuous")
        return s
    blocks = []

    def trees():
        oid, members = rng.choice(otus)
        s = '  <trees id="%s" otus="%s">%s' % (nid("trees"), oid, nl)
        n_trees = rng.choice([1, 2])
        for t in range(n_trees):
            k = rng.randint(1, len(members))
            spec = gen.random_spec(rng, k, p_poly=0.25, names=rng.sample(members, k))
            s += '    <tree id="%s" label="t%d" xsi:type="nex:FloatTree">%s' % (nid("tree"), t, nl)
            nodes, edges = [], []

            def walk(n, parent):
                me = nid("n")
                nodes.append('      <node id="%s"%s/>%s' % (me, ' otu="%s"' % n[0] if not n[3] else "", nl))
                if parent is not None:
                    edges.append('      <edge id="%s" source="%s" target="%s" length="%s"/>%s'
                                 % (nid("e"), parent, me, rng.choice(["0.5", "1.25", "3"]), nl))
                for c in n[3]:
                    walk(c, me)
            walk(spec, None)
            s += "".join(nodes) + "".join(edges) + "    </tree>" + nl
        s += "  </trees>" + nl
        blocks.append(n_trees)
        return s
    plan = ["chars"] * rng.choice([1, 1, 2]) + ["trees"] * rng.choice([0, 1, 1, 2])
    if hostile:
        rng.shuffle(plan)
    for what in plan:
        body.append(characters() if what == "chars" else trees())
    out.extend(body)
    out.append("</nex:nexml>" + nl)
    return {"schema": "nexml", "text": "".join(out), "blocks": blocks, "features": sorted(feats), "matrices": matrices}


# ----------------------------------------------------------------------------------------
# canonical records
def ann_record(a, depth=0):
    v = a._value if hasattr(a, "_value") else None
    if getattr(a, "is_attribute", False):
        try:
            v = ("attr", v[1])
        except Exception:
            v = "attr?"
    sub = ()
    if depth < 3 and getattr(a, "_annotations", None):
        sub = tuple(sorted(ann_record(x, depth + 1) for x in a._annotations))
    return (str(a.name), repr(v), str(a.datatype_hint), str(a.name_prefix), str(a.namespace), bool(a.annotate_as_reference), sub)


def anns(obj):
    s = getattr(obj, "_annotations", None)
    if not s:
        return ()
    return tuple(sorted(ann_record(a) for a in s))


def comments(obj):
    c = getattr(obj, "_comments", None)
    if c is None:
        c = getattr(obj, "comments", None)
    return tuple(c) if c else ()


CLAUSES = ("shape", "taxon-labels", "node-labels", "lengths", "rooting", "weight", "tree-label", "comments",
           "annotations", "node-comments", "node-annotations", "edge-labels", "edge-annotations", "edge-numbers")


def tree_record(tree):
    """what one delivered tree looks like, read from the raw fields; keeps references to the
    Taxon objects (identity is compared while every route's objects are still alive)."""
    spec, pairs = bridge.extract(tree, with_nodes=True)
    nodes = [nd for s, nd in pairs]
    specs = [s for s, nd in pairs]
    rec = {
        "shape": tuple(len(s[3]) for s in specs),
        "taxon-labels": tuple(s[0] for s in specs),
        "node-labels": tuple(s[1] for s in specs),
        "lengths": tuple(repr(s[2]) for s in specs),
        "rooting": tree._is_rooted,
        "weight": repr(tree.weight),
        "tree-label": tree.label,
        "comments": comments(tree),
        "annotations": anns(tree),
        "node-comments": tuple(comments(nd) for nd in nodes),
        "node-annotations": tuple(anns(nd) for nd in nodes),
        "edge-labels": tuple(getattr(nd._edge, "_label", None) if nd._edge is not None else None for nd in nodes),
        "edge-annotations": tuple(anns(nd._edge) if nd._edge is not None else () for nd in nodes),
        "edge-numbers": tuple(getattr(nd._edge, "edge_number", None) if nd._edge is not None else None for nd in nodes),
        "_taxa": [getattr(nd, "taxon", None) for nd in nodes],
        "_ns": tree.taxon_namespace,
        "_spec": spec,
        "_weight": tree.weight,
    }
    return rec


def public(rec):
    return dict((k, v) for k, v in rec.items() if not k.startswith("_"))


def first_difference(a, b):
    """name of the first clause on which two tree records differ, or None"""
    for c in CLAUSES:
        if a[c] != b[c]:
            return c
    return None


def describe(rec, clause):
    v = rec[clause]
    s = repr(v)
    return s if len(s) < 400 else s[:400] + "..."


def matrix_record(cm):
    rows = []
    alphabets = list(getattr(cm, "state_alphabets", None) or [])

    def alphabet_no(ct):
        """which of the matrix's state alphabets a column (character type) uses: position by identity"""
        if ct is None:
            return None
        sa = getattr(ct, "_state_alphabet", None)
        for k, x in enumerate(alphabets):
            if x is sa:
                return (k, getattr(ct, "label", None))
        return ("none" if sa is None else "foreign", getattr(ct, "label", None))
    for tx in cm:
        seq = cm[tx]
        if cm.data_type == "continuous":
            vals = tuple(repr(v) for v in seq.values())
        else:
            vals = tuple((s.symbol, s.state_denomination, tuple(sorted(s.fundamental_symbols))) for s in seq.values())
        coltypes = tuple(alphabet_no(ct) for ct in getattr(seq, "_character_types", ()))
        cellanns = tuple((tuple(sorted(ann_record(a) for a in x)) if x else ()) for x in getattr(seq, "_character_annotations", ()))
        rows.append((tx.label, vals, comments(seq), anns(seq), tx, coltypes, cellanns))
    # iteration follows the ORDER OF THE NAMESPACE (which legitimately depends on what else a route parsed before the
    # matrix); the matrix itself is a mapping taxon -> sequence, so rows are compared sorted by label
    rows.sort(key=lambda r: (str(r[0]), repr(r[1])))
    subsets = tuple(sorted((k, tuple(v.character_indices)) for k, v in cm.character_subsets.items()))
    alph = ()
    if cm.data_type != "continuous":
        alph = tuple(tuple((s.symbol, s.state_denomination) for s in sa) for sa in cm.state_alphabets)
    return {"class": type(cm).__name__, "data-type": cm.data_type, "matrix-label": cm.label,
            "row-taxa": tuple(r[0] for r in rows), "cells": tuple(r[1] for r in rows),
            "row-comments": tuple(r[2] for r in rows), "row-annotations": tuple(r[3] for r in rows),
            "character-subsets": subsets, "state-alphabets": alph,
            "column-alphabets": tuple(r[5] for r in rows), "cell-annotations": tuple(r[6] for r in rows),
            "character-types": tuple((alphabet_no(ct), anns(ct)) for ct in (getattr(cm, "character_types", None) or ())),
            "comments": comments(cm), "annotations": anns(cm),
            "_taxa": [r[4] for r in rows], "_ns": cm.taxon_namespace}


MATRIX_CLAUSES = ("class", "data-type", "matrix-label", "row-taxa", "cells", "state-alphabets", "character-subsets",
                  "column-alphabets", "character-types", "cell-annotations", "row-comments", "row-annotations", "comments", "annotations")


def matrix_difference(a, b):
    for c in MATRIX_CLAUSES:
        if a[c] != b[c]:
            return c
    return None


# ----------------------------------------------------------------------------------------
# reference split/length summary of a tree record (for the TreeArray route)
def usable_for_array(rec):
    spec = rec["_spec"]
    lv = ref.leaves(spec)
    labs = [n[0] for n in lv]
    if len(lv) < 3 or None in labs or len(set(labs)) != len(labs):
        return False
    for n in ref.preorder(spec):
        if len(n[3]) == 1:
            return False
        if n[3] and n[0] is not None:
            return False
    return True


def expected_split_lengths(rec, rooted):
    spec = ref.copy(rec["_spec"])
    sl, missing = ref.split_lengths(spec, rooted)
    return sl


def close(a, b):
    if a == b:
        return True
    try:
        return abs(a - b) <= 1e-9 * max(1.0, abs(a), abs(b))
    except TypeError:
        return False
