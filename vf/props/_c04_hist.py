"""Private helpers of the C04 check, history side:

  * TreeStates   what the harness knows about the bipartition data a live tree carries (never encoded / encoded with
                 default flags and structurally untouched since / encoded otherwise / structurally edited since), so
                 that a call with is_bipartitions_updated=True is judged exactly when the caller's side of the contract
                 ("bipartitions are correct for the current structure, or there are none") is met;
  * further harness edits (missing length, root-edge length, swapped leaf taxa) and edits made through the LIBRARY'S OWN
    structural methods (reseed_at, reroot_at_edge, to_outgroup_position, suppress_unifurcations, collapse_unweighted_edges,
    resolve_polytomies, prune_taxa, clone).  None of them is under test here: the reference re-reads the live structure
    before every distance call;
  * a second construction route (Newick text through the library's parser), accepted only when the parsed tree has
    exactly the structure of the spec;
  * drawings of the one-leaf tree; which splits of a spec lack a length (discriminator of the known asymmetry)."""
import inspect
import math

from .. import ref, bridge
from . import _c04_util as U


# ------------------------------------------------------------------------------------------
# what is cached on a tree
def trusted(state):
    """may the caller legitimately say is_bipartitions_updated=True?"""
    return state in ("fresh", "nostore") or state.startswith("clean:")


class TreeStates(object):
    """state of a live tree:
         fresh          built by the harness, Tree.encode_bipartitions never ran on it (no cached data at all)
         nostore        last encode ran with suppress_storage=True and default flags otherwise (bipartition_encoding is
                        None: the distance functions encode such a tree themselves), no structural edit since
         clean:<how>    last encode ran with default flags (explicitly, inside a distance call that returned, or inside a
                        library method asked to update the bipartitions), no structural edit since
         keep-unary     last encode ran with suppress_unifurcations=False only (valid bipartitions, but unifurcations kept)
         other          last encode ran with other non-default flags
         dirty          structurally edited after an encode (stale by contract)
         copy           copy of a tree that had been encoded
         unknown        an unexpected exception escaped from an encode or a distance call
         untracked      not registered by the harness"""

    def __init__(self):
        self._d = {}
        self.depth = 0           # > 0 while a hooked distance function runs
        self.encodes = 0         # successful Tree.encode_bipartitions calls seen outside distance functions
        self._in_call = {}       # id(tree) -> (tree, kind of the last encode seen inside the running distance function)
        self._sig = None

    def get(self, tree):
        e = self._d.get(id(tree))
        return e[1] if e is not None and e[0] is tree else "untracked"

    def set(self, tree, state):
        self._d[id(tree)] = (tree, state)

    def track(self, tree):
        """register a tree the harness has just built (an encode seen while it was being built keeps its say)"""
        if self.get(tree) == "untracked":
            self.set(tree, "fresh")
        return tree

    def structural_edit(self, tree):
        s = self.get(tree)
        if s in ("fresh", "untracked", "unknown", "copy"):
            return
        self.set(tree, "dirty")

    # -- hook on Tree.encode_bipartitions (every call, also nested ones) ---------------------------------------------
    def install(self, hooks):
        import dendropy
        self._sig = inspect.signature(inspect.getattr_static(dendropy.Tree, "encode_bipartitions"))
        hooks.install(dendropy.Tree, "encode_bipartitions", pre=self._enc_pre, post=self._enc_post,
                      tag="Tree.encode_bipartitions", outermost_only=False)

    def _enc_pre(self, obj, args, kw):
        try:
            a = self._sig.bind(obj, *args, **kw)
            a.apply_defaults()
            a = a.arguments
        except TypeError:
            return "other"
        su, cb = bool(a["suppress_unifurcations"]), bool(a["collapse_unrooted_basal_bifurcation"])
        ss, mu = bool(a["suppress_storage"]), bool(a["is_bipartitions_mutable"])
        if mu or not (cb or bool(getattr(obj, "_is_rooted", None))):     # a rooted tree has no basal bifurcation to collapse
            return "other"
        if su:
            return "nostore" if ss else "clean:encode"
        return "other" if ss else "keep-unary"

    def _enc_post(self, kind, obj, args, kw, result, exc):
        if exc is not None:
            kind = "unknown"
        if self.depth > 0:
            self._in_call[id(obj)] = (obj, kind)     # the distance hook decides what the call left behind
            return
        if exc is None:
            self.encodes += 1
        self.set(obj, kind)

    # -- a hooked distance call finished ----------------------------------------------------------------------------------
    def after_call(self, t1, t2, updated, outcome):
        """outcome: returned | refused | raised"""
        for t in (t1, t2):
            e = self._in_call.get(id(t))
            seen = e[1] if e is not None and e[0] is t else None      # how the function encoded the tree, if it did
            if outcome == "raised":
                self.set(t, "unknown")
            elif outcome == "returned" and not updated:
                self.set(t, "clean:call")          # documented: both trees are re-encoded (default flags)
            elif seen is not None:
                # a refused call, or a flagged call on a tree that carried nothing: what was observed counts
                self.set(t, "clean:call" if seen == "clean:encode" else seen)
        if self.depth == 0:
            self._in_call.clear()


# ------------------------------------------------------------------------------------------
# further edits through the node API
def edit_length_none(tree, rng):
    nodes = U.live_nodes(tree)
    if len(nodes) < 2:
        return None
    rng.choice(nodes[1:]).edge.length = None
    return "length-none"


def edit_root_length(tree, rng):
    tree._seed_node.edge.length = rng.choice([None, U._newlen(rng), U._newlen(rng)])
    return "root-length"


def edit_swap_taxa(tree, rng):
    lv = [nd for nd in U.live_nodes(tree) if not nd._child_nodes and nd.taxon is not None]
    if len(lv) < 2:
        return None
    a, b = rng.sample(lv, 2)
    a.taxon, b.taxon = b.taxon, a.taxon
    return "swap-taxa"


MORE_EDITS = {"length-none": (edit_length_none, False), "root-length": (edit_root_length, False),
              "swap-taxa": (edit_swap_taxa, True)}           # name -> (function, is structural)


# ------------------------------------------------------------------------------------------
# edits through the library's own methods; -> label or None (not applicable)
def _split_len(ln):
    if ln is None:
        return None, None
    a = math.floor(ln * 4) / 8.0
    return a, ln - a


def lib_reseed_at(tree, rng, ub):
    cands = [nd for nd in U.live_nodes(tree)[1:] if nd._child_nodes]
    if not cands:
        return None
    tree.reseed_at(rng.choice(cands), update_bipartitions=ub)
    return "reseed_at"


def lib_to_outgroup_position(tree, rng, ub):
    nodes = U.live_nodes(tree)
    if len(nodes) < 3:
        return None
    tree.to_outgroup_position(rng.choice(nodes[1:]), update_bipartitions=ub)
    return "to_outgroup_position"


def lib_reroot_at_edge(tree, rng, ub):
    nodes = U.live_nodes(tree)
    if len(nodes) < 3:
        return None
    e = rng.choice(nodes[1:]).edge
    a, b = _split_len(e.length)
    tree.reroot_at_edge(e, length1=a, length2=b, update_bipartitions=ub)
    return "reroot_at_edge"


def lib_suppress_unifurcations(tree, rng, ub):
    tree.suppress_unifurcations(update_bipartitions=ub)
    return "suppress_unifurcations"


def lib_collapse_unweighted_edges(tree, rng, ub):
    tree.collapse_unweighted_edges(update_bipartitions=ub)
    return "collapse_unweighted_edges"


def lib_resolve_polytomies(tree, rng, ub):
    tree.resolve_polytomies(update_bipartitions=ub, rng=rng if rng.random() < 0.5 else None)
    return "resolve_polytomies"


LIB_EDITS = {"reseed_at": lib_reseed_at, "to_outgroup_position": lib_to_outgroup_position,
             "reroot_at_edge": lib_reroot_at_edge, "suppress_unifurcations": lib_suppress_unifurcations,
             "collapse_unweighted_edges": lib_collapse_unweighted_edges, "resolve_polytomies": lib_resolve_polytomies}


def lib_copy(tree, rng):
    """copy over the SAME namespace"""
    import dendropy
    if rng.random() < 0.5:
        return tree.clone(1), "clone"
    return dendropy.Tree(tree), "Tree(tree)"


def leaf_labels(tree):
    return sorted(nd.taxon.label for nd in U.live_nodes(tree) if not nd._child_nodes and nd.taxon is not None)


def inside_quantifier(tree, labels):
    """the journal keeps all its trees on one leaf set, every leaf with its own taxon"""
    try:
        sp = bridge.extract(tree)
    except bridge.ExtractError:
        return False
    return U.judgeable(sp) and sorted(ref.leaf_taxa(sp)) == sorted(labels)


# ------------------------------------------------------------------------------------------
# second construction route: the library's Newick parser
def newick(spec):
    def f(n):
        t = ("(" + ",".join(f(c) for c in n[3]) + ")") if n[3] else ""
        if n[0] is not None:
            t += str(n[0])
        if n[2] is not None:
            t += ":" + repr(n[2])
        return t
    return f(spec) + ";"


def parse_tree(spec, ns, rooted):
    """Tree parsed from Newick text, or None when the parser did not build exactly the spec (then the caller uses the
    node API; the parser is not under test here)"""
    import dendropy
    for n in ref.preorder(spec):
        if n[1] is not None or (n[0] is not None and not str(n[0]).isalnum()) or (n[0] is not None and n[3]):
            return None
    rooting = {True: "force-rooted", False: "force-unrooted"}.get(rooted)
    kw = {"rooting": rooting} if rooting else {}
    before = len(ns)
    try:
        tree = dendropy.Tree.get(data=newick(spec), schema="newick", taxon_namespace=ns,
                                 suppress_internal_node_taxa=True, **kw)
    except Exception:
        return None
    try:
        got = bridge.extract(tree)
    except bridge.ExtractError:
        return None
    if len(ns) != before or ref.ordered(got, labels=False) != ref.ordered(spec, labels=False):
        return None
    if rooted is None:
        tree.is_rooted = None
    elif bool(tree._is_rooted) != bool(rooted):
        return None
    return tree


# ------------------------------------------------------------------------------------------
# the one-leaf tree
def single_leaf_drawings(name, total, rng):
    """specs of the tree with one leaf whose only split {leaf | nothing} carries ``total`` (None: no length anywhere):
    the bare leaf, a unary seed above it, a unary chain"""
    S = ref.S
    if total is None:
        return [S(name), S(None, [S(name)]), S(None, [S(None, [S(name)])])]
    if isinstance(total, int):
        a = total // 2
        c = (total - a) // 2
    else:
        a = math.floor(total * 4) / 8.0
        c = math.floor((total - a) * 4) / 8.0
    b = total - a
    return [S(name, length=total),
            S(None, [S(name, length=total)]),
            S(None, [S(name, length=b)], length=a),
            S(None, [S(None, [S(name, length=c)], length=b - c)], length=a)]


# ------------------------------------------------------------------------------------------
def none_splits(spec, rooted):
    """(splits some inducing non-root edge of which lacks a length, splits all inducing non-root edges of which lack it);
    edges inducing the split of the root edge are left out (the root edge may lack a length)"""
    cl = ref.clades(spec)
    full = cl[-1][1]
    rootsplit = full if rooted else ref.usplit(full, full)
    tot, non = {}, {}
    for n, c in cl:
        if n is spec:
            continue
        k = c if rooted else ref.usplit(c, full)
        if k == rootsplit:
            continue
        tot[k] = tot.get(k, 0) + 1
        if n[2] is None:
            non[k] = non.get(k, 0) + 1
    return frozenset(non), frozenset(k for k in non if non[k] == tot[k])


def one_edge_per_split(spec, rooted):
    """no unifurcation and, when unrooted, no basal bifurcation: every split is induced by exactly one edge"""
    for n in ref.preorder(spec):
        if len(n[3]) == 1:
            return False
    return rooted or len(spec[3]) != 2
