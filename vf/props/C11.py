"""C11  Collections keep every member inside their own taxon namespace.

Method: runtime monitoring.  Every case is an operation history executed on REAL TreeList /
TreeArray / CharacterMatrix / DataSet objects that live together in one "world" (several
namespaces, case-sensitive and not, with overlapping / disjoint / case-variant label sets; trees
and matrices built under foreign namespaces through the node API).  vf.mon.hooks wraps the real
container methods; the pre-hook snapshots the whole world from raw fields, the post-hook judges
-- after EVERY hooked call, returned or raised:

  closure     every tree of every list: ``tree.taxon_namespace is list.taxon_namespace`` and every
              node taxon is a member (id-set) of that namespace; every sequence key of every matrix
              is a member of the matrix's namespace; every component of a data set in attached
              mode refers to the attached object, which is listed in ``taxon_namespaces``; a
              TreeArray and its split distribution share the namespace and every stored leaf-set
              bitmask consists of bits of members whose labels are the accessioned labels; every
              tree that left a list (pop/remove/del/overwritten) has all its taxa in its own namespace
  frame       trees / lists / matrices that were not part of the call are unchanged by identity;
              no namespace loses or relabels a member
  provenance  (normal return) lists hold exactly the expected members (same objects, or copies
              paired node by node with their source); every item keeps its label up to the target
              namespace's case rule; "migrate"/unification/reads: equal labels -> one taxon object,
              a label that already had a member re-uses a member, no second taxon for a label
              appears in the namespace; "add" / update / same-namespace: the taxon object is kept;
              unify_taxa_by_label=False: old->new taxon is a bijection; a pre-seeded
              taxon_mapping_memo wins; matrices keep every sequence; reads deliver the source's
              number of trees/rows with the source's label multisets
  refusal     TaxonNamespaceReconstructionError is legitimate only if two rows have equal labels under
              the target's case rule (predicted from labels); other exceptions only from the
              documented set of the call

Soundness limits: a Tree object is never put into two lists of different namespaces and lists of an
attached data set never get namespace-changing calls (API misuse, not a defect); data sets are
attached / unified before foreign material arrives and only same-namespace objects are ``add``-ed;
strategy "add", update_taxon_namespace, Taxon keys of from_dict and unify_taxa_by_label=False may
create equal labels on distinct taxa by design (those items are only required to keep their taxon /
stay distinct); reader case sensitivity is always set to the namespace's; labels are letters only
(no numeric tokens, quoting or underscores: C02/C10 ground); a NEXUS TAXA block read into a
non-empty list may be refused (TooManyTaxaError: recorded); the order of new members in a namespace
and which of several equal-labelled members is re-used are not judged; TreeArray.migrate (not
implemented by the library) is not exercised; rows that collapse when a matrix is *copied* into a
namespace where their labels are equal are recorded, not judged.

Violation keys are ``<hooked method>|<clause>[-after-raise]|<discriminator>``; for a state left behind by a
refusal the discriminator is ``<exception class>@<innermost library function>``.  Directed scripts (DIRECTED,
run first) hold the smallest witness of every key seen on the pinned tree: NeXML sources read into a populated
namespace create second taxa for known labels (``TreeList.read|get|existing-taxon-duplicated|nexml``);
CharacterMatrix.reconstruct_taxon_namespace mistakes a taxon that maps to itself for a second sequence
(``*|spurious-refusal|row-taxon-already-member``) and, like DataSet.unify_taxon_namespaces, is not atomic when
it refuses (``*-after-raise|TaxonNamespaceReconstructionError@CharacterMatrix.reconstruct_taxon_namespace``)."""
import random

from .. import ref, gen, bridge, core
from ..mon.hooks import Hooks
from ..mon.budget import budget, StepBudgetExceeded
from . import _c11_util as U
from ._c11_util import Expect

PROP = "C11"
LEVEL = "exploration"
TECHNIQUE = ("runtime monitoring: hooks on the container methods + closure / frame / provenance oracles over "
             "snapshots of all live containers after every operation of random and directed histories")
RULE = ("case = one operation history (directed witness scripts first, then random histories of 10-40 operations) on a world of "
        "2-4 namespaces (case-sensitive or not) x tree lists / matrices / data sets / tree arrays; operations draw trees and rows "
        "built under foreign namespaces with overlapping, disjoint and case-variant labels, both taxon_import_strategy values, "
        "unify_taxa_by_label in {True, False}, Newick / NEXUS / NeXML / FASTA texts read into existing containers. "
        "non-trivial/distinct = distinct (operation, import mode, case rule of target, label-overlap class) of an operation that moved "
        "at least one item across namespaces")
REACH = ["treecollectionmodel:TreeList._import_tree_to_taxon_namespace", "treecollectionmodel:TreeList.insert",
         "treecollectionmodel:TreeList.append", "treecollectionmodel:TreeList.extend", "treecollectionmodel:TreeList.__setitem__",
         "treecollectionmodel:TreeList.__add__", "treecollectionmodel:TreeList.__iadd__", "treecollectionmodel:TreeList.new_tree",
         "treecollectionmodel:TreeList._parse_and_add_from_stream", "treecollectionmodel:TreeList._parse_and_create_from_stream",
         "treecollectionmodel:TreeList.reconstruct_taxon_namespace", "treecollectionmodel:TreeList.update_taxon_namespace",
         "treecollectionmodel:TreeList._clone_from", "treecollectionmodel:TreeArray.add_tree", "treecollectionmodel:TreeArray.read_from_files",
         "taxonmodel:TaxonNamespaceAssociated.migrate_taxon_namespace", "_tree:Tree.reconstruct_taxon_namespace",
         "_tree:Tree.update_taxon_namespace", "_tree:Tree._clone_from",
         "charmatrixmodel:CharacterMatrix.reconstruct_taxon_namespace", "charmatrixmodel:CharacterMatrix.update_taxon_namespace",
         "charmatrixmodel:CharacterMatrix.new_sequence", "charmatrixmodel:CharacterMatrix.__setitem__",
         "charmatrixmodel:CharacterMatrix.from_dict", "charmatrixmodel:CharacterMatrix._clone_from",
         "datasetmodel:DataSet.unify_taxon_namespaces", "datasetmodel:DataSet._parse_and_add_from_stream",
         "datasetmodel:DataSet._parse_and_create_from_stream", "datasetmodel:DataSet.new_tree_list", "datasetmodel:DataSet.new_char_matrix",
         "datasetmodel:DataSet.attach_taxon_namespace", "ioservice:DataReader.read_dataset", "ioservice:DataReader.read_tree_lists"]
MIN_EVENTS = {"op-applied": (30000, 250000), "closure:list-judged": (100000, 800000), "closure:matrix-judged": (40000, 300000),
              "closure:dataset-judged": (15000, 120000), "closure:array-judged": (10000, 80000),
              "closure:removed-tree-judged": (20000, 160000), "frame:tree-judged": (250000, 2000000),
              "item:unify-judged": (70000, 500000), "item:same-judged": (30000, 240000), "item:add-judged": (9000, 70000),
              "item:distinct-judged": (5000, 40000), "item:memo-judged": (100, 800), "read-judged": (4000, 30000), "read-into-given-namespace-judged": (300, 2400),
              "unify-judged": (300, 2400), "list-content-judged": (20000, 160000), "matrix-rows-judged": (3000, 24000),
              "documented-error-seen": (1000, 8000), "history-completed": (1000, 8000),
              "hook:TreeList.append:return": (3000, 24000), "hook:TreeList.insert:return": (1500, 12000),
              "hook:TreeList.extend:return": (1000, 8000), "hook:TreeList.__iadd__:return": (1000, 8000),
              "hook:TreeList.__add__:return": (1000, 8000), "hook:TreeList.__setitem__:return": (2000, 16000),
              "hook:TreeList.read:return": (1500, 12000), "hook:TreeList.get:return": (700, 5000),
              "hook:TreeList.new_tree:return": (500, 4000), "hook:TreeList.pop:return": (300, 2400),
              "hook:TreeList.migrate_taxon_namespace:return": (1000, 8000),
              "hook:TreeList.reconstruct_taxon_namespace:return": (700, 5000),
              "hook:TreeList.update_taxon_namespace:return": (700, 5000),
              "hook:TreeArray.add_tree:return": (200, 1600), "hook:TreeArray.read:return": (200, 1600),
              "hook:CharacterMatrix.migrate_taxon_namespace:return": (200, 1600),
              "hook:CharacterMatrix.__setitem__:return": (400, 3000), "hook:CharacterMatrix.from_dict:return": (800, 6000),
              "hook:DataSet.read:return": (1000, 8000), "hook:DataSet.new_tree_list:return": (600, 5000),
              "hook:DataSet.new_char_matrix:return": (600, 5000), "hook:DataSet.unify_taxon_namespaces:return": (300, 2400)}
ASSUMPTIONS = ["TaxonNamespace membership/iteration and taxon_bitmask are taken as given (their own consistency is C10)",
               "the case rule of a namespace is: exact comparison if is_case_sensitive else comparison of str.lower()",
               "snapshots read raw fields (_seed_node, _child_nodes, node.taxon, _trees, _taxon_sequence_map, _tree_leafset_bitmasks)"]
LEVEL_TEXT = ("Runtime monitors (hooks on the real container methods; closure / frame / provenance oracles over raw-field snapshots of "
              "every live container) observe the real library under generated operation histories; the property held on the executions "
              "listed in the evidence file, nothing more.")
LEVEL_NOTE = ("Trusted: the snapshot and oracle code in vf/props/_c11_util.py, TaxonNamespace iteration/membership and taxon_bitmask "
              "(their consistency is C10), CPython; histories are sampled, coverage is what the workload reached (see evidence).")
CASE_TIMEOUT = 120
STEP_LIMIT = 3000000


class Stop(Exception):
    """the history cannot go on (a violation was reported or the world is unusable)."""


def pick(d, key, fn):
    if key not in d:
        d[key] = fn()
    return d[key]


class Driver(object):
    """executes operation descriptors (JSON-able dicts; fields that are missing are drawn from the rng and
    written back, so the logged history is complete) on the real objects and announces to the monitor
    what each hooked call is expected to do."""

    def __init__(self, ctx, rng, mon):
        self.ctx, self.rng, self.mon = ctx, rng, mon
        self.w = U.World()
        self.hist = []
        mon.world = self.w
        mon.history = self.hist
        self.uni = U.universe(rng)

    # ---- plumbing ----------------------------------------------------------------------------
    def call(self, E, fn):
        mon = self.mon
        mon.expect, mon.fired, mon.last_ok, mon.judge_error, mon.consistent = E, False, True, None, True
        self.ctx.ev("op-applied")
        self.ctx.ev("op:%s" % E.op)
        res = exc = None
        try:
            with budget(STEP_LIMIT):
                res = fn()
        except core.CaseTimeout:
            raise
        except StepBudgetExceeded as e:
            mon.expect = None
            mon.viol(E, "does-not-terminate", "exceeded the step budget at %s" % e.where, disc=e.where.rsplit(":", 1)[0])
            raise Stop()
        except Exception as e:
            exc = e
        if mon.judge_error is not None:
            raise mon.judge_error
        if not mon.fired:
            mon.expect = None
            if exc is not None:
                raise exc
            raise core.HarnessBug("hooked operation %s did not reach its hook" % E.op)
        if not mon.consistent:
            raise Stop()          # closure / frame broken or undocumented exception: later verdicts would only echo this one
        return res, exc

    def run(self, d):
        self.hist.append(d)
        getattr(self, "op_" + d["op"])(d)

    def NS(self, j):
        return self.w.namespaces[j]

    def fresh_ns(self, d):
        import dendropy
        ns = dendropy.TaxonNamespace(list(d.get("nslabels", [])), is_case_sensitive=bool(d.get("nscs", False)))
        return self.w.track_ns(ns)

    def build(self, td):
        """tree descriptor -> live free tree, built through the node API in its own namespace."""
        ns = self.fresh_ns(td) if td["ns"] == -1 else self.NS(td["ns"])
        by_label = {}
        for tx in ns:
            by_label.setdefault(tx.label, tx)
        if not ns.is_case_sensitive and td.setdefault("reuse", self.rng.random() < 0.75):
            # in a case-insensitive namespace a label is usually written onto the member it matches (as a user who
            # looks taxa up would do); otherwise a second member that differs in case only is created on purpose
            low = {}
            for tx in ns:
                low.setdefault(tx.label.lower(), tx)
            for lbl in list(td["labels"]) + list(td.get("itax", ())):
                if lbl not in by_label and lbl.lower() in low:
                    by_label[lbl] = low[lbl.lower()]
        t = bridge.build_tree(U.spec_of(td), ns, rooted=True, taxa_by_label=by_label)
        self.w.add_free(t)
        return t

    def rand_td(self, target_ns, same_p=0.3, **kw):
        rng, w = self.rng, self.w
        r = rng.random()
        others = [i for i, x in enumerate(w.namespaces) if x is not target_ns]
        if r < same_p and target_ns is not None:
            j = w.ns_index(target_ns)
        elif r < same_p + 0.45 and others:
            j = rng.choice(others)
        else:
            j = -1
        td = U.tree_desc(rng, self.uni, j, **kw)
        if j == -1:
            td["nscs"] = rng.random() < 0.3
            td["nslabels"] = rng.sample(self.uni, rng.randint(0, min(3, len(self.uni))))
        return td

    def tree_arg(self, d, target_ns, key="t", **kw):
        """a free tree: newly built, or (sometimes) one that was removed from a list earlier."""
        removed = [e[0] for e in self.w.free if e[1] == "removed"]
        if key not in d:
            if removed and self.rng.random() < 0.25:
                d[key] = {"removed": self.rng.randrange(len(removed))}
            else:
                d[key] = self.rand_td(target_ns, **kw)
        td = d[key]
        if "removed" in td:
            if not removed:
                raise Stop()
            return removed[td["removed"] % len(removed)]
        return self.build(td)

    @staticmethod
    def mode(t, ns, strategy="migrate", unify=True):
        if t.taxon_namespace is ns:
            return "same"
        if strategy == "add":
            return "add"
        return "unify" if unify else "distinct"

    def sig(self, op, mode, ns, labels):
        """distinct non-trivial operation classes (for the evidence)."""
        if mode == "same":
            return
        have = [t.label for t in ns] if ns is not None else []
        exact = set(have)
        low = set(x.lower() for x in have)
        cls = "disjoint"
        if any(x in exact for x in labels):
            cls = "overlap-exact"
        if any(x not in exact and x.lower() in low for x in labels):
            cls += "+case-variant"
        self.ctx.nontrivial((op, mode, bool(ns.is_case_sensitive) if ns is not None else None, cls))

    def labels_of(self, t):
        return [x[2] for x in U.walk(t) if x[2] is not None]

    def L(self, d):
        if not self.w.lists:
            raise Stop()
        return self.w.lists[pick(d, "l", lambda: self.rng.randrange(len(self.w.lists))) % len(self.w.lists)]

    def model(self, lst):
        return list(self.w.model[id(lst)])

    def objs(self, trees):
        return [("obj", t) for t in trees]

    def movable(self, lst):
        """namespace-changing calls are not made on components of a data set in attached mode."""
        return not self.w.in_attached_dataset(lst)

    def other_ns(self, d, cur, key="ns", same_p=0.1):
        def f():
            idx = [i for i, x in enumerate(self.w.namespaces) if x is not cur]
            if not idx or self.rng.random() < same_p:
                return self.w.ns_index(cur)
            return self.rng.choice(idx)
        return self.NS(pick(d, key, f) % len(self.w.namespaces))

    def trim(self):
        """keep the world small: forget the oldest free-standing lists."""
        w = self.w
        while len(w.lists) > 6:
            for lst in w.lists:
                if w.dataset_of(lst) is None:
                    w.forget_list(lst)
                    break
            else:
                break
        while len(w.free) > 8:
            w.free.pop(0)
        while len(w.mats) > 5:
            for m in w.mats:
                if w.dataset_of(m) is None:
                    w.mats = [x for x in w.mats if x is not m]
                    break
            else:
                break

    # ---- set-up operations ---------------------------------------------------------------------
    def op_mk_ns(self, d):
        import dendropy
        ns = dendropy.TaxonNamespace(list(d["labels"]), is_case_sensitive=bool(d["cs"]))
        self.w.track_ns(ns)

    def op_mk_list(self, d):
        import dendropy
        ns = self.NS(d["ns"])
        E = Expect("TreeList.__init__", "empty")
        E.newlist = ("self", [])
        self.call(E, lambda: dendropy.TreeList(taxon_namespace=ns))

    def op_mk_matrix(self, d):
        import dendropy
        m = dendropy.DnaCharacterMatrix(taxon_namespace=self.NS(d["ns"]))
        self.w.track_mat(m)

    def op_mk_dataset(self, d):
        import dendropy
        ds = dendropy.DataSet()
        self.w.datasets.append(ds)
        if d.get("attach") is not None:
            ns = self.NS(d["attach"])
            E = Expect("DataSet.attach_taxon_namespace")
            self.call(E, lambda: ds.attach_taxon_namespace(ns))

    def op_mk_array(self, d):
        import dendropy
        a = dendropy.TreeArray(taxon_namespace=self.NS(d["ns"]), is_rooted_trees=True)
        self.w.arrays.append([a, []])

    # ---- TreeList ------------------------------------------------------------------------------
    def _import_kw(self, d, E):
        rng = self.rng
        strat = pick(d, "strategy", lambda: rng.choice(["migrate"] * 5 + ["add"] * 3 + ["bogus"]))
        kw = {}
        unify = True
        if strat == "migrate":
            unify = pick(d, "unify", lambda: rng.random() > 0.2)
            if not unify:
                kw["unify_taxa_by_label"] = False
        if strat == "bogus":
            E.allowed = (ValueError,)
        E.disc = strat if unify else "migrate/no-unify"
        return strat, unify, kw

    def op_append(self, d):
        L = self.L(d)
        ns = L.taxon_namespace
        t = self.tree_arg(d, ns)
        E = Expect("TreeList.append")
        strat, unify, kw = self._import_kw(d, E)
        mode = self.mode(t, ns, strat, unify)
        E.inplace = [(t, mode, None)]
        E.consumed = [t]
        E.lists[id(L)] = (L, self.objs(self.model(L) + [t]))
        self.sig(E.op, mode, ns, self.labels_of(t))
        self.call(E, lambda: L.append(t, taxon_import_strategy=strat, **kw))

    def op_insert(self, d):
        L = self.L(d)
        ns = L.taxon_namespace
        t = self.tree_arg(d, ns)
        m = self.model(L)
        i = pick(d, "i", lambda: self.rng.randint(-len(m) - 1, len(m) + 1))
        E = Expect("TreeList.insert")
        strat, unify, kw = self._import_kw(d, E)
        mode = self.mode(t, ns, strat, unify)
        m.insert(i, t)
        E.inplace = [(t, mode, None)]
        E.consumed = [t]
        E.lists[id(L)] = (L, self.objs(m))
        self.sig(E.op, mode, ns, self.labels_of(t))
        self.call(E, lambda: L.insert(i, t, strat, **kw))

    def _source(self, d, L, allow_self=False):
        """material for extend/+=/+/slice assignment: a python list of free trees or another TreeList.
        returns (argument, slots, inplace, consumed, kind)"""
        rng, w = self.rng, self.w
        ns = L.taxon_namespace
        kind = pick(d, "src", lambda: rng.choice(["list", "list", "tl", "tl", "tuple"]))
        if kind == "tl":
            cands = [i for i, x in enumerate(w.lists) if x is not L or allow_self]
            if not cands:
                kind = d["src"] = "list"
        if kind == "tl":
            o = w.lists[pick(d, "o", lambda: rng.choice(cands)) % len(w.lists)]
            if o is L and not allow_self:
                raise Stop()
            mode = "same" if o.taxon_namespace is ns else "unify"
            slots = [("clone", t, mode) for t in self.model(o)]
            for t in self.model(o):
                self.sig("clone", mode, ns, self.labels_of(t))
            return o, slots, [], [], "tl/" + mode
        n = len(pick(d, "ts", lambda: [self.rand_td(ns) for _ in range(rng.randint(0, 3))]))
        trees = [self.build(td) for td in d["ts"]]
        inplace = [(t, self.mode(t, ns), None) for t in trees]
        for t in trees:
            self.sig("import", self.mode(t, ns), ns, self.labels_of(t))
        arg = tuple(trees) if kind == "tuple" else list(trees)
        return arg, self.objs(trees), inplace, list(trees), "list"

    def op_extend(self, d):
        L = self.L(d)
        arg, slots, inplace, consumed, kind = self._source(d, L)
        via = pick(d, "via", lambda: self.rng.choice(["extend", "iadd"]))
        E = Expect("TreeList.extend" if via == "extend" else "TreeList.__iadd__", kind)
        E.inplace, E.consumed = inplace, consumed
        E.lists[id(L)] = (L, self.objs(self.model(L)) + slots)
        if via == "extend":
            self.call(E, lambda: L.extend(arg))
        else:
            def f():
                x = L
                x += arg
                return x
            res, exc = self.call(E, f)
            if exc is None and res is not L:
                self.mon.viol(E, "iadd-returned-other-object", "+= did not return the list itself")
                raise Stop()

    def op_add(self, d):
        L = self.L(d)
        arg, slots, inplace, consumed, kind = self._source(d, L, allow_self=True)
        E = Expect("TreeList.__add__", kind)
        E.inplace, E.consumed = inplace, consumed
        E.newlist = ("result", [("clone", t, "same") for t in self.model(L)] + slots)
        self.call(E, lambda: L + arg)
        self.trim()

    def op_setitem(self, d):
        L = self.L(d)
        m = self.model(L)
        if not m:
            return self.op_append(d)
        ns = L.taxon_namespace
        i = pick(d, "i", lambda: self.rng.randrange(-len(m), len(m)))
        t = self.tree_arg(d, ns)
        mode = self.mode(t, ns)
        E = Expect("TreeList.__setitem__", "index")
        E.displaced = [m[i]]
        m[i] = t
        E.inplace = [(t, mode, None)]
        E.consumed = [t]
        E.lists[id(L)] = (L, self.objs(m))
        self.sig(E.op, mode, ns, self.labels_of(t))

        def f():
            L[i] = t
        self.call(E, f)

    def op_setslice(self, d):
        L = self.L(d)
        m = self.model(L)
        a = pick(d, "a", lambda: self.rng.randint(0, len(m)))
        b = pick(d, "b", lambda: self.rng.randint(a, len(m)))
        arg, slots, inplace, consumed, kind = self._source(d, L)
        E = Expect("TreeList.__setitem__", "slice/" + kind)
        E.displaced = m[a:b]
        s = self.objs(m)
        s[a:b] = slots
        E.inplace, E.consumed = inplace, consumed
        E.lists[id(L)] = (L, s)

        def f():
            L[a:b] = arg
        self.call(E, f)

    def op_getslice(self, d):
        L = self.L(d)
        m = self.model(L)
        a = pick(d, "a", lambda: self.rng.randint(0, len(m)))
        b = pick(d, "b", lambda: self.rng.randint(a, len(m)))
        E = Expect("TreeList.__getitem__", "slice")
        E.newlist = ("result", self.objs(m[a:b]))
        res, exc = self.call(E, lambda: L[a:b])
        # the slice shares Tree objects with its parent: checked once, then forgotten (see soundness limits)
        if res is not None:
            self.w.forget_list(res)

    def _text(self, d, ns, schemas=("newick", "nexus", "nexus", "nexml", "nexml"), nmin=2):
        rng = self.rng
        schema = pick(d, "schema", lambda: rng.choice(schemas))
        tds = pick(d, "trees", lambda: U.doc_trees(rng, self.uni, rng.randint(1, 3), nmin))
        specs = [U.spec_of(td, text=True) for td in tds]
        if schema == "newick":
            text = U.newick_text(specs)
        elif schema == "nexus":
            text = U.nexus_text(specs, taxa_block=pick(d, "taxa_block", lambda: rng.random() < 0.3),
                                translate=pick(d, "translate", lambda: rng.random() < 0.3))
        else:
            text = U.nexml_text(specs)
        for s in specs:
            self.sig("read/" + schema, "unify", ns, ref.leaf_taxa(s))
        return schema, text, [ref.leaf_taxa(s) for s in specs]

    def op_read(self, d):
        from dendropy.utility import error
        L = self.L(d)
        ns = L.taxon_namespace
        schema, text, labels = self._text(d, ns)
        E = Expect("TreeList.read", schema)
        E.lists[id(L)] = (L, self.objs(self.model(L)) + [("read",)] * len(labels))
        E.reads = {"trees": labels}
        kw = {"case_sensitive_taxon_labels": bool(ns.is_case_sensitive)}
        if schema == "nexus" and d.get("taxa_block") and len(ns) > 0:
            E.allowed = (error.DataParseError,)      # TooManyTaxaError: declared NTAX vs. members already present
        if pick(d, "foreign_kw", lambda: self.rng.random() < 0.04):
            kw["taxon_namespace"] = self.other_ns(d, ns, "kwns", same_p=0.0)
            if kw["taxon_namespace"] is not ns:
                E.allowed = (TypeError,)
        res, exc = self.call(E, lambda: L.read(data=text, schema=schema, **kw))
        if exc is not None and isinstance(exc, error.DataParseError):
            self.ctx.note("nexus-taxa-block-refused-for-non-empty-namespace")

    def op_get(self, d):
        import dendropy
        ns = self.NS(pick(d, "ns", lambda: self.rng.randrange(len(self.w.namespaces))) % len(self.w.namespaces))
        d.setdefault("taxa_block", False)
        schema, text, labels = self._text(d, ns, schemas=("newick", "nexus", "nexml"))
        E = Expect("TreeList.get", schema)
        E.newlist = ("result", [("read",)] * len(labels))
        E.reads = {"trees": labels}
        self.call(E, lambda: dendropy.TreeList.get(data=text, schema=schema, taxon_namespace=ns,
                                                    case_sensitive_taxon_labels=bool(ns.is_case_sensitive)))
        self.trim()

    def op_new_tree(self, d):
        L = self.L(d)
        E = Expect("TreeList.new_tree")
        kw = {}
        if pick(d, "foreign_kw", lambda: self.rng.random() < 0.3):
            kw["taxon_namespace"] = self.other_ns(d, L.taxon_namespace, "kwns", same_p=0.2)
            E.disc = "namespace-argument"
            if kw["taxon_namespace"] is not L.taxon_namespace:
                E.allowed = (TypeError,)
        E.lists[id(L)] = (L, self.objs(self.model(L)) + [("new",)])
        self.call(E, lambda: L.new_tree(**kw))

    def op_remove(self, d):
        L = self.L(d)
        m = self.model(L)
        if not m:
            return
        how = pick(d, "how", lambda: self.rng.choice(["pop", "remove", "del", "delslice"]))
        i = pick(d, "i", lambda: self.rng.randrange(len(m)))
        i %= len(m)
        if how == "delslice":
            b = pick(d, "b", lambda: self.rng.randint(i, len(m)))
            E = Expect("TreeList.__delitem__", "slice")
            E.displaced = m[i:b]
            del m[i:b]

            def f():
                del L[i:b]
        elif how == "del":
            E = Expect("TreeList.__delitem__", "index")
            E.displaced = [m[i]]
            del m[i]

            def f():
                del L[i]
        elif how == "pop":
            E = Expect("TreeList.pop")
            E.displaced = [m[i]]
            t = m.pop(i)
            f = lambda: L.pop(i)
        else:
            E = Expect("TreeList.remove")
            t = m[i]
            E.displaced = [t]
            # list.remove takes the first equal element; Tree equality is identity
            m.remove(t)
            f = lambda: L.remove(t)
        E.lists[id(L)] = (L, self.objs(m))
        self.call(E, f)
        self.trim()

    def _memo(self, d, trees, E):
        """pre-seeded taxon_mapping_memo: one taxon used by the trees -> a brand-new Taxon object."""
        import dendropy
        if not pick(d, "memo", lambda: self.rng.random() < 0.12):
            return None, None
        used = []
        for t in trees:
            for x in U.walk(t):
                if x[1] is not None and not any(x[1] is u for u in used):
                    used.append(x[1])
        if not used:
            d["memo"] = False
            return None, None
        p = used[pick(d, "memo_i", lambda: self.rng.randrange(len(used))) % len(used)]
        q = dendropy.Taxon(label="zeta")
        return {p: q}, {id(p): (p, q)}

    def op_migrate(self, d):
        L = self.L(d)
        if not self.movable(L):
            return
        ns = self.other_ns(d, L.taxon_namespace)
        unify = pick(d, "unify", lambda: self.rng.random() > 0.3)
        m = self.model(L)
        E = Expect("TreeList.migrate_taxon_namespace", "unify" if unify else "no-unify")
        memo, want = self._memo(d, m, E)
        mode = "unify" if unify else "distinct"
        E.inplace = [(t, mode, want) for t in m]
        E.lists[id(L)] = (L, self.objs(m))
        for t in m:
            self.sig(E.op, mode, ns, self.labels_of(t))
        kw = {"taxon_mapping_memo": memo} if memo is not None else {}
        self.call(E, lambda: L.migrate_taxon_namespace(ns, unify_taxa_by_label=unify, **kw))

    def op_reconstruct(self, d):
        L = self.L(d)
        if not self.movable(L):
            return
        ns = self.other_ns(d, L.taxon_namespace, same_p=0.3)
        unify = pick(d, "unify", lambda: self.rng.random() > 0.3)
        m = self.model(L)
        E = Expect("TreeList.reconstruct_taxon_namespace", "unify" if unify else "no-unify")
        mode = "unify" if unify else "distinct"
        E.inplace = [(t, mode, None) for t in m]
        E.lists[id(L)] = (L, self.objs(m))
        for t in m:
            self.sig(E.op, mode, ns, self.labels_of(t))
        L.taxon_namespace = ns      # documented usage: change the reference, then rebuild
        self.call(E, lambda: L.reconstruct_taxon_namespace(unify_taxa_by_label=unify))

    def op_update(self, d):
        L = self.L(d)
        if not self.movable(L):
            return
        ns = self.other_ns(d, L.taxon_namespace, same_p=0.3)
        m = self.model(L)
        E = Expect("TreeList.update_taxon_namespace")
        E.inplace = [(t, "add", None) for t in m]
        E.lists[id(L)] = (L, self.objs(m))
        for t in m:
            self.sig(E.op, "add", ns, self.labels_of(t))
        L.taxon_namespace = ns
        self.call(E, lambda: L.update_taxon_namespace())

    def op_ctor(self, d):
        import dendropy
        rng = self.rng
        kind = pick(d, "src", lambda: rng.choice(["tl", "tl", "list"]))
        ns = self.NS(pick(d, "ns", lambda: rng.randrange(len(self.w.namespaces))) % len(self.w.namespaces))
        if kind == "tl" and self.w.lists:
            o = self.L(d)
            use_kw = pick(d, "use_kw", lambda: rng.random() < 0.8)
            tgt = ns if use_kw else o.taxon_namespace
            mode = "same" if o.taxon_namespace is tgt else "unify"
            E = Expect("TreeList.__init__", "tl/" + mode)
            E.newlist = ("self", [("clone", t, mode) for t in self.model(o)])
            for t in self.model(o):
                self.sig(E.op, mode, tgt, self.labels_of(t))
            kw = {"taxon_namespace": ns} if use_kw else {}
            self.call(E, lambda: dendropy.TreeList(o, **kw))
        else:
            tds = pick(d, "ts", lambda: [self.rand_td(ns) for _ in range(rng.randint(1, 3))])
            trees = [self.build(td) for td in tds]
            E = Expect("TreeList.__init__", "list")
            E.inplace = [(t, self.mode(t, ns), None) for t in trees]
            E.consumed = list(trees)
            E.newlist = ("self", self.objs(trees))
            for t in trees:
                self.sig(E.op, self.mode(t, ns), ns, self.labels_of(t))
            self.call(E, lambda: dendropy.TreeList(trees, taxon_namespace=ns))
        self.trim()

    # ---- CharacterMatrix -------------------------------------------------------------------------
    def M(self, d):
        if not self.w.mats:
            raise Stop()
        return self.w.mats[pick(d, "m", lambda: self.rng.randrange(len(self.w.mats))) % len(self.w.mats)]

    def next_seq(self):
        self.w.rowno += 1
        return U.seq_for(self.w.rowno)

    def _key(self, d, m):
        """a row key for an assignment: member Taxon / foreign Taxon / label / index."""
        import dendropy
        rng = self.rng
        ns = m.taxon_namespace
        kind = pick(d, "key", lambda: rng.choice(["taxon", "taxon", "label", "label", "index", "foreign", "newlabel"]))
        members = list(ns)
        if kind in ("taxon", "index") and not members:
            kind = d["key"] = "newlabel"
        if kind == "taxon":
            return kind, members[pick(d, "k", lambda: rng.randrange(len(members))) % len(members)]
        if kind == "index":
            return kind, pick(d, "k", lambda: rng.randrange(len(members))) % len(members)
        if kind == "foreign":
            others = [x for x in self.w.namespaces if x is not ns and len(x)]
            if others:
                o = others[pick(d, "k", lambda: rng.randrange(len(others))) % len(others)]
                cand = [t for t in o if t not in ns]
                if cand:
                    return kind, cand[0]
            return kind, dendropy.Taxon(label=pick(d, "label", lambda: rng.choice(self.uni)))
        return kind, pick(d, "label", lambda: rng.choice(self.uni))

    def op_m_assign(self, d):
        m = self.M(d)
        ns = m.taxon_namespace
        via = pick(d, "via", lambda: self.rng.choice(["setitem", "setitem", "new_sequence", "getitem"]))
        kind, key = self._key(d, m)
        sq = self.next_seq()
        E = Expect("CharacterMatrix.%s" % {"setitem": "__setitem__", "getitem": "__getitem__"}.get(via, via), kind)
        E.allowed = (ValueError, KeyError, IndexError)
        if via == "getitem":
            E.assign = (m, [])
            self.call(E, lambda: m[key])
            return
        if kind == "index":
            tx = list(ns)[key]
            E.assign = (m, [(tx, sq)])
        elif kind in ("taxon", "foreign"):
            E.assign = (m, [(key, sq)])
        else:
            E.assign = (m, [(key, sq)])
        if via == "new_sequence":
            if kind in ("label", "newlabel", "index"):
                key = list(ns)[key] if kind == "index" else (ns.get_taxon(key) or key)
                if isinstance(key, str):
                    return
                E.assign = (m, [(key, sq)])
            self.call(E, lambda: m.new_sequence(key, sq))
        else:
            def f():
                m[key] = sq
            self.call(E, f)

    def op_m_from_dict(self, d):
        import dendropy
        m = self.M(d)
        ns = m.taxon_namespace
        rng = self.rng
        labels = U.canon_distinct(pick(d, "labels", lambda: rng.sample(self.uni, rng.randint(1, min(4, len(self.uni))))))
        src = {}
        assigned = []
        for l in labels:
            sq = self.next_seq()
            src[l] = sq
            assigned.append((l, sq))
        if pick(d, "taxon_key", lambda: rng.random() < 0.3):
            tx = dendropy.Taxon(label=pick(d, "tlabel", lambda: rng.choice(self.uni)))
            sq = self.next_seq()
            src[tx] = sq
            assigned.append((tx, sq))
        E = Expect("CharacterMatrix.from_dict")
        E.assign = (m, assigned)
        self.sig(E.op, "unify", ns, labels)
        self.call(E, lambda: type(m).from_dict(src, char_matrix=m, case_sensitive_taxon_labels=bool(ns.is_case_sensitive)))

    def _collision(self, rows_labels, ns):
        cf = U.canon_fn(bool(ns.is_case_sensitive))
        c = [cf(x) for x in rows_labels]
        return len(set(c)) != len(c)

    def op_m_migrate(self, d):
        from dendropy.utility import error
        m = self.M(d)
        if not self.movable(m):
            return
        how = pick(d, "how", lambda: self.rng.choice(["migrate", "migrate", "reconstruct", "update"]))
        ns = self.other_ns(d, m.taxon_namespace, same_p=0.1 if how == "migrate" else 0.3)
        unify = pick(d, "unify", lambda: self.rng.random() > 0.3)
        labels = [t.label for t in m._taxon_sequence_map]
        if how == "update":
            E = Expect("CharacterMatrix.update_taxon_namespace")
            E.mats = [(m, "add")]
            self.sig(E.op, "add", ns, labels)
            m.taxon_namespace = ns
            self.call(E, lambda: m.update_taxon_namespace())
            return
        E = Expect("CharacterMatrix.%s_taxon_namespace" % how, "unify" if unify else "no-unify")
        E.mats = [(m, "unify" if unify else "distinct")]
        if unify and self._collision(labels, ns):
            E.collision = True
            E.allowed = (error.TaxonNamespaceReconstructionError,)
        self.sig(E.op, "unify" if unify else "distinct", ns, labels)
        if how == "reconstruct" and E.collision and ns is not m.taxon_namespace:
            how = d["how"] = "migrate"
            E.op = "CharacterMatrix.migrate_taxon_namespace"
        if how == "migrate":
            self.call(E, lambda: m.migrate_taxon_namespace(ns, unify_taxa_by_label=unify))
        else:
            m.taxon_namespace = ns
            self.call(E, lambda: m.reconstruct_taxon_namespace(unify_taxa_by_label=unify))

    # ---- DataSet -----------------------------------------------------------------------------------
    def D(self, d):
        if not self.w.datasets:
            raise Stop()
        return self.w.datasets[pick(d, "d", lambda: self.rng.randrange(len(self.w.datasets))) % len(self.w.datasets)]

    def op_d_new_tree_list(self, d):
        ds = self.D(d)
        rng = self.rng
        att = ds.attached_taxon_namespace
        kind = pick(d, "src", lambda: rng.choice(["empty", "list", "list", "tl", "tl", "foreign_kw"]))
        E = Expect("DataSet.new_tree_list", kind)
        if kind == "tl" and not self.w.lists:
            kind = d["src"] = "empty"
        if kind == "empty":
            E.newlist = ("result", [])
            self.call(E, lambda: ds.new_tree_list())
        elif kind == "foreign_kw":
            ns = self.other_ns(d, att, same_p=0.2) if att is not None else self.NS(
                pick(d, "ns", lambda: rng.randrange(len(self.w.namespaces))) % len(self.w.namespaces))
            if att is not None and ns is not att:
                E.allowed = (TypeError,)
            E.newlist = ("result", [])
            self.call(E, lambda: ds.new_tree_list(taxon_namespace=ns))
        elif kind == "tl":
            o = self.L(d)
            tgt = att if att is not None else o.taxon_namespace
            mode = "same" if o.taxon_namespace is tgt else "unify"
            E.disc = "tl/" + mode
            E.newlist = ("result", [("clone", t, mode) for t in self.model(o)])
            for t in self.model(o):
                self.sig(E.op, mode, tgt, self.labels_of(t))
            self.call(E, lambda: ds.new_tree_list(o))
        else:
            if att is None:
                tgt = self.NS(pick(d, "ns", lambda: rng.randrange(len(self.w.namespaces))) % len(self.w.namespaces))
                kw = {"taxon_namespace": tgt}
            else:
                tgt, kw = att, {}
            trees = [self.build(td) for td in pick(d, "ts", lambda: [self.rand_td(tgt) for _ in range(rng.randint(1, 3))])]
            E.inplace = [(t, self.mode(t, tgt), None) for t in trees]
            E.consumed = list(trees)
            E.newlist = ("result", self.objs(trees))
            for t in trees:
                self.sig(E.op, self.mode(t, tgt), tgt, self.labels_of(t))
            self.call(E, lambda: ds.new_tree_list(trees, **kw))
        self.trim()

    def op_d_new_char_matrix(self, d):
        import dendropy
        ds = self.D(d)
        rng = self.rng
        att = ds.attached_taxon_namespace
        kind = pick(d, "src", lambda: rng.choice(["empty", "dict", "dict", "matrix", "matrix", "foreign_kw"]))
        if kind == "matrix" and not self.w.mats:
            kind = d["src"] = "dict"
        E = Expect("DataSet.new_char_matrix", kind)
        E.newmat = "result"
        typ = pick(d, "type", lambda: rng.choice(["dna", "class"]))
        # ("dna", positional argument) is refused by the library for a reason unrelated to namespaces
        # (new_char_matrix() got multiple values for 'data_type'): the class form is used with a source
        typ = "dna" if typ == "dna" and kind in ("empty", "foreign_kw") else dendropy.DnaCharacterMatrix
        kw = {}
        if att is None:
            kw["taxon_namespace"] = self.NS(pick(d, "ns", lambda: rng.randrange(len(self.w.namespaces))) % len(self.w.namespaces))
        tgt = att if att is not None else kw["taxon_namespace"]
        if kind == "empty":
            self.call(E, lambda: ds.new_char_matrix(typ, **kw))
        elif kind == "foreign_kw":
            ns = self.other_ns(d, tgt, "kwns", same_p=0.2)
            if att is not None and ns is not att:
                E.allowed = (TypeError,)
            self.call(E, lambda: ds.new_char_matrix(typ, taxon_namespace=ns))
        elif kind == "dict":
            labels = U.canon_distinct(pick(d, "labels", lambda: rng.sample(self.uni, rng.randint(1, min(4, len(self.uni))))))
            src = [(l, self.next_seq()) for l in labels]
            E.newrows = labels
            self.sig(E.op, "unify", tgt, labels)
            # NB the constructor's from_dict uses case-insensitive key matching by default: only judged for
            # case-insensitive targets
            if tgt.is_case_sensitive:
                E.newrows = None
            self.call(E, lambda: ds.new_char_matrix(typ, src, **kw))
        else:
            o = self.M(d)
            mode = "same" if o.taxon_namespace is tgt else "unify"
            E.disc = "matrix/" + mode
            E.matclone = (o, mode)
            labels = [t.label for t in o._taxon_sequence_map]
            # the copy maps EVERY member of the source namespace by label first: collisions among them merge rows
            E.collision = self._collision(labels, tgt) and mode == "unify"
            self.sig(E.op, mode, tgt, labels)
            self.call(E, lambda: ds.new_char_matrix(typ, o, **kw))
        self.trim()

    def op_d_add(self, d):
        """add an existing free-standing list / matrix: any for a plain data set, same-namespace only in attached mode."""
        ds = self.D(d)
        att = ds.attached_taxon_namespace
        w = self.w
        cands = [x for x in w.lists + w.mats if w.dataset_of(x) is None and (att is None or x.taxon_namespace is att)]
        if not cands:
            return
        x = cands[pick(d, "k", lambda: self.rng.randrange(len(cands))) % len(cands)]
        E = Expect("DataSet.add", type(x).__name__)
        self.call(E, lambda: ds.add(x))

    def op_d_attach(self, d):
        """attach a namespace to a data set whose components (if any) all refer to it already."""
        ds = self.D(d)
        comps = list(ds.tree_lists) + list(ds.char_matrices)
        if ds.attached_taxon_namespace is not None:
            return
        if comps:
            ns = comps[0].taxon_namespace
            if any(c.taxon_namespace is not ns for c in comps):
                self.ctx.note("attach-over-foreign-components-not-generated")
                return
        else:
            ns = self.NS(pick(d, "ns", lambda: self.rng.randrange(len(self.w.namespaces))) % len(self.w.namespaces))
        E = Expect("DataSet.attach_taxon_namespace")
        self.call(E, lambda: ds.attach_taxon_namespace(ns))

    def _doc(self, d, ns):
        """a document for DataSet.read / DataSet.get: trees and/or one matrix."""
        rng = self.rng
        schema = pick(d, "schema", lambda: rng.choice(["newick", "nexus", "nexus", "nexml", "nexml", "fasta"]))
        rows = None
        labels = []
        text = None
        if schema == "fasta":
            rl = U.canon_distinct(pick(d, "rows", lambda: rng.sample(self.uni, rng.randint(1, min(4, len(self.uni))))))
            rows = [(l, self.next_seq()) for l in rl]
            text = U.fasta_text(rows)
            self.sig("read/fasta", "unify", ns, rl)
            return schema, text, [], rl
        if schema == "nexus" and pick(d, "with_chars", lambda: rng.random() < 0.5):
            rl = U.canon_distinct(pick(d, "rows", lambda: rng.sample(self.uni, rng.randint(1, min(4, len(self.uni))))))
            rows = [(l, self.next_seq()) for l in rl]
            tds = pick(d, "trees", lambda: U.doc_trees(rng, self.uni, rng.randint(0, 2), 2, spelling=rl))
            specs = [U.spec_of(td, text=True) for td in tds]
            text = U.nexus_text(specs, taxa_block=True, translate=pick(d, "translate", lambda: rng.random() < 0.3), rows=rows)
            for s in specs:
                self.sig("read/nexus", "unify", ns, ref.leaf_taxa(s))
            return schema, text, [ref.leaf_taxa(s) for s in specs], rl
        d.setdefault("taxa_block", rng.random() < 0.5 if schema == "nexus" else False)
        schema, text, labels = self._text(d, ns)
        return schema, text, labels, None

    def op_d_read(self, d):
        from dendropy.utility import error
        ds = self.D(d)
        att = ds.attached_taxon_namespace
        # a detached data set may be told which namespace to read into (seeded change C11c: an EMPTY one was ignored)
        kwns = None
        if att is None and pick(d, "into_ns", lambda: self.rng.random() < 0.45):
            def choose():
                empty = [i for i, x in enumerate(self.w.namespaces) if len(x) == 0]
                if empty and self.rng.random() < 0.5:
                    return self.rng.choice(empty)
                return self.rng.randrange(len(self.w.namespaces))
            kwns = self.NS(pick(d, "into_which", choose) % len(self.w.namespaces))
        schema, text, labels, rows = self._doc(d, att if att is not None else kwns)
        E = Expect("DataSet.read", schema + ("/attached" if att is not None else ("/detached-into-given-namespace" if kwns is not None else "/detached")))
        E.reads = {"trees": labels, "rows": rows, "dataset": ds, "ns": kwns}
        kw = {}
        if kwns is not None:
            kw["taxon_namespace"] = kwns
            kw["case_sensitive_taxon_labels"] = bool(kwns.is_case_sensitive)
        if schema == "fasta":
            kw["data_type"] = "dna"
        if att is not None:
            kw["case_sensitive_taxon_labels"] = bool(att.is_case_sensitive)
            if pick(d, "foreign_kw", lambda: self.rng.random() < 0.05):
                kw["taxon_namespace"] = self.other_ns(d, att, "kwns", same_p=0.0)
                if kw["taxon_namespace"] is not att:
                    E.allowed = (ValueError,)
        if schema == "fasta":
            kw.pop("case_sensitive_taxon_labels", None)
        self.call(E, lambda: ds.read(data=text, schema=schema, **kw))
        self.trim()

    def op_d_get(self, d):
        import dendropy
        ns = self.NS(pick(d, "ns", lambda: self.rng.randrange(len(self.w.namespaces))) % len(self.w.namespaces))
        if len(self.w.datasets) >= 3:
            return
        schema, text, labels, rows = self._doc(d, ns)
        E = Expect("DataSet.get", schema)
        E.newds = "result"
        kw = {"taxon_namespace": ns}
        if schema == "fasta":
            kw["data_type"] = "dna"
        else:
            kw["case_sensitive_taxon_labels"] = bool(ns.is_case_sensitive)
        E.reads = {"trees": labels, "rows": rows, "dataset": None}     # the monitor fills in the data set it gets back
        res, exc = self.call(E, lambda: dendropy.DataSet.get(data=text, schema=schema, **kw))
        if res is not None and res.attached_taxon_namespace is not ns:
            self.mon.viol(E, "new-dataset-not-attached-to-given-namespace", "DataSet.get(taxon_namespace=ns) is not attached to ns")
            raise Stop()
        self.trim()

    def op_d_unify(self, d):
        from dendropy.utility import error
        ds = self.D(d)
        comps = list(ds.tree_lists) + list(ds.char_matrices)
        given = pick(d, "given", lambda: self.rng.random() < 0.5)
        tgt = None
        if given:
            tgt = self.NS(pick(d, "ns", lambda: self.rng.randrange(len(self.w.namespaces))) % len(self.w.namespaces))
        E = Expect("DataSet.unify_taxon_namespaces", "given-namespace" if given else "new-namespace")
        if not comps and not len(ds.taxon_namespaces) and tgt is None:
            E.allowed = (TypeError,)
        E.unify = (ds, tgt)
        E.inplace = [(t, "unify", None) for l in ds.tree_lists for t in self.model(l)]
        for l in ds.tree_lists:
            E.lists[id(l)] = (l, self.objs(self.model(l)))
        E.mats = [(m, "unify") for m in ds.char_matrices]
        # rows of ONE matrix with equal labels under the target's rule cannot be unified: refusal is legitimate
        cs = bool(tgt.is_case_sensitive) if tgt is not None else False
        cf = U.canon_fn(cs)
        for m in ds.char_matrices:
            c = [cf(t.label) for t in m._taxon_sequence_map]
            if len(set(c)) != len(c):
                E.collision = True
                E.allowed = E.allowed + (error.TaxonNamespaceReconstructionError,)
        for t, _, _ in E.inplace:
            self.sig(E.op, "unify", tgt, self.labels_of(t))
        kw = {"taxon_namespace": tgt} if tgt is not None else {}
        self.call(E, lambda: ds.unify_taxon_namespaces(**kw))

    # ---- TreeArray -----------------------------------------------------------------------------------
    def A(self, d):
        if not self.w.arrays:
            raise Stop()
        return self.w.arrays[pick(d, "a", lambda: self.rng.randrange(len(self.w.arrays))) % len(self.w.arrays)][0]

    def op_a_add_tree(self, d):
        from dendropy.utility import error
        a = self.A(d)
        ns = a.taxon_namespace
        td = pick(d, "t", lambda: self.rand_td(ns, same_p=0.75, distinct=True, leaves_only=True, nmin=2))
        t = self.build(td)
        E = Expect("TreeArray.add_tree", "same-namespace" if t.taxon_namespace is ns else "foreign-namespace")
        if t.taxon_namespace is not ns:
            E.allowed = (error.TaxonNamespaceIdentityError,)
            E.array = (a, [], t)
        else:
            E.array = (a, [self.labels_of(t)], t)
        E.consumed = [t]
        self.call(E, lambda: a.add_tree(t))

    def op_a_read(self, d):
        a = self.A(d)
        ns = a.taxon_namespace
        d.setdefault("taxa_block", False)
        schema, text, labels = self._text(d, ns, schemas=("newick", "nexus"))
        E = Expect("TreeArray.read", schema)
        E.array = (a, labels, None)
        self.call(E, lambda: a.read(data=text, schema=schema, rooting="force-rooted",
                                    case_sensitive_taxon_labels=bool(ns.is_case_sensitive)))


# ------------------------------------------------------------------------------------------------
WEIGHTS = [("append", 10), ("insert", 6), ("extend", 8), ("add", 4), ("setitem", 4), ("setslice", 5), ("getslice", 2),
           ("read", 8), ("get", 3), ("new_tree", 3), ("remove", 6), ("migrate", 4), ("reconstruct", 3), ("update", 3),
           ("ctor", 3), ("m_assign", 6), ("m_from_dict", 4), ("m_migrate", 5), ("d_new_tree_list", 4),
           ("d_new_char_matrix", 4), ("d_add", 2), ("d_attach", 1), ("d_read", 6), ("d_get", 1), ("d_unify", 2),
           ("a_add_tree", 3), ("a_read", 2)]


def random_setup(rng, uni):
    ops = []
    n_ns = rng.randint(2, 4)
    for i in range(n_ns):
        cs = rng.random() < 0.3
        labels = rng.sample(uni, rng.randint(0, len(uni) // 2)) if rng.random() > 0.2 else []
        if not cs and rng.random() < 0.8:
            labels = U.canon_distinct(labels)
        ops.append({"op": "mk_ns", "cs": cs, "labels": labels})
    for _ in range(rng.randint(1, 3)):
        ops.append({"op": "mk_list", "ns": rng.randrange(n_ns)})
    for _ in range(rng.randint(0, 2)):
        ops.append({"op": "mk_matrix", "ns": rng.randrange(n_ns)})
    if rng.random() < 0.65:
        ops.append({"op": "mk_dataset", "attach": rng.randrange(n_ns) if rng.random() < 0.7 else None})
    if rng.random() < 0.4:
        ops.append({"op": "mk_array", "ns": rng.randrange(n_ns)})
    return ops


def next_op(rng, w):
    names, weights = [], []
    for name, wt in WEIGHTS:
        if name.startswith("m_") and not w.mats:
            continue
        if name.startswith("d_") and name != "d_get" and not w.datasets:
            continue
        if name.startswith("a_") and not w.arrays:
            continue
        if not name.startswith(("m_", "d_", "a_")) and not w.lists and name not in ("get", "ctor"):
            continue
        names.append(name)
        weights.append(wt)
    return {"op": rng.choices(names, weights)[0]}


# directed witness scripts: (name, [operation descriptors])
def T(ns, labels, shape=1, itax=()):
    return {"ns": ns, "labels": list(labels), "itax": list(itax), "shape": shape}


DIRECTED = [
    # a NeXML source read into a list whose namespace already knows some of the labels
    ("nexml-read-into-populated-list", [
        {"op": "mk_ns", "cs": False, "labels": ["ant", "bee"]},
        {"op": "mk_list", "ns": 0},
        {"op": "append", "l": 0, "t": T(0, ["ant", "bee"]), "strategy": "migrate", "unify": True},
        {"op": "read", "l": 0, "schema": "nexml", "trees": [T(None, ["ant", "bee", "cat"])], "foreign_kw": False}]),
    ("nexml-get-into-populated-namespace", [
        {"op": "mk_ns", "cs": False, "labels": ["ant", "bee"]},
        {"op": "get", "ns": 0, "schema": "nexml", "trees": [T(None, ["bee", "cat"])]}]),
    # a matrix whose taxa are members already is rebuilt / unified
    ("matrix-reconstruct-when-consistent", [
        {"op": "mk_ns", "cs": False, "labels": ["ant", "bee"]},
        {"op": "mk_matrix", "ns": 0},
        {"op": "m_from_dict", "m": 0, "labels": ["ant", "bee"], "taxon_key": False},
        {"op": "m_migrate", "m": 0, "how": "reconstruct", "ns": 0, "unify": True}]),
    ("dataset-unify-into-namespace-of-own-matrix", [
        {"op": "mk_ns", "cs": False, "labels": ["ant", "bee"]},
        {"op": "mk_ns", "cs": False, "labels": []},
        {"op": "mk_matrix", "ns": 0},
        {"op": "mk_list", "ns": 1},
        {"op": "m_from_dict", "m": 0, "labels": ["ant", "bee"], "taxon_key": False},
        {"op": "append", "l": 0, "t": T(1, ["ant", "cat"]), "strategy": "migrate", "unify": True},
        {"op": "mk_dataset", "attach": None},
        {"op": "d_add", "d": 0, "k": 0},
        {"op": "d_add", "d": 0, "k": 0},
        {"op": "d_unify", "d": 0, "given": True, "ns": 0}]),
    ("matrix-migrate-back-to-namespace-that-shares-its-taxa", [
        {"op": "mk_ns", "cs": False, "labels": ["ant", "bee"]},
        {"op": "mk_ns", "cs": False, "labels": []},
        {"op": "mk_matrix", "ns": 0},
        {"op": "m_from_dict", "m": 0, "labels": ["ant", "bee"], "taxon_key": False},
        {"op": "m_migrate", "m": 0, "how": "update", "ns": 1},
        {"op": "m_migrate", "m": 0, "how": "migrate", "ns": 0, "unify": True}]),
    ("matrix-reconstruct-after-reassignment-refused", [
        {"op": "mk_ns", "cs": False, "labels": ["ant", "bee"]},
        {"op": "mk_ns", "cs": False, "labels": []},
        {"op": "mk_matrix", "ns": 0},
        {"op": "m_from_dict", "m": 0, "labels": ["ant", "bee"], "taxon_key": False},
        {"op": "m_migrate", "m": 0, "how": "update", "ns": 1},
        {"op": "m_from_dict", "m": 0, "labels": ["cat"], "taxon_key": False},
        {"op": "m_migrate", "m": 0, "how": "reconstruct", "ns": 0, "unify": True}]),
    # rows that differ in case only, moved to a case-insensitive namespace: the refusal is legitimate
    ("matrix-migrate-with-case-collision", [
        {"op": "mk_ns", "cs": True, "labels": ["ant", "Ant", "bee"]},
        {"op": "mk_ns", "cs": False, "labels": []},
        {"op": "mk_matrix", "ns": 0},
        {"op": "m_from_dict", "m": 0, "labels": ["bee"], "taxon_key": False},
        {"op": "m_assign", "m": 0, "via": "setitem", "key": "index", "k": 0},
        {"op": "m_assign", "m": 0, "via": "setitem", "key": "index", "k": 1},
        {"op": "m_migrate", "m": 0, "how": "migrate", "ns": 1, "unify": True}]),
    # the same legitimate refusal in the middle of DataSet.unify_taxon_namespaces (attached mode)
    ("dataset-unify-refused-midway", [
        {"op": "mk_ns", "cs": True, "labels": ["ant", "Ant", "bee"]},
        {"op": "mk_dataset", "attach": 0},
        {"op": "d_new_tree_list", "d": 0, "src": "list", "ts": [T(0, ["ant", "bee"])]},
        {"op": "d_new_char_matrix", "d": 0, "src": "empty", "type": "class"},
        {"op": "m_assign", "m": 0, "via": "setitem", "key": "index", "k": 0},
        {"op": "m_assign", "m": 0, "via": "setitem", "key": "index", "k": 1},
        {"op": "m_assign", "m": 0, "via": "setitem", "key": "index", "k": 2},
        {"op": "d_unify", "d": 0, "given": False}]),
    # the three spot probes of the design: +, slice assignment, insert(..., "add")
    ("add-slice-insert-spot-probes", [
        {"op": "mk_ns", "cs": False, "labels": ["ant", "bee"]},
        {"op": "mk_ns", "cs": False, "labels": ["bee", "cat"]},
        {"op": "mk_list", "ns": 0},
        {"op": "mk_list", "ns": 1},
        {"op": "append", "l": 0, "t": T(0, ["ant", "bee"]), "strategy": "migrate", "unify": True},
        {"op": "append", "l": 1, "t": T(1, ["bee", "cat", "Ant"]), "strategy": "migrate", "unify": True},
        {"op": "add", "l": 0, "src": "tl", "o": 1},
        {"op": "add", "l": 0, "src": "list", "ts": [T(1, ["cat", "dog"])]},
        {"op": "setslice", "l": 0, "a": 0, "b": 1, "src": "list", "ts": [T(1, ["bee", "eel"]), T(-1, ["ANT"])]},
        {"op": "setslice", "l": 0, "a": 1, "b": 1, "src": "tl", "o": 1},
        {"op": "insert", "l": 0, "i": 0, "t": T(1, ["bee", "fox"]), "strategy": "add"},
        {"op": "remove", "l": 0, "how": "pop", "i": 0},
        {"op": "migrate", "l": 0, "ns": 1, "unify": False, "memo": False},
        {"op": "append", "l": 1, "t": {"removed": 0}, "strategy": "migrate", "unify": True}]),
    ("dataset-attached-reads", [
        {"op": "mk_ns", "cs": False, "labels": ["ant", "bee"]},
        {"op": "mk_dataset", "attach": 0},
        {"op": "d_read", "d": 0, "schema": "nexml", "trees": [T(None, ["Ant", "cat"])], "foreign_kw": False},
        {"op": "d_read", "d": 0, "schema": "nexus", "with_chars": True, "rows": ["bee", "dog"], "trees": [T(None, ["ant", "dog"])],
         "translate": True, "foreign_kw": False},
        {"op": "d_read", "d": 0, "schema": "fasta", "rows": ["ANT", "eel"], "foreign_kw": False},
        {"op": "d_new_tree_list", "d": 0, "src": "list", "ts": [T(-1, ["BEE", "fox"])]},
        {"op": "d_unify", "d": 0, "given": False}]),
    ("array-add-and-read", [
        {"op": "mk_ns", "cs": False, "labels": ["ant", "bee"]},
        {"op": "mk_ns", "cs": False, "labels": ["ant"]},
        {"op": "mk_array", "ns": 0},
        {"op": "a_add_tree", "a": 0, "t": T(0, ["ant", "bee", "cat"])},
        {"op": "a_add_tree", "a": 0, "t": T(1, ["ant", "bee"])},
        {"op": "a_read", "a": 0, "schema": "newick", "trees": [T(None, ["ANT", "dog", "cat"])]},
        {"op": "a_read", "a": 0, "schema": "nexus", "trees": [T(None, ["bee", "eel"])], "translate": True}]),
]


def cases(tier, seed):
    for name, _ in DIRECTED:
        yield {"kind": "directed", "name": name, "seed": seed}
    n = 12000 if tier == "quick" else 160000
    for i in range(n):
        yield {"kind": "history", "i": i, "seed": seed}


def run_case(case, ctx):
    rng = random.Random("%s/%s" % (case["seed"], sorted((k, str(v)) for k, v in case.items())))
    mon = U.Monitor(ctx)
    with Hooks(ctx) as hooks:
        mon.install(hooks)
        drv = Driver(ctx, rng, mon)
        try:
            if case["kind"] == "directed":
                script = dict(DIRECTED)[case["name"]]
                import copy
                for d in copy.deepcopy(script):
                    drv.run(d)
                ctx.ev("directed-completed")
                ctx.sample({"kind": "directed", "name": case["name"], "ops": [d["op"] for d in script],
                            "world_after": drv.w.describe()})
            else:
                for d in random_setup(rng, drv.uni):
                    drv.run(d)
                n = rng.randint(10, 30 if ctx.tier == "quick" else 40)
                for k in range(n):
                    drv.run(next_op(rng, drv.w))
                ctx.ev("history-completed")
                if case["i"] < 3:
                    ctx.sample({"kind": "history", "universe": drv.uni, "ops": [d["op"] for d in drv.hist],
                                "world_after": drv.w.describe()})
        except Stop:
            ctx.ev("history-stopped")
        finally:
            mon.world = None
