"""C11  Collections keep every member inside their own taxon namespace.

Method: runtime monitoring.  Every case is an operation history executed on REAL TreeList (and a user-defined
subclass) / TreeArray / Dna-, Protein-, Standard-, ContinuousCharacterMatrix / DataSet objects that live together
in one "world" (several namespaces, case-sensitive and not, mutable and immutable, with overlapping / disjoint /
case-variant label sets; trees and matrices built under foreign namespaces through the node API, some tips without a
taxon).  vf.mon.hooks wraps the real container methods; the pre-hook snapshots the whole world from raw fields, the
post-hook judges -- after EVERY announced hooked call, returned or raised:

  closure     every tree of every list: ``tree.taxon_namespace is list.taxon_namespace`` and every
              node taxon is a member (id-set) of that namespace; every sequence key of every matrix
              is a member of the matrix's namespace; every component of a data set in attached
              mode refers to the attached object, which is listed in ``taxon_namespaces``; a
              TreeArray and its split distribution share the namespace, its four parallel stores have one length,
              every stored leaf-set bitmask consists of bits of members whose labels are the accessioned labels of the
              tree AT THAT POSITION and every stored split lies inside the leaf set stored with it; every
              tree that left a list (pop/remove/del/clear/overwritten) has all its taxa in its own namespace
  frame       trees / lists / matrices / arrays that were not part of the call are unchanged by identity;
              no namespace loses or relabels a member
  provenance  (normal return) lists hold exactly the expected members (same objects, or copies
              paired node by node with their source); every item keeps its label up to the target
              namespace's case rule; "migrate"/unification/reads: equal labels -> one taxon object,
              a label that already had a member re-uses a member, no second taxon for a label
              appears in the namespace; "add" / update / same-namespace: the taxon object is kept;
              unify_taxa_by_label=False: old->new taxon is a bijection; a pre-seeded
              taxon_mapping_memo wins (for every call that takes one: migrate / reconstruct of lists and matrices,
              append / insert) and its target becomes a member; matrices keep every sequence; reads deliver the
              SELECTED trees / matrices of the source (collection_offset, tree_offset, matrix_offset, exclude_*) with the
              source's label multisets, into the namespace that was passed in (TreeList.get, <Type>CharacterMatrix.get,
              DataSet.read / get - also when that namespace is still empty)
  refusal     TaxonNamespaceReconstructionError is legitimate only if two rows have equal labels under
              the target's case rule (predicted from labels); ImmutableTaxonNamespaceError only if the target is
              immutable and a taxon would have to be created / registered (predicted from labels and identities);
              KeyError / ValueError of matrix row access only for a label without member / a Taxon that is not a member /
              new_sequence over an existing row; IndexError only for an offset beyond the source; other exceptions only
              from the documented set of the call.  A call that exceeds its logical step budget (vf.mon.budget) is
              reported as ``does-not-terminate`` - the wall clock never decides.

Read routes: a table {newick, nexus, nexml, fasta, phylip} x {trees, matrices, both} x layout (NEXUS: no / one / two
titled TAXA blocks with LINK, TRANSLATE, CHARACTERS or DATA block, INTERLEAVE, one or two TREES / CHARACTERS blocks;
NeXML: several <trees> / <characters>; PHYLIP: strict / relaxed x sequential / interleaved) x source (data= / file= /
path=) x options (collection_offset, tree_offset, matrix_offset, exclude_trees / exclude_chars, taxon_namespace= /
legacy taxon_set=, several files per read_from_files call), written by hand in _c11_docs.py.

Soundness limits: a Tree object is never put into two lists of different namespaces and lists of an
attached data set never get namespace-changing calls (API misuse, not a defect); data sets are
attached / unified before foreign material arrives and only same-namespace objects are ``add``-ed;
strategy "add", update_taxon_namespace, Taxon keys of from_dict and unify_taxa_by_label=False may
create equal labels on distinct taxa by design (those items are only required to keep their taxon /
stay distinct); reader case sensitivity is always set to the namespace's; labels are letters only
(no numeric tokens, quoting or underscores: C02/C10 ground; no Taxon(label=None)); a NEXUS file that declares NTAX
and is read into a namespace with other members, and a file with several titled TAXA blocks read by a
single-namespace route (TreeList / TreeArray / CharacterMatrix) may be refused (recorded, not judged); the order of
new members in a namespace and which of several equal-labelled members is re-used are not judged; TreeArray.migrate
(not implemented by the library) is not exercised; rows that collapse when a matrix is *copied* into a namespace where
their labels are equal are recorded, not judged; ``x.taxon_namespace = ns; x.reconstruct/update_taxon_namespace()``
is not driven where a refusal is predicted (the caller's assignment has broken the closure, a refusal cannot restore
it: those refusals are driven through migrate_taxon_namespace); argument trees of a refused call are members of
nothing, their state is recorded, not judged; a mapping memo whose target is itself one of the taxa being moved is
not generated; new_tree(seed_node=...) / reindex_taxa (deprecated, not functional) are not driven.

Violation keys are ``<hooked method>|<clause>[-after-raise | -after-<ExceptionClass>]|<discriminator>``; for a state
left behind by a refusal the discriminator is ``<exception class>@<innermost library function>``; the suffix
``-after-raise`` is reserved for label-collision refusals (TaxonNamespaceReconstructionError), every other
exception class names itself in the clause, so that the recorded finding about DataSet.unify_taxon_namespaces
(``DataSet.unify_taxon_namespaces|attached-namespace-not-listed-after-raise|TaxonNamespaceReconstructionError@
CharacterMatrix.reconstruct_taxon_namespace`` and ``...|dataset-component-namespace-not-attached-after-raise|...``)
cannot hide the state another refusal leaves behind.  Directed scripts (DIRECTED, run first) hold the smallest
witness of every key seen on the pinned tree and of every input class an audit found missing."""
import os
import random

from .. import core
from ..mon.hooks import Hooks
from . import _c11_util as U
from ._c11_drv_base import DriverBase, Stop, STEP_LIMIT
from ._c11_drv_lists import ListOps
from ._c11_drv_other import MatrixOps, DataSetOps, ArrayOps

PROP = "C11"
LEVEL = "exploration"
TECHNIQUE = ("runtime monitoring: hooks on the container methods + closure / frame / provenance oracles over "
             "snapshots of all live containers after every operation of random and directed histories; logical step budget "
             "per operation for non-termination")
RULE = ("case = one operation history (directed witness scripts first, then random histories of 10-40 operations) on a world of "
        "2-4 namespaces (case-sensitive or not, ~13 % immutable) x tree lists (and a subclass) / matrices of four data types / data "
        "sets / tree arrays; operations draw trees and rows built under foreign namespaces with overlapping, disjoint and "
        "case-variant labels, both taxon_import_strategy values, unify_taxa_by_label in {True, False}, pre-seeded mapping memos "
        "(target new / member / member of a third namespace) for every call that takes one, sources list / tuple / iterator / "
        "generator / TreeList / the receiver itself, slices with negative bounds and steps, Newick / NEXUS / NeXML / FASTA / PHYLIP "
        "texts in all layouts read with offsets / exclusions / given namespaces from data=, file= and path=, all ten TreeArray "
        "accession routes incl. merges with arrays over other namespaces, unification with and without attaching (and its legacy "
        "alias). non-trivial/distinct = distinct (operation, import mode, case rule and mutability of target, label-overlap class) "
        "of an operation that moved at least one item across namespaces")
REACH = ["treecollectionmodel:TreeList._import_tree_to_taxon_namespace", "treecollectionmodel:TreeList.insert",
         "treecollectionmodel:TreeList.append", "treecollectionmodel:TreeList.extend", "treecollectionmodel:TreeList.__setitem__",
         "treecollectionmodel:TreeList.__add__", "treecollectionmodel:TreeList.__iadd__", "treecollectionmodel:TreeList.new_tree",
         "treecollectionmodel:TreeList.clear", "treecollectionmodel:TreeList.as_tree_array", "treecollectionmodel:TreeList.split_distribution",
         "treecollectionmodel:TreeList._parse_and_add_from_stream", "treecollectionmodel:TreeList._parse_and_create_from_stream",
         "treecollectionmodel:TreeList.reconstruct_taxon_namespace", "treecollectionmodel:TreeList.update_taxon_namespace",
         "treecollectionmodel:TreeList._clone_from", "treecollectionmodel:TreeArray.add_tree", "treecollectionmodel:TreeArray.add_trees",
         "treecollectionmodel:TreeArray.append", "treecollectionmodel:TreeArray.insert", "treecollectionmodel:TreeArray.extend",
         "treecollectionmodel:TreeArray.__iadd__", "treecollectionmodel:TreeArray.__add__", "treecollectionmodel:TreeArray.update",
         "treecollectionmodel:TreeArray.from_tree_list", "treecollectionmodel:TreeArray.read_from_files",
         "taxonmodel:TaxonNamespaceAssociated.migrate_taxon_namespace", "taxonmodel:TaxonNamespaceAssociated._set_taxon_namespace",
         "_tree:Tree.reconstruct_taxon_namespace", "_tree:Tree.update_taxon_namespace", "_tree:Tree._clone_from",
         "charmatrixmodel:CharacterMatrix.reconstruct_taxon_namespace", "charmatrixmodel:CharacterMatrix.update_taxon_namespace",
         "charmatrixmodel:CharacterMatrix.new_sequence", "charmatrixmodel:CharacterMatrix.__setitem__",
         "charmatrixmodel:CharacterMatrix.from_dict", "charmatrixmodel:CharacterMatrix._clone_from",
         "charmatrixmodel:CharacterMatrix._parse_and_create_from_stream",
         "datasetmodel:DataSet.unify_taxon_namespaces", "datasetmodel:DataSet.unify_taxa", "datasetmodel:DataSet._parse_and_add_from_stream",
         "datasetmodel:DataSet._parse_and_create_from_stream", "datasetmodel:DataSet.new_tree_list", "datasetmodel:DataSet.new_char_matrix",
         "datasetmodel:DataSet.attach_taxon_namespace", "datasetmodel:DataSet.detach_taxon_namespace",
         "ioservice:DataReader.read_dataset", "ioservice:DataReader.read_tree_lists", "ioservice:DataReader.read_char_matrices",
         "phylipreader:PhylipReader._parse_interleaved", "phylipreader:PhylipReader._parse_sequential",
         "nexusreader:NexusReader._parse_taxa_block", "nexusreader:NexusReader._parse_link_statement",
         "nexmlreader:NexmlReader._read", "fastareader:FastaReader._read"]
MIN_EVENTS = {"array-read-judged": (1200, 9600), "closure:array-judged": (84000, 672000),
              "closure:dataset-judged": (55000, 440000), "closure:list-judged": (390000, 3120000),
              "closure:matrix-judged": (230000, 1840000), "closure:removed-tree-judged": (69000, 552000),
              "documented-error-seen": (11000, 88000), "frame:array-judged": (80000, 640000),
              "frame:tree-judged": (700000, 5600000), "history-completed": (5300, 42400),
              "hook:CharacterMatrix.__setitem__:return": (1700, 13600), "hook:CharacterMatrix.from_dict:return": (3600, 28800),
              "hook:CharacterMatrix.get:return": (2000, 16000),
              "hook:CharacterMatrix.migrate_taxon_namespace:return": (1700, 13600),
              "hook:CharacterMatrix.reconstruct_taxon_namespace:return": (850, 6800),
              "hook:CharacterMatrix.update_taxon_namespace:return": (820, 6560),
              "hook:DataSet.detach_taxon_namespace:return": (650, 5200), "hook:DataSet.get:return": (850, 6800),
              "hook:DataSet.new_char_matrix:return": (2100, 16800), "hook:DataSet.new_tree_list:return": (2200, 17600),
              "hook:DataSet.read:return": (3400, 27200), "hook:DataSet.unify_taxa:return": (220, 1760),
              "hook:DataSet.unify_taxon_namespaces:return": (1500, 12000), "hook:TreeArray.__add__:return": (170, 1360),
              "hook:TreeArray.__iadd__:return": (150, 1200), "hook:TreeArray.add_tree:return": (1300, 10400),
              "hook:TreeArray.add_trees:return": (380, 3040), "hook:TreeArray.append:return": (220, 1760),
              "hook:TreeArray.extend:return": (170, 1360), "hook:TreeArray.from_tree_list:return": (150, 1200),
              "hook:TreeArray.insert:return": (460, 3680), "hook:TreeArray.read:return": (810, 6480),
              "hook:TreeArray.read_from_files:return": (390, 3120), "hook:TreeArray.update:return": (340, 2720),
              "hook:TreeList.__add__:return": (3700, 29600), "hook:TreeList.__iadd__:return": (3700, 29600),
              "hook:TreeList.__setitem__:return": (6200, 49600), "hook:TreeList.append:return": (9600, 76800),
              "hook:TreeList.as_tree_array:return": (160, 1280), "hook:TreeList.clear:return": (700, 5600),
              "hook:TreeList.extend:return": (3600, 28800), "hook:TreeList.get:return": (2600, 20800),
              "hook:TreeList.insert:return": (5000, 40000), "hook:TreeList.migrate_taxon_namespace:return": (4200, 33600),
              "hook:TreeList.new_tree:return": (2300, 18400), "hook:TreeList.pop:return": (1300, 10400),
              "hook:TreeList.read:return": (5100, 40800), "hook:TreeList.reconstruct_taxon_namespace:return": (2500, 20000),
              "hook:TreeList.update_taxon_namespace:return": (2500, 20000), "item:add-judged": (26000, 208000),
              "item:distinct-judged": (14000, 112000), "item:memo-judged": (1300, 10400), "item:same-judged": (85000, 680000),
              "item:taxonless-judged": (150000, 1200000), "item:unify-judged": (200000, 1600000),
              "list-content-judged": (74000, 592000), "matrix-rows-judged": (13000, 104000), "op-applied": (120000, 960000),
              "read-into-given-namespace-judged": (8200, 65600), "read-judged": (14000, 112000),
              "read-matrix-judged": (5300, 42400), "split-distribution-namespace-judged": (150, 1200),
              "unify-judged": (1700, 13600)}
ASSUMPTIONS = ["TaxonNamespace membership/iteration and taxon_bitmask are taken as given (their own consistency is C10)",
               "the case rule of a namespace is: exact comparison if is_case_sensitive else comparison of str.lower()",
               "snapshots read raw fields (_seed_node, _child_nodes, node.taxon, _trees, _taxon_sequence_map, _tree_leafset_bitmasks, "
               "_tree_split_bitmasks, _tree_edge_lengths, _tree_weights)",
               "a namespace with is_mutable=False cannot gain members; a call that would need a new member there may refuse with "
               "ImmutableTaxonNamespaceError",
               "a terminating container operation of these sizes needs less than a tenth of the logical step budget"]
LEVEL_TEXT = ("Runtime monitors (hooks on the real container methods; closure / frame / provenance oracles over raw-field snapshots of "
              "every live container; a logical step budget per operation) observe the real library under generated operation histories; "
              "the property held on the executions listed in the evidence file, nothing more.")
LEVEL_NOTE = ("Trusted: the snapshot and oracle code in vf/props/_c11_util.py, the hand-written document builders in _c11_docs.py, "
              "TaxonNamespace iteration/membership and taxon_bitmask (their consistency is C10), CPython; histories are sampled, "
              "coverage is what the workload reached (see evidence).")
CASE_TIMEOUT = 120


class Driver(DriverBase, ListOps, MatrixOps, DataSetOps, ArrayOps):
    pass


# ------------------------------------------------------------------------------------------------
WEIGHTS = [("append", 10), ("insert", 6), ("extend", 8), ("add", 4), ("setitem", 4), ("setslice", 5), ("getslice", 2),
           ("read", 8), ("get", 4), ("new_tree", 3), ("remove", 6), ("migrate", 5), ("reconstruct", 3), ("update", 3),
           ("ctor", 3), ("m_assign", 6), ("m_from_dict", 4), ("m_migrate", 5), ("m_get", 3), ("m_ctor", 2),
           ("d_new_tree_list", 4), ("d_new_char_matrix", 4), ("d_add", 2), ("d_attach", 1), ("d_detach", 1), ("d_read", 6),
           ("d_get", 1), ("d_unify", 3), ("d_ctor", 1),
           ("a_add_tree", 4), ("a_read", 3), ("a_merge", 3), ("a_from_list", 1)]
NEEDS_NOTHING = ("get", "ctor", "m_get", "m_ctor", "m_from_dict", "d_get", "d_ctor")


def random_setup(rng, uni):
    ops = []
    n_ns = rng.randint(2, 4)
    for i in range(n_ns):
        cs = rng.random() < 0.3
        labels = rng.sample(uni, rng.randint(0, len(uni) // 2)) if rng.random() > 0.2 else []
        if not cs and rng.random() < 0.8:
            labels = U.canon_distinct(labels)
        ops.append({"op": "mk_ns", "cs": cs, "labels": labels, "frozen": len(labels) >= 2 and rng.random() < 0.13})
    for _ in range(rng.randint(1, 3)):
        ops.append({"op": "mk_list", "ns": rng.randrange(n_ns), "sub": rng.random() < 0.2})
    for _ in range(rng.randint(0, 2)):
        ops.append({"op": "mk_matrix", "ns": rng.randrange(n_ns), "dtype": rng.choice(["dna", "dna", "protein", "standard", "continuous"])})
    if rng.random() < 0.65:
        ops.append({"op": "mk_dataset", "attach": rng.randrange(n_ns) if rng.random() < 0.7 else None})
    for _ in range(rng.choice([0, 0, 0, 1, 1, 2])):
        ops.append({"op": "mk_array", "ns": rng.randrange(n_ns)})
    return ops


def next_op(rng, w):
    names, weights = [], []
    for name, wt in WEIGHTS:
        if name in NEEDS_NOTHING:
            pass
        elif name.startswith("m_"):
            if not w.mats:
                continue
        elif name.startswith("d_"):
            if not w.datasets:
                continue
        elif name == "a_from_list":
            if not w.lists:
                continue
        elif name.startswith("a_"):
            if not w.arrays:
                continue
        elif not w.lists:
            continue
        names.append(name)
        weights.append(wt)
    return {"op": rng.choices(names, weights)[0]}


# directed witness scripts: (name, [operation descriptors])
def T(ns, labels, shape=1, itax=()):
    return {"ns": ns, "labels": list(labels), "itax": list(itax), "shape": shape}


def NSOP(labels, cs=False, frozen=False):
    return {"op": "mk_ns", "cs": cs, "labels": list(labels), "frozen": frozen}


def DOC(schema, colls=(), mats=(), **kw):
    d = {"schema": schema, "colls": [[T(None, l, k + 1) for k, l in enumerate(c)] for c in colls],
         "mats": [{"rows": list(r), "dtype": kw.pop("dtype", "dna"), "seqs": [900 + 10 * i + j for j in range(len(r))]} for i, r in enumerate(mats)]}
    d.update(kw)
    return d


PLAIN = {"srckind": "data", "foreign_kw": False, "coff": None, "toff": None}

DIRECTED = [
    # a NeXML source read into a list whose namespace already knows some of the labels
    ("nexml-read-into-populated-list", [
        NSOP(["ant", "bee"]),
        {"op": "mk_list", "ns": 0},
        {"op": "append", "l": 0, "t": T(0, ["ant", "bee"]), "strategy": "migrate", "unify": True, "memo": False},
        dict(PLAIN, op="read", l=0, doc=DOC("nexml", [[["ant", "bee", "cat"]]]))]),
    ("nexml-get-into-populated-namespace", [
        NSOP(["ant", "bee"]),
        dict(PLAIN, op="get", ns=0, doc=DOC("nexml", [[["bee", "cat"]]]), sub=False, legacy_kw=False)]),
    # TreeList.get / CharacterMatrix.get into a namespace that is passed in but still empty
    ("get-into-empty-given-namespace", [
        NSOP([]),
        dict(PLAIN, op="get", ns=0, doc=DOC("newick", [[["ant", "bee"], ["bee", "cat"]]]), sub=False, legacy_kw=False),
        dict(PLAIN, op="get", ns=0, doc=DOC("nexus", [[["Ant", "cat"]]], taxa="none", translate=False), sub=False, legacy_kw=False),
        dict(PLAIN, op="m_get", ns=0, dtype="dna", moff=None, doc=DOC("fasta", [], [["ant", "dog"]])),
        dict(PLAIN, op="m_get", ns=0, dtype="dna", moff=None, doc=DOC("phylip", [], [["dog", "eel"]], interleave=False, strict=False))]),
    # collection_offset / tree_offset: the reader builds separate lists, the selected trees join the target
    ("read-with-collection-and-tree-offset", [
        NSOP(["bee", "Ant"]),
        {"op": "mk_list", "ns": 0},
        dict(PLAIN, op="read", l=0, coff=0, toff=1, doc=DOC("nexus", [[["ant", "bee", "cat"], ["ant", "bee"]], [["cat", "dog"]]], taxa="none", translate=False)),
        dict(PLAIN, op="read", l=0, coff=-1, doc=DOC("nexml", [[["ant", "eel"]], [["cat", "fox"]]])),
        dict(PLAIN, op="get", ns=0, coff=1, doc=DOC("nexus", [[["ant", "bee"]], [["gnu", "bee"]]], taxa="one", translate=True), sub=False, legacy_kw=False)]),
    # a matrix whose taxa are members already is rebuilt / unified
    ("matrix-reconstruct-when-consistent", [
        NSOP(["ant", "bee"]),
        {"op": "mk_matrix", "ns": 0},
        {"op": "m_from_dict", "into": "matrix", "m": 0, "labels": ["ant", "bee"], "taxon_key": False},
        {"op": "m_migrate", "m": 0, "how": "reconstruct", "ns": 0, "unify": True, "memo": False}]),
    # taxon_mapping_memo handed to the matrix / list rebuilders: the target given by the mapping must become a member
    ("reconstruct-with-mapping-memo", [
        NSOP(["ant", "bee"]),
        NSOP([]),
        {"op": "mk_matrix", "ns": 0},
        {"op": "mk_list", "ns": 0},
        {"op": "m_from_dict", "into": "matrix", "m": 0, "labels": ["ant", "bee"], "taxon_key": False},
        {"op": "append", "l": 0, "t": T(0, ["ant", "bee"]), "strategy": "migrate", "unify": True, "memo": False},
        {"op": "m_migrate", "m": 0, "how": "reconstruct", "ns": 1, "unify": True, "memo": True, "memo_key": "used", "memo_i": 0, "memo_to": "new"},
        {"op": "reconstruct", "l": 0, "ns": 1, "unify": True, "memo": True, "memo_key": "used", "memo_i": 1, "memo_to": "new"},
        {"op": "m_migrate", "m": 0, "how": "migrate", "ns": 0, "unify": False, "memo": True, "memo_key": "used", "memo_i": 0, "memo_to": "third", "memo_o": 0, "memo_j": 0}]),
    ("dataset-unify-into-namespace-of-own-matrix", [
        NSOP(["ant", "bee"]),
        NSOP([]),
        {"op": "mk_matrix", "ns": 0},
        {"op": "mk_list", "ns": 1},
        {"op": "m_from_dict", "into": "matrix", "m": 0, "labels": ["ant", "bee"], "taxon_key": False},
        {"op": "append", "l": 0, "t": T(1, ["ant", "cat"]), "strategy": "migrate", "unify": True, "memo": False},
        {"op": "mk_dataset", "attach": None},
        {"op": "d_add", "d": 0, "k": 0},
        {"op": "d_add", "d": 0, "k": 0},
        {"op": "d_unify", "d": 0, "given": True, "ns": 0, "via": "unify", "attach": "default", "cslm": False}]),
    ("matrix-migrate-back-to-namespace-that-shares-its-taxa", [
        NSOP(["ant", "bee"]),
        NSOP([]),
        {"op": "mk_matrix", "ns": 0},
        {"op": "m_from_dict", "into": "matrix", "m": 0, "labels": ["ant", "bee"], "taxon_key": False},
        {"op": "m_migrate", "m": 0, "how": "update", "ns": 1},
        {"op": "m_migrate", "m": 0, "how": "migrate", "ns": 0, "unify": True, "memo": False}]),
    ("matrix-reconstruct-after-reassignment-refused", [
        NSOP(["ant", "bee"]),
        NSOP([]),
        {"op": "mk_matrix", "ns": 0},
        {"op": "m_from_dict", "into": "matrix", "m": 0, "labels": ["ant", "bee"], "taxon_key": False},
        {"op": "m_migrate", "m": 0, "how": "update", "ns": 1},
        {"op": "m_from_dict", "into": "matrix", "m": 0, "labels": ["cat"], "taxon_key": False},
        {"op": "m_migrate", "m": 0, "how": "reconstruct", "ns": 0, "unify": True, "memo": False}]),
    # rows that differ in case only, moved to a case-insensitive namespace: the refusal is legitimate
    ("matrix-migrate-with-case-collision", [
        NSOP(["ant", "Ant", "bee"], cs=True),
        NSOP([]),
        {"op": "mk_matrix", "ns": 0},
        {"op": "m_from_dict", "into": "matrix", "m": 0, "labels": ["bee"], "taxon_key": False},
        {"op": "m_assign", "m": 0, "via": "setitem", "key": "index", "k": 0},
        {"op": "m_assign", "m": 0, "via": "setitem", "key": "index", "k": 1},
        {"op": "m_migrate", "m": 0, "how": "migrate", "ns": 1, "unify": True, "memo": False}]),
    # the same legitimate refusal in the middle of DataSet.unify_taxon_namespaces (attached mode)
    ("dataset-unify-refused-midway", [
        NSOP(["ant", "Ant", "bee"], cs=True),
        {"op": "mk_dataset", "attach": 0},
        {"op": "d_new_tree_list", "d": 0, "src": "list", "ts": [T(0, ["ant", "bee"])]},
        {"op": "d_new_char_matrix", "d": 0, "src": "empty", "type": "class", "dtype": "dna"},
        {"op": "m_assign", "m": 0, "via": "setitem", "key": "index", "k": 0},
        {"op": "m_assign", "m": 0, "via": "setitem", "key": "index", "k": 1},
        {"op": "m_assign", "m": 0, "via": "setitem", "key": "index", "k": 2},
        {"op": "d_unify", "d": 0, "given": False, "via": "unify", "attach": "default", "cslm": False}]),
    # unification of an attached data set without (re-)attaching; the legacy alias does the same by default
    ("dataset-unify-without-attaching", [
        NSOP(["ant", "bee"]),
        NSOP([]),
        {"op": "mk_dataset", "attach": 0},
        {"op": "d_new_tree_list", "d": 0, "src": "list", "ts": [T(0, ["ant", "bee"])]},
        {"op": "d_unify", "d": 0, "given": True, "ns": 1, "via": "unify", "attach": "no", "cslm": False}]),
    ("dataset-legacy-unify-taxa", [
        NSOP(["ant", "bee"]),
        NSOP([]),
        {"op": "mk_dataset", "attach": 0},
        {"op": "d_new_tree_list", "d": 0, "src": "list", "ts": [T(0, ["ant", "bee"])]},
        {"op": "d_unify", "d": 0, "given": True, "ns": 1, "via": "legacy", "attach": "default"}]),
    # the three spot probes of the design: +, slice assignment, insert(..., "add")
    ("add-slice-insert-spot-probes", [
        NSOP(["ant", "bee"]),
        NSOP(["bee", "cat"]),
        {"op": "mk_list", "ns": 0},
        {"op": "mk_list", "ns": 1},
        {"op": "append", "l": 0, "t": T(0, ["ant", "bee"]), "strategy": "migrate", "unify": True, "memo": False},
        {"op": "append", "l": 1, "t": T(1, ["bee", "cat", "Ant"]), "strategy": "migrate", "unify": True, "memo": False},
        {"op": "add", "l": 0, "src": "tl", "o": 1},
        {"op": "add", "l": 0, "src": "list", "ts": [T(1, ["cat", "dog"])]},
        {"op": "setslice", "l": 0, "a": 0, "b": 1, "st": None, "src": "list", "ts": [T(1, ["bee", "eel"]), T(-1, ["ANT"])]},
        {"op": "setslice", "l": 0, "a": 1, "b": 1, "st": None, "src": "tl", "o": 1},
        {"op": "setslice", "l": 0, "a": None, "b": None, "st": 2, "src": "tuple", "ts": [T(1, ["bee", "gnu"]), T(-1, ["hen"])]},
        {"op": "insert", "l": 0, "i": 0, "t": T(1, ["bee", "fox"]), "strategy": "add"},
        {"op": "remove", "l": 0, "how": "pop", "i": 0},
        {"op": "migrate", "l": 0, "ns": 1, "unify": False, "memo": False, "via": "call"},
        {"op": "append", "l": 1, "t": {"removed": 0}, "strategy": "migrate", "unify": True, "memo": False},
        {"op": "new_tree", "l": 1, "kind": "clone", "k": 0},
        {"op": "migrate", "l": 0, "via": "none", "unify": True},
        {"op": "migrate", "l": 0, "via": "assign", "ns": 0},
        {"op": "remove", "l": 0, "how": "clear"}]),
    # the receiver itself / an iterator as the source of an extension or a slice assignment
    ("extend-with-itself", [
        NSOP(["ant", "bee"]),
        {"op": "mk_list", "ns": 0},
        {"op": "append", "l": 0, "t": T(0, ["ant", "bee"]), "strategy": "migrate", "unify": True, "memo": False},
        {"op": "setslice", "l": 0, "a": 0, "b": 0, "st": None, "src": "self"},
        {"op": "add", "l": 0, "src": "self"},
        {"op": "extend", "l": 0, "via": "extend", "src": "self"}]),
    ("slice-assignment-from-an-iterator", [
        NSOP(["ant", "bee"]),
        {"op": "mk_list", "ns": 0},
        {"op": "append", "l": 0, "t": T(0, ["ant", "bee"]), "strategy": "migrate", "unify": True, "memo": False},
        {"op": "extend", "l": 0, "via": "iadd", "src": "gen", "ts": [T(-1, ["ant", "cat"])]},
        {"op": "setslice", "l": 0, "a": 0, "b": 1, "st": None, "src": "iter", "ts": [T(-1, ["ant", "dog"]), T(-1, ["bee", "dog"])]}]),
    # an immutable namespace as the target of a migration: a refusal must leave the container where it was
    ("migrate-into-immutable-namespace", [
        NSOP(["ant", "bee"], frozen=True),
        NSOP([]),
        {"op": "mk_list", "ns": 1},
        {"op": "append", "l": 0, "t": T(1, ["ant", "bee"]), "strategy": "migrate", "unify": True, "memo": False},
        {"op": "migrate", "l": 0, "ns": 0, "unify": True, "memo": False, "via": "call"},
        {"op": "migrate", "l": 0, "ns": 1, "unify": True, "memo": False, "via": "call"},
        {"op": "append", "l": 0, "t": T(1, ["ant", "cat"], 2), "strategy": "migrate", "unify": True, "memo": False},
        {"op": "migrate", "l": 0, "ns": 0, "unify": True, "memo": False, "via": "call"}]),
    ("matrix-migrate-into-immutable-namespace", [
        NSOP(["ant", "bee"], frozen=True),
        NSOP([]),
        {"op": "mk_matrix", "ns": 1},
        {"op": "m_from_dict", "into": "matrix", "m": 0, "labels": ["ant", "cat"], "taxon_key": False},
        {"op": "m_migrate", "m": 0, "how": "migrate", "ns": 0, "unify": True, "memo": False}]),
    ("dataset-attached-reads", [
        NSOP(["ant", "bee"]),
        {"op": "mk_dataset", "attach": 0},
        dict(PLAIN, op="d_read", d=0, exclude=None, doc=DOC("nexml", [[["Ant", "cat"]]], [["bee", "gnu"]])),
        dict(PLAIN, op="d_read", d=0, exclude=None, doc=DOC("nexus", [[["ant", "dog"]]], [["bee", "dog"]], taxa="one", translate=True, interleave=True)),
        dict(PLAIN, op="d_read", d=0, exclude=None, doc=DOC("nexus", [[["ant", "hen"]], [["hen", "ibis"]]], [["ant", "jay"], ["koi", "hen"]], taxa="two", translate=False)),
        dict(PLAIN, op="d_read", d=0, exclude=None, doc=DOC("fasta", [], [["ANT", "eel"]])),
        dict(PLAIN, op="d_read", d=0, exclude=None, doc=DOC("phylip", [], [["ant", "bee", "lynx"]], interleave=False, strict=True)),
        dict(PLAIN, op="d_read", d=0, exclude="chars", doc=DOC("nexus", [[["ant", "bee"]]], [["ant", "bee"]], taxa="none", datablock=True)),
        {"op": "d_new_tree_list", "d": 0, "src": "list", "ts": [T(-1, ["BEE", "fox"])]},
        {"op": "d_unify", "d": 0, "given": False, "via": "unify", "attach": "default", "cslm": True}]),
    ("phylip-interleaved-into-attached-namespace", [
        NSOP(["ant", "bee", "cat"]),
        {"op": "mk_dataset", "attach": 0},
        dict(PLAIN, op="d_read", d=0, exclude=None, doc=DOC("phylip", [], [["bee", "dog"]], interleave=True, strict=False))]),
    ("array-add-and-read", [
        NSOP(["ant", "bee"]),
        NSOP(["ant"]),
        {"op": "mk_array", "ns": 0},
        {"op": "a_add_tree", "a": 0, "via": "add_tree", "ts": [T(0, ["ant", "bee", "cat"])]},
        {"op": "a_add_tree", "a": 0, "via": "add_tree", "ts": [T(1, ["ant", "bee"])]},
        dict(PLAIN, op="a_read", a=0, via="read", ns_kw=False, docs=[DOC("newick", [[["ANT", "dog", "cat"]]])]),
        dict(PLAIN, op="a_read", a=0, via="read", ns_kw=False, toff=1, docs=[DOC("nexus", [[["bee", "eel"], ["ant", "cat"]]], taxa="none", translate=True)]),
        dict(PLAIN, op="a_read", a=0, via="files", ns_kw=True, kwns=0, toff=None, filekinds=["file", "path"],
             docs=[DOC("newick", [[["ant", "fox"]]]), DOC("newick", [[["bee", "fox"], ["cat", "fox"]]])]),
        {"op": "a_add_tree", "a": 0, "via": "insert", "i": 0, "ts": [T(0, ["dog", "eel"])]},
        {"op": "a_add_tree", "a": 0, "via": "insert", "i": 2, "ts": [T(0, ["ant", "eel", "fox"])]},
        {"op": "a_add_tree", "a": 0, "via": "add_trees", "iter": True, "ts": [T(0, ["ant", "bee"]), T(0, ["cat", "dog"], 2)]},
        {"op": "a_merge", "a": 0, "via": "add", "other": "self"}]),
    ("array-merge-over-another-namespace", [
        NSOP(["ant", "bee", "cat", "dog"]),
        NSOP(["dog", "cat", "bee", "ant"]),
        {"op": "mk_array", "ns": 0},
        {"op": "mk_array", "ns": 1},
        {"op": "a_add_tree", "a": 0, "via": "add_tree", "ts": [T(0, ["ant", "bee", "cat", "dog"])]},
        {"op": "a_add_tree", "a": 1, "via": "append", "ts": [T(1, ["ant", "bee", "cat"])]},
        {"op": "a_merge", "a": 0, "via": "extend", "other": "foreign", "reuse": True, "k": 0},
        {"op": "a_merge", "a": 0, "via": "add", "other": "foreign", "reuse": True, "k": 0},
        {"op": "a_merge", "a": 0, "via": "update", "other": "foreign", "reuse": True, "k": 0}]),
    ("tree-array-from-a-list", [
        NSOP(["ant", "bee"]),
        {"op": "mk_list", "ns": 0},
        {"op": "append", "l": 0, "t": T(0, ["ant", "bee", "cat"]), "strategy": "migrate", "unify": True, "memo": False},
        {"op": "append", "l": 0, "t": T(-1, ["bee", "dog"]), "strategy": "migrate", "unify": True, "memo": False},
        {"op": "a_from_list", "l": 0, "via": "from_tree_list"},
        {"op": "a_from_list", "l": 0, "via": "as_tree_array"},
        {"op": "a_from_list", "l": 0, "via": "split_distribution"}]),
]


def cases(tier, seed):
    for name, _ in DIRECTED:
        yield {"kind": "directed", "name": name, "seed": seed}
    n = 12000 if tier == "quick" else 160000
    for i in range(n):
        yield {"kind": "history", "i": i, "seed": seed}


def run_case(case, ctx):
    rng = random.Random("%s/%s" % (case["seed"], sorted((k, str(v)) for k, v in case.items())))
    mon = U.Monitor(ctx)
    with Hooks(ctx) as hooks:
        mon.install(hooks)
        drv = Driver(ctx, rng, mon)
        try:
            if case["kind"] == "directed":
                script = dict(DIRECTED)[case["name"]]
                import copy
                for d in copy.deepcopy(script):
                    drv.run(d)
                ctx.ev("directed-completed")
                ctx.sample({"kind": "directed", "name": case["name"], "ops": [d["op"] for d in script],
                            "world_after": drv.w.describe()})
            else:
                for d in random_setup(rng, drv.uni):
                    drv.run(d)
                n = rng.randint(10, 30 if ctx.tier == "quick" else 40)
                for k in range(n):
                    drv.run(next_op(rng, drv.w))
                ctx.ev("history-completed")
                if case["i"] < 3:
                    ctx.sample({"kind": "history", "universe": drv.uni, "ops": [d["op"] for d in drv.hist],
                                "world_after": drv.w.describe()})
        except Stop:
            ctx.ev("history-stopped")
        finally:
            mon.world = None
            drv.cleanup()
            if os.environ.get("C11_DEBUG_STEPS"):
                ctx.ev("steps-max-bucket:%d" % (drv.max_steps // 500))
