"""C06  Tree-sample summaries are independent of partitioning, order and scheduling.

Two workloads, both judged against the *serial* summary of the same sample (differential: exactness of the serial
summary is C05's business):

 library   (vf.props._c06_lib)  one case = one sample x one configuration (incl. the constructor-only age settings
           is_force_max_age / taxon_label_age_map / ultrametricity_precision) x one query vector (consensus threshold
           None .. 1.0, edge-length policy, summarize or not) x k sub-collections (some empty, explicit or implicit
           rooting) built ONCE through random construction routes and re-used by several HISTORIES.  A history
           interleaves merges in an arrival order (update / extend / += / + with the part on either side; one
           operator per history or a random one per step; results of a merge merged again; a part arriving twice;
           a += a), tree-level operations after merges (add_tree / append / insert at a position / add_trees) and
           warm queries between arrivals.  The harness tracks the expected tree sequence of every collection.
           Judged: the full public summary (split counts, frequencies, per-split multisets of edge lengths / node
           ages, consensus topology + supports + lengths/ages set on it, maximum credibility scores, MCCT / MSCT
           topology when the maximiser is unique, MCCT supports and - when one tree is the maximiser - lengths,
           topology frequencies) equals the serial one; every per-tree query at index i answers for the tree the
           history put there (stored rows, restore_tree topology + lengths, scores, arg-max index); merging never
           raises; a tree can be added after any merge.
           Engineering clauses (consequences of the statement on the state the property anchors, reported under
           their own keys): after every hooked merge / add_tree the four per-tree lists are equally long AND row-wise
           the concatenation of target and source, total_trees_counted == len, sum_of_tree_weights == sum of the
           weights, sizes add up, '+' returns a new collection (documented), a merged source answers as before
           (public state) so that it can be merged again.

 sumtrees  (vf.props._c06_st, vf.props._c06_driver)  real files, real worker processes.  The library's protocol is
           blocking work_queue.get() + one None sentinel per worker + one results_queue.put per worker; the driver
           enumerates schedules AT those suspension points: the order in which the get() calls are served (= which
           worker reads which file, who is left with a sentinel only) and the order of the put() calls (= arrival
           order), plus natural runs biased by delays and the regression fault 'a polling get raises queue.Empty'.
           Option vector per case: burn-in (also one that swallows whole sources), weighted trees, node ages, tip
           dates, edge-length policy, consensus threshold, summary target, quiet / progress-logging reader branch,
           NEXUS / Newick, a source without trees, -m N (N from 1 to more than the files) and -M.
           The recorded arrival log is checked offline (every file read exactly once, no tree lost after burn-in, no
           merge raised) and everything the parallel run reports (bipartition table, per-split multisets of lengths and
           ages, topology frequencies, summary tree with every annotation) must equal the serial run; both runs
           accept or both reject the input.  Wall clock never decides; the arrival log does.

Compatible collections = same namespace, same ignore/weight/age settings, rooting equal or undefined because empty."""
import random

from ._c06_lib import run_library, STYLES
from ._c06_st import run_sumtrees, SCHEDULES

PROP = "C06"
LEVEL_TEXT = ('Fault/schedule enumeration: (a) library level - histories over a pool of sub-collections (incl. empty ones, explicit/implicit rooting, '
              '8 construction routes) re-used across arrival orders: every order (<= 3 parts) or sampled orders x {update, extend, +=, +} pure or mixed per step, '
              'part on the left of +, merge results merged again, a part arriving twice, a += a, trees added/inserted after merges, warm queries between '
              'arrivals; constructor-only age settings, weights incl. 0/None, missing lengths, differing leaf sets, consensus thresholds None..1.0; after '
              'every hooked merge the per-tree lists are checked in length and row-wise; full public summary and every per-tree query (by index) equal to the '
              'serial collection; (b) real multi-process SumTrees runs: the order of the served work_queue.get() calls and of the results_queue.put() calls '
              'is enumerated through turn-taking gates at the two suspension points of the sentinel protocol (which worker reads which file, idle workers '
              'reporting first / in the middle / last), plus natural delayed runs and a spurious queue.Empty for polling readers; option vectors (burn-in, '
              'weights, node ages, tip dates, edge policies, thresholds, targets, logging reader, Newick, source without trees, -m 1..N, -M); offline check '
              'of the arrival log and equality of everything the parallel and the serial run report. Evidence lists the distinct (files-per-worker, '
              'arrival order) signatures observed and how many enumerated schedules were realised exactly.')
LEVEL_NOTE = ('Trusted: the serial summary as baseline (its exactness is C05); gates/delays only at queue get / result put, a gate that times out lets the run '
              'continue freely (recorded); the OS scheduler decides the rest - the arrival log, not wall clock, decides the verdict. Engineering clauses on private '
              'per-tree lists are the anchored state of the property and carry their own keys.')
LEVEL = "fault_enumeration"
TECHNIQUE = ("runtime monitoring with schedule/fault injection: hooked TreeArray merges inside generated histories (merges, tree-level operations, warm queries) "
             "with a lock-step model of the expected tree sequence; real multi-process SumTrees runs with the get/put order of the sentinel protocol enumerated "
             "by turn-taking gates, offline check of the recorded arrival log against the serial run")
RULE = ("library: (sample, settings, query vector, partition incl. empty parts, construction routes, history = arrival order x operator(s) x tree-level "
        "operations x warm queries, explicit/implicit rooting); sumtrees: (files, option vector, worker count, rooting option, schedule = served-get order + "
        "put order | delay vector | spurious-empty fault). non-trivial = >= 2 non-empty parts, an empty part merged after a non-empty one, a tree added "
        "after a merge, or >= 2 trees inserted; distinct = distinct (history log, partition sizes, rootings, age mode) resp. distinct (files-per-worker, "
        "arrival order, options) signature actually observed in the arrival log")
REACH = ["treecollectionmodel:TreeArray.update", "treecollectionmodel:TreeArray.extend", "treecollectionmodel:TreeArray.__iadd__",
         "treecollectionmodel:TreeArray.__add__", "treecollectionmodel:SplitDistribution.update", "treecollectionmodel:TreeArray.add_tree",
         "treecollectionmodel:TreeArray.insert", "treecollectionmodel:TreeArray.append", "treecollectionmodel:TreeArray.add_trees",
         "treecollectionmodel:TreeArray.from_tree_list", "treecollectionmodel:TreeList.as_tree_array", "treecollectionmodel:TreeArray.read_from_files",
         "treecollectionmodel:TreeArray.validate_rooting", "treecollectionmodel:TreeArray.restore_tree",
         "treecollectionmodel:TreeArray.get_split_bitmask_and_edge_tuple", "treecollectionmodel:TreeArray.consensus_tree",
         "treecollectionmodel:TreeArray.calculate_log_product_of_split_supports", "treecollectionmodel:TreeArray.maximum_product_of_split_support_tree",
         "treecollectionmodel:SplitDistribution.calc_freqs"]
MIN_EVENTS = {"target-tree-summarised-directly": (1500, 8000), "merge-compared-with-serial": (1300, 10000), "source-unchanged-checked": (5000, 38000), "alignment-invariant-checked": (14000, 180000),
              "add_tree-row-checked": (8500, 140000), "empty-after-nonempty-merge": (1100, 7500), "per-tree-row-compared": (8000, 190000),
              "restored-topology-compared-with-source-spec": (8000, 190000), "history-compared:warm": (1100, 8500),
              "history-compared:tree-added-after-merge": (650, 5000), "history-compared:mixed-operators": (400, 3200), "history-compared:nested": (300, 2500),
              "part-on-the-left-of-plus": (330, 2600), "plus-result-identity-checked": (1800, 14000), "consensus-compared-below-half": (450, 3300),
              "mcct-edge-lengths-compared": (240, 1900), "part-merged-twice": (70, 550), "split-distribution-merge-compared": (50, 320),
              "part-built:add_trees": (180, 1100), "part-built:from_tree_list": (180, 1100), "part-built:as_tree_array": (180, 1100), "part-built:read": (130, 900),
              "part-built:insert": (180, 1100), "part-built:bipartitions-updated": (180, 1100),
              "sumtrees-parallel-run-compared": (20, 60), "sumtrees-idle-worker-arrived-after-nonempty": (12, 60), "sumtrees-idle-worker-arrived-first": (5, 20),
              "sumtrees-enumerated-schedule-realised": (6, 25), "sumtrees-compared:burnin": (3, 15), "sumtrees-compared:burnin-swallows-a-source": (1, 8),
              "sumtrees-compared:weighted": (2, 15), "sumtrees-compared:node-ages": (2, 7), "sumtrees-compared:logging-reader": (2, 9),
              "sumtrees-compared:newick": (1, 10), "sumtrees-compared:source-without-trees": (1, 4), "sumtrees-maximum-credibility-tree-compared": (3, 18)}
ASSUMPTIONS = ["the serial summary of the same trees is the baseline (its exactness is C05)",
               "schedules are imposed only at work_queue.get and results_queue.put (turn-taking with a time-out that releases the run, or delays); the spurious "
               "queue.Empty is raised only for non-blocking / timed polls, where multiprocessing.Queue documents it",
               "float summaries compared to 1e-9 relative (summation order differs between partitions); workloads are dyadic so that ties are exact",
               "clauses on the private per-tree lists, on size additivity, on '+' returning a new object and on sources staying unchanged are engineering "
               "clauses derived from the statement (aligned lists are the anchored state; a partial result may be merged more than once)"]
CASE_TIMEOUT = 240
SHARDS = {"quick": 16, "thorough": 16}

PAR_CONFS = [(2, ["-m", "3"]), (3, ["-m", "2"]), (3, ["-m", "5"]), (2, ["-m", "2"]), (4, ["-m", "3"]), (3, ["-m", "3"]), (4, ["-m", "6"])]
IDLE_CONFS = [(2, ["-m", "3"]), (3, ["-m", "5"]), (2, ["-m", "4"]), (4, ["-m", "6"])]
OTHER_CONFS = [(1, ["-m", "2"]), (2, ["-m", "1"]), (3, ["-M"]), (3, ["-m", "1"]), (2, ["-M"]), (4, ["-M"])]
ROOTINGS = [("--rooted", "R"), ("--unrooted", "U"), (None, "R"), (None, "U"), (None, ""), ("--rooted", ""), ("--unrooted", "R")]
PRESETS = [{}, {"burnin": 1}, {"weighted": True}, {"ages": "ultra"}, {"burnin": "swallow"}, {"quiet": False}, {"fmt": "newick"},
           {"ages": "tipdates"}, {"empty": "last"}, {"edges": "keep", "target": "mcct"}, {"minfreq": 0.25}, {"edges": "median-length"},
           {"burnin": 1, "weighted": True, "quiet": False}, {"empty": "middle", "burnin": 1}, {"minfreq": 1.0, "pct": True}, {"edges": "support", "fmt": "newick"},
           {"ages": "ultra", "edges": "median-age", "target": "mcct"}, {"empty": "first"}, {"edges": "clear", "target": "msct"}, {"minfreq": 0.34, "weighted": True}]


def _st_case(j, seed, rng, nfiles, mp, sched):
    opts = dict(PRESETS[(j + seed) % len(PRESETS)])
    target = opts.pop("target", None) or rng.choice([None, None, "mcct", "consensus"])
    for k, v in (("burnin", 1), ("weighted", True), ("quiet", False), ("fmt", "newick")):
        if k not in opts and rng.random() < 0.15:
            opts[k] = v
    ro, tok = ROOTINGS[(j + seed) % len(ROOTINGS)]
    if opts.get("ages"):
        ro, tok = rng.choice([("--rooted", "R"), (None, "R"), ("--rooted", "")])
    return {"kind": "sumtrees", "nfiles": nfiles, "mp": mp, "rooting": ro, "token": tok, "sched": sched, "target": target, "opts": opts, "i": j, "seed": seed}


def cases(tier, seed):
    quick = tier == "quick"
    i = 0
    for style, n in (("update", 170), ("extend", 170), ("iadd", 170), ("add", 220), ("mixed", 440), ("insert", 180)):
        for k in range(n if quick else 6 * n):
            yield {"kind": "library", "style": style, "i": i, "seed": seed}
            i += 1
    rng = random.Random("c06-sumtrees/%s" % seed)
    j = 0
    for n, sched in enumerate(SCHEDULES):
        confs = IDLE_CONFS if "idle" in sched else PAR_CONFS
        for c in range(2 if quick else 8):
            nfiles, mp = confs[(n + c + seed) % len(confs)]
            yield _st_case(j, seed, rng, nfiles, mp, sched)
            j += 1
    for c, (nfiles, mp) in enumerate(OTHER_CONFS):
        yield _st_case(j, seed, rng, nfiles, mp, ["natural", "spread/reverse-arrival", "random-assignment/random-arrival"][c % 3])
        j += 1
    if not quick:
        for k in range(60):
            nfiles = rng.randint(1, 4)
            mp = rng.choice([["-m", str(rng.randint(1, 6))], ["-m", str(rng.randint(2, 6))], ["-M"]])
            yield _st_case(j, seed, rng, nfiles, mp, rng.choice(["natural", "natural", "random-assignment/random-arrival"]))
            j += 1


def run_case(case, ctx):
    rng = random.Random("%s/%s" % (case["seed"], sorted((k, str(v)) for k, v in case.items())))
    if case["kind"] == "library":
        run_library(ctx, case, rng)
    else:
        run_sumtrees(ctx, case, rng)
