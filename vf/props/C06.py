"""C06  Tree-sample summaries are independent of partitioning, order and scheduling.

Two workloads, both judged against the *serial* summary of the same sample:

 library   random samples ("posterior-like": NNI walks around a base tree) are split into 1-6 sub-collections, some
           empty, each a TreeArray built with explicit or implicit rooting; the parts are merged in every / a random
           arrival order with update / extend / += / +, or the trees are inserted at random positions.  Hooks on
           TreeArray.update/extend/__iadd__/__add__/add_tree log (op, sizes, rootings); after every hooked call the
           alignment invariant is asserted (the four per-tree lists equally long, total_trees_counted == len,
           sum_of_tree_weights == sum of weights); at the end every per-tree query is run and the canonical summary
           (split counts, frequencies, per-split multisets of edge lengths / node ages, consensus topology + supports,
           maximum credibility score, MCCT topology when the maximiser is unique) is compared with the serial one.

 sumtrees  real files, real worker processes (vf.props._c06_driver): injected delays before a worker touches the queue
           and before it reports (the two existing suspension points), plus one injected fault - a spurious
           queue.Empty from get_nowait, which multiprocessing.Queue may legitimately produce - enumerate schedules:
           which worker reads which file, which reports first, idle workers first/last.  The recorded arrival log is
           checked offline (every file read exactly once, sum of partial sizes == number of trees, every worker
           reported, no merge raised) and the parallel summary (bipartition table + summary tree with supports) must
           equal the serial one.  Wall clock never decides; the arrival log does.

Compatible collections = same namespace, same ignore/weight flags, rooting equal or undefined because empty."""
import itertools
import json
import os
import random
import shutil
import subprocess
import sys
import tempfile

from .. import ref, gen, bridge, core
from ..mon.hooks import Hooks

PROP = "C06"
LEVEL_TEXT = 'Fault/schedule enumeration: (a) library level - every arrival order (<= 3 parts) or sampled orders of partitions incl. empty parts x 4 merge operators x explicit/implicit rooting, alignment invariant after every hooked merge, sources unchanged, summary equal to the serial one; (b) real multi-process SumTrees runs under a fixed dozen (quick) of per-worker delay vectors at the two existing suspension points plus an injected spurious queue.Empty, offline check of the recorded arrival log (every file exactly once, no loss, every worker reported) and equality of the parallel and serial summaries. Evidence lists the distinct (files-per-worker, arrival order) signatures actually observed.'
LEVEL_NOTE = 'Trusted: the serial summary as baseline (its exactness is C05); delays only before queue get / result put; OS scheduler decides the rest - the arrival log, not wall clock, decides the verdict.'
LEVEL = "fault_enumeration"
TECHNIQUE = ("runtime monitoring with schedule/fault injection: hooked TreeArray merges under enumerated partitions and arrival orders; "
             "real multi-process SumTrees runs under injected delays/spurious queue.Empty, offline check of the recorded arrival log against the serial run")
RULE = ("library: (sample, partition incl. empty parts, merge order, operator, explicit/implicit rooting); sumtrees: (files, workers, "
        "rooting option, schedule vector of per-worker pre/post delays and spurious-empty faults). non-trivial = >= 2 non-empty parts or an "
        "empty part merged after a non-empty one; distinct = distinct (partition sizes, arrival order, operator, rooting) resp. distinct "
        "(files-per-worker, arrival order) signature actually observed in the arrival log")
REACH = ["treecollectionmodel:TreeArray.update", "treecollectionmodel:TreeArray.extend", "treecollectionmodel:TreeArray.__iadd__",
         "treecollectionmodel:TreeArray.__add__", "treecollectionmodel:SplitDistribution.update", "treecollectionmodel:TreeArray.add_tree",
         "treecollectionmodel:TreeArray.insert", "treecollectionmodel:TreeArray.validate_rooting"]
MIN_EVENTS = {"merge-compared-with-serial": (300, 3000), "source-unchanged-checked": (500, 5000), "alignment-invariant-checked": (2000, 20000),
              "empty-after-nonempty-merge": (50, 1000), "sumtrees-parallel-run-compared": (20, 200),
              "sumtrees-idle-worker-arrived-after-nonempty": (3, 20), "sumtrees-idle-worker-arrived-first": (3, 20)}
ASSUMPTIONS = ["the serial summary of the same trees is the baseline (its exactness is C05)",
               "delays are injected only before queue.get and before results_queue.put; the spurious queue.Empty models the documented feeder-thread latency of multiprocessing.Queue",
               "float summaries compared to 1e-9 relative (summation order differs between partitions)"]
CASE_TIMEOUT = 240
SHARDS = {"quick": 16, "thorough": 16}


def close(a, b):
    if a == b:
        return True
    if a is None or b is None:
        return False
    return abs(a - b) <= 1e-9 * max(1.0, abs(a), abs(b))


# ------------------------------------------------------------------------------------------------
def sample_specs(rng, ntax, ntrees, ultrametric):
    base = gen.random_spec(rng, ntax, p_poly=0.1)
    out = []
    cur = base
    for i in range(ntrees):
        if rng.random() < 0.5:
            cur = gen.nni(cur, rng)
        if rng.random() < 0.1:
            cur = base
        s = ref.copy(cur)
        if ultrametric:
            gen.ultrametric_lengths(s, rng, dyadic=True)
        else:
            gen.decorate_lengths(s, rng, rng.choice(["dyadic", "ints", "unit"]))
        out.append(s)
    return out


def canonical_summary(ctx, ta, where, det):
    """summary of a TreeArray through its public queries; None + violation when a query fails."""
    sd = ta.split_distribution
    out = {}
    try:
        out["n"] = len(ta)
        out["counts"] = dict(sd.split_counts)
        out["freqs"] = dict((s, sd[s]) for s in sd.split_counts)
        out["lengths"] = dict((s, sorted(v)) for s, v in sd.split_edge_lengths.items() if s in sd.split_counts and v)
        out["ages"] = dict((s, sorted(v)) for s, v in sd.split_node_ages.items() if s in sd.split_counts and v)
        if len(ta) == 0:
            return out
        ct = ta.consensus_tree(min_freq=0.5)
        cs = bridge.extract(ct)
        rooted = bool(ta.is_rooted_trees)
        out["consensus"] = ref.topology(cs, rooted)
        sup = {}
        cl = dict((id(n), c) for n, c in ref.clades(cs))
        spec, nodes = bridge.extract(ct, with_nodes=True)
        cl = dict((id(n), c) for n, c in ref.clades(spec))
        for s, nd in nodes:
            a = nd.annotations.get_value("support", None)
            if a is not None:
                key = cl[id(s)] if rooted else ref.usplit(cl[id(s)], cl[id(spec)])
                sup[key] = float(a)
        out["supports"] = sup
        out["consensus_rooting"] = ct.is_rooted
        scores, idx = ta.calculate_log_product_of_split_supports()
        out["mcc_score"] = max(scores)
        out["scores_sorted"] = sorted(scores)
        best = [i for i, x in enumerate(scores) if close(x, out["mcc_score"])]
        tops = set(frozenset(ta._tree_split_bitmasks[i]) for i in best)
        out["mcct_unique"] = len(tops) == 1
        mt = ta.maximum_product_of_split_support_tree()
        out["mcct"] = ref.topology(bridge.extract(mt), rooted)
        s2, idx2 = ta.calculate_sum_of_split_supports()
        out["msc_score"] = max(s2)
        # per-tree queries
        for i in range(len(ta)):
            t = ta[i] if False else ta.restore_tree(i)
        out["topologies"] = len(ta.topologies())
        out["bef"] = sorted(ta.bipartition_encoding_frequencies().values())
    except core.CaseTimeout:
        raise
    except Exception as e:
        ctx.violation("%s|query-fails-after-merge|%s" % (where, core.exc_key(e)),
                      "per-tree / summary query failed: %s" % core.exc_brief(e), det)
        return None
    return out


def compare_summaries(ctx, a, b, where, det):
    """a = serial baseline, b = merged.  First difference is the witness."""
    def diff(clause, msg):
        ctx.violation("%s|summary-differs|%s" % (where, clause), msg, det)
        return False
    if a["n"] != b["n"]:
        return diff("tree-count", "%d trees vs %d" % (a["n"], b["n"]))
    if set(a["counts"]) != set(b["counts"]):
        return diff("split-set", "different sets of counted splits")
    for s in a["counts"]:
        if not close(a["counts"][s], b["counts"][s]):
            return diff("split-counts", "count of split %s: %r vs %r" % (bin(s), a["counts"][s], b["counts"][s]))
        if not close(a["freqs"][s], b["freqs"][s]):
            return diff("split-frequencies", "frequency of split %s: %r vs %r" % (bin(s), a["freqs"][s], b["freqs"][s]))
    for k in ("lengths", "ages"):
        if set(a[k]) != set(b[k]):
            return diff(k + "-keys", "different splits carry %s" % k)
        for s in a[k]:
            if len(a[k][s]) != len(b[k][s]) or any(not close(x, y) for x, y in zip(a[k][s], b[k][s])):
                return diff("split-" + k, "multiset of %s of split %s differs" % (k, bin(s)))
    if a["n"] == 0:
        return True
    if a["consensus"] != b["consensus"]:
        return diff("consensus-topology", "consensus trees differ")
    if a["consensus_rooting"] != b["consensus_rooting"]:
        return diff("consensus-rooting", "consensus rooting %r vs %r" % (a["consensus_rooting"], b["consensus_rooting"]))
    if set(a["supports"]) != set(b["supports"]) or any(not close(a["supports"][k], b["supports"][k]) for k in a["supports"]):
        return diff("consensus-supports", "support values differ")
    if not close(a["mcc_score"], b["mcc_score"]) or not close(a["msc_score"], b["msc_score"]):
        return diff("max-credibility-score", "%r vs %r" % (a["mcc_score"], b["mcc_score"]))
    if len(a["scores_sorted"]) != len(b["scores_sorted"]) or any(not close(x, y) for x, y in zip(a["scores_sorted"], b["scores_sorted"])):
        return diff("per-tree-scores", "multisets of per-tree scores differ")
    if a["mcct_unique"] and b["mcct_unique"] and a["mcct"] != b["mcct"]:
        return diff("mcct-topology", "maximum credibility topology differs although the maximiser is unique")
    if a["topologies"] != b["topologies"] or len(a["bef"]) != len(b["bef"]) or any(not close(x, y) for x, y in zip(a["bef"], b["bef"])):
        return diff("topology-frequencies", "topology frequency tables differ")
    return True


def install_alignment_monitor(ctx, hooks):
    import dendropy

    def check(ta, tag, det=None):
        ctx.ev("alignment-invariant-checked")
        n = len(ta._tree_split_bitmasks)
        lens = (len(ta._tree_edge_lengths), len(ta._tree_leafset_bitmasks), len(ta._tree_weights))
        if any(x != n for x in lens):
            ctx.violation("%s|per-tree-lists-misaligned" % tag,
                          "split/edge-length/leafset/weight lists have lengths %s" % ((n,) + lens,), det)
            return
        sd = ta._split_distribution
        if sd.total_trees_counted != n:
            ctx.violation("%s|total_trees_counted-wrong" % tag, "total_trees_counted=%r for %d trees" % (sd.total_trees_counted, n), det)
        if not close(sd.sum_of_tree_weights, sum(ta._tree_weights)):
            ctx.violation("%s|sum_of_tree_weights-wrong" % tag, "sum_of_tree_weights=%r, weights sum to %r" % (sd.sum_of_tree_weights, sum(ta._tree_weights)), det)

    def mk(tag):
        def pre(ta, args, kw):
            other = args[0] if args else None
            return {"len": len(ta), "rooting": ta._is_rooted_trees,
                    "olen": len(other) if isinstance(other, dendropy.TreeArray) else None,
                    "orooting": getattr(other, "_is_rooted_trees", None)}

        def post(snap, ta, args, kw, result, exc):
            det = {"op": tag, "before": snap}
            if exc is not None:
                return
            if snap["olen"] == 0 and snap["len"] > 0:
                ctx.ev("empty-after-nonempty-merge")
            target = result if tag == "TreeArray.__add__" else ta
            check(target, tag, det)
            if snap["olen"] is not None and tag != "TreeArray.__add__" and len(ta) != snap["len"] + snap["olen"]:
                ctx.violation("%s|size-not-additive" % tag, "%d + %d -> %d" % (snap["len"], snap["olen"], len(ta)), det)
        return pre, post
    for name in ("update", "extend", "__iadd__", "__add__"):
        pre, post = mk("TreeArray." + name)
        hooks.install(dendropy.TreeArray, name, pre=pre, post=post)

    def post_add(snap, ta, args, kw, result, exc):
        if exc is None:
            check(ta, "TreeArray.add_tree")
    hooks.install(dendropy.TreeArray, "add_tree", post=post_add)


def new_array(ns, rooted, explicit, cfg):
    import dendropy
    return dendropy.TreeArray(taxon_namespace=ns, is_rooted_trees=(rooted if explicit else None),
                              ignore_edge_lengths=cfg["ignore_edge_lengths"], ignore_node_ages=cfg["ignore_node_ages"],
                              use_tree_weights=cfg["use_tree_weights"])


def run_library(ctx, case, rng):
    import dendropy
    quick = ctx.tier == "quick"
    ntax = rng.choice([4, 5, 6, 8]) if quick else rng.choice([4, 6, 9, 14, 20])
    ntrees = rng.choice([0, 1, 2, 3, 5, 8, 12, 20]) if quick else rng.choice([0, 1, 2, 4, 9, 20, 45, 80])
    rooted = rng.random() < 0.5
    ages = rooted and rng.random() < 0.5
    cfg = {"ignore_edge_lengths": rng.random() < 0.2, "ignore_node_ages": not ages, "use_tree_weights": rng.random() < 0.7}
    specs = sample_specs(rng, ntax, ntrees, ages)
    labels = sorted(ref.leaf_taxa(specs[0])) if specs else ["T%d" % i for i in range(ntax)]
    ns = dendropy.TaxonNamespace(labels)
    wmode = rng.choice(["none", "equal", "random", "dominant"])
    trees = []
    for i, s in enumerate(specs):
        t = bridge.build_tree(s, ns, rooted)
        if wmode == "equal":
            t.weight = 2.0
        elif wmode == "random":
            t.weight = rng.randint(1, 8) / 4.0
        elif wmode == "dominant":
            t.weight = 50.0 if i == 0 else 0.5
        trees.append(t)
    det = {"ntax": ntax, "ntrees": ntrees, "rooted": rooted, "cfg": cfg, "weights": wmode}
    with Hooks(ctx) as hooks:
        install_alignment_monitor(ctx, hooks)
        serial = new_array(ns, rooted, True, cfg)
        for t in trees:
            serial.add_tree(t)
        base = canonical_summary(ctx, serial, "serial", det)
        if base is None:
            return
        mode = case["mode"]
        if mode == "insert":
            ta = new_array(ns, rooted, rng.random() < 0.5, cfg)
            order = list(range(len(trees)))
            rng.shuffle(order)
            for i in order:
                r = rng.random()
                if r < 0.4:
                    ta.insert(rng.randint(0, len(ta)), trees[i])
                elif r < 0.7:
                    ta.append(trees[i])
                else:
                    ta.add_tree(trees[i])
            d2 = dict(det, mode="insert/append/add in shuffled order")
            got = canonical_summary(ctx, ta, "insert", d2)
            if got is not None:
                ctx.ev("merge-compared-with-serial")
                compare_summaries(ctx, base, got, "insert", d2)
                if ntrees >= 2:
                    ctx.nontrivial(("insert", ntax, ntrees, rooted, tuple(order)))
            return
        # ---- partition + merge
        k = rng.randint(1, 6)
        sizes = [0] * k
        assign = []
        force_empty = rng.random() < 0.5 and k >= 2
        for i in range(len(trees)):
            j = rng.randrange(k - 1 if force_empty else k)
            assign.append(j)
            sizes[j] += 1
        explicit = [rng.random() < 0.5 for _ in range(k)]
        opname = case["op"]
        orders = list(itertools.permutations(range(k))) if k <= 3 else [tuple(rng.sample(range(k), k)) for _ in range(4)]
        if k <= 3 and len(orders) > 4 and quick:
            orders = rng.sample(orders, 4)
        # the sub-collections are built ONCE and re-used for every arrival order: merging must not consume or
        # change its source, so the same partial results can be merged again elsewhere
        parts = [new_array(ns, rooted, explicit[j], cfg) for j in range(k)]
        for i, t in enumerate(trees):
            parts[assign[i]].add_tree(t)

        def part_state(ta):
            sd = ta.split_distribution
            return (len(ta), dict(sd.split_counts), dict((s, sorted(v)) for s, v in sd.split_edge_lengths.items() if v),
                    dict((s, sorted(v)) for s, v in sd.split_node_ages.items() if v), list(ta._tree_weights), ta._is_rooted_trees)
        before_parts = [part_state(p) for p in parts]
        for order in orders:
            master_explicit = rng.random() < 0.5
            master = new_array(ns, rooted, master_explicit, cfg)
            d2 = dict(det, op=opname, part_sizes=[sizes[j] for j in order], explicit_rooting=[explicit[j] for j in order],
                      master_explicit_rooting=master_explicit)
            failed = False
            for j in order:
                try:
                    if opname == "update":
                        master.update(parts[j])
                    elif opname == "extend":
                        master.extend(parts[j])
                    elif opname == "iadd":
                        master += parts[j]
                    else:
                        master = master + parts[j]
                except core.CaseTimeout:
                    raise
                except Exception as e:
                    ctx.violation("%s|merge-of-compatible-collections-raises|%s" % (opname, core.exc_key(e)),
                                  "merging a part of %d trees (rooting %r) into a collection of %d (rooting %r) raised %s" % (
                                      len(parts[j]), parts[j]._is_rooted_trees, len(master), master._is_rooted_trees, core.exc_brief(e)), d2)
                    failed = True
                    break
            if failed:
                continue
            got = canonical_summary(ctx, master, opname, d2)
            if got is None:
                continue
            ctx.ev("merge-compared-with-serial")
            compare_summaries(ctx, base, got, opname, d2)
            for j in range(k):
                ctx.ev("source-unchanged-checked")
                if part_state(parts[j]) != before_parts[j]:
                    ctx.violation("%s|merge-changes-its-source-collection" % opname,
                                  "a sub-collection of %d trees differs after it was merged into another collection" % sizes[j], d2)
                    before_parts[j] = part_state(parts[j])
            nonempty = [sizes[j] for j in order if sizes[j]]
            seen_nonempty = False
            empty_after = False
            for j in order:
                if sizes[j]:
                    seen_nonempty = True
                elif seen_nonempty:
                    empty_after = True
            if len(nonempty) >= 2 or empty_after:
                ctx.nontrivial(("merge", opname, tuple(sizes[j] for j in order), tuple(explicit[j] for j in order), rooted, master_explicit))
        if case["i"] < 2:
            ctx.sample({"kind": "library", "op": opname, "ntrees": ntrees, "part_sizes": sizes, "explicit_rooting": explicit,
                        "rooted": rooted, "orders": [list(o) for o in orders[:3]], "first_tree": ref.to_newick(specs[0]) if specs else None})


# ------------------------------------------------------------------------------------------------
def write_tree_file(path, specs, token, rng, weights=False):
    """NEXUS trees file written by the harness (not by the library's writer)."""
    def nwk(n):
        t = ""
        if n[3]:
            t = "(" + ",".join(nwk(c) for c in n[3]) + ")"
        if n[0] is not None:
            t += n[0]
        if n[2] is not None:
            t += ":%r" % float(n[2])
        return t
    with open(path, "w") as f:
        f.write("#NEXUS\nbegin trees;\n")
        for i, s in enumerate(specs):
            tok = {"R": "[&R] ", "U": "[&U] ", "": ""}[token]
            f.write("tree t%d = %s%s;\n" % (i, tok, nwk(s)))
        f.write("end;\n")


def parse_bip_table(path):
    rows = {}
    with open(path) as f:
        hdr = f.readline().rstrip("\n").split("\t")
        for line in f:
            p = line.rstrip("\n").split("\t")
            r = dict(zip(hdr, p))
            vals = []
            for k in hdr:
                if k in ("bipartitionGroup", "bipartitionId", "bipartitionBitmask", "bipartitionLeafset", "newick"):
                    continue
                try:
                    vals.append((k, float(r[k])))
                except ValueError:
                    vals.append((k, r[k]))
            rows[(r["bipartitionBitmask"], r["bipartitionLeafset"])] = vals
    return rows


def summary_tree_sig(path, rooted_hint):
    import dendropy
    tl = dendropy.TreeList.get(path=path, schema="nexus", extract_comment_metadata=True)
    out = []
    for t in tl:
        spec, nodes = bridge.extract(t, with_nodes=True)
        rooted = bool(t.is_rooted)
        cl = dict((id(n), c) for n, c in ref.clades(spec))
        sup = {}
        lens = {}
        for s, nd in nodes:
            key = cl[id(s)] if rooted else ref.usplit(cl[id(s)], cl[id(spec)])
            a = nd.annotations.get_value("support", None)
            if a is not None:
                sup[key] = float(a)
            if s[2] is not None:
                lens[key] = lens.get(key, 0) + s[2]
        out.append((rooted, ref.topology(spec, rooted), sup, lens))
    return out


SCHEDULES = [
    # name, per-worker schedule builder(nworkers) -> dict
    ("natural", lambda n, d: {}),
    ("first-worker-late-start", lambda n, d: {"Process-1": {"pre": 3 * d}}),
    ("all-but-last-late-start", lambda n, d: dict(("Process-%d" % (i + 1), {"pre": 3 * d}) for i in range(n - 1))),
    ("last-worker-late-start", lambda n, d: {"Process-%d" % n: {"pre": 3 * d}}),
    ("idle-worker-reports-last", lambda n, d: dict([("Process-%d" % (i + 1), {}) for i in range(n - 1)] + [("Process-%d" % n, {"pre": 2 * d, "post": 4 * d})])),
    ("idle-worker-reports-first", lambda n, d: dict([("Process-1", {"spurious_empty": 1})] + [("Process-%d" % (i + 2), {"pre": d, "post": 3 * d}) for i in range(n - 1)])),
    ("busy-worker-reports-late", lambda n, d: {"Process-1": {"post": 4 * d}, "Process-2": {"pre": d}}),
    ("spurious-empty-on-first-worker", lambda n, d: {"Process-1": {"spurious_empty": 1}}),
    ("spurious-empty-on-all-but-last", lambda n, d: dict(("Process-%d" % (i + 1), {"spurious_empty": 1}) for i in range(n - 1))),
    ("spurious-empty-on-every-worker", lambda n, d: dict(("Process-%d" % (i + 1), {"spurious_empty": 1}) for i in range(n))),
    ("staggered", lambda n, d: dict(("Process-%d" % (i + 1), {"pre": i * d, "post": (n - i) * d}) for i in range(n))),
    ("reverse-staggered", lambda n, d: dict(("Process-%d" % (i + 1), {"pre": (n - i) * d, "post": i * d}) for i in range(n))),
]


def run_sumtrees(ctx, case, rng):
    quick = ctx.tier == "quick"
    nfiles = case["nfiles"]
    nworkers = case["nworkers"]
    ntax = rng.choice([5, 6, 8])
    rooted_opt = case["rooting"]        # "--rooted" | "--unrooted" | None
    token = case["token"]               # "R" | "U" | ""
    if rooted_opt is None and token == "":
        eff_rooted = False
    elif rooted_opt is not None:
        eff_rooted = rooted_opt == "--rooted"
    else:
        eff_rooted = token == "R"
    base_names = ["T%d" % i for i in range(ntax)]
    tmp = tempfile.mkdtemp(prefix="vf-c06-")
    try:
        files = []
        total = 0
        for k in range(nfiles):
            n = rng.choice([1, 2, 4, 7])
            specs = sample_specs(rng, ntax, n, False)
            # same taxa everywhere
            for s in specs:
                pass
            p = os.path.join(tmp, "f%d.nex" % k)
            write_tree_file(p, specs, token, rng)
            files.append(p)
            total += n
        common = ["-q", "-r"]
        if rooted_opt:
            common.append(rooted_opt)
        if case.get("target"):
            common += ["-s", case["target"]]
        env = dict(os.environ)
        env["PYTHONPATH"] = core.VERIF
        env["VF_REPO_SRC"] = core.REPO_SRC

        def run(tag, extra, sched):
            log = os.path.join(tmp, tag + ".log.json")
            sp = os.path.join(tmp, tag + ".sched.json")
            with open(sp, "w") as f:
                json.dump(sched, f)
            args = [sys.executable, "-B", "-m", "vf.props._c06_driver", log, sp, "--"] + common + extra + \
                   ["-x", os.path.join(tmp, tag), "-o", os.path.join(tmp, tag + ".tre")] + files
            try:
                r = subprocess.run(args, cwd=tmp, env=env, stdout=subprocess.PIPE, stderr=subprocess.STDOUT, timeout=90)
            except subprocess.TimeoutExpired:
                return None, "timeout"
            if not os.path.exists(log):
                return None, "driver died: %s" % r.stdout.decode("utf-8", "replace")[-500:]
            with open(log) as f:
                return json.load(f), r.stdout.decode("utf-8", "replace")[-800:]
        ser, serout = run("ser", [], {})
        if ser is None:
            ctx.mark_inconclusive("serial sumtrees run: %s" % serout)
            return
        if ser["exit"] != 0:
            ctx.violation("sumtrees|serial-run-fails", "serial run failed: %s" % (ser.get("exception") or serout), {"case": case})
            return
        ser_table = parse_bip_table(os.path.join(tmp, "ser.bipartitions.tsv"))
        ser_tree = summary_tree_sig(os.path.join(tmp, "ser.tre"), eff_rooted)
        delay = 0.12 if quick else 0.2
        sname, sfn = SCHEDULES[case["sched"] % len(SCHEDULES)]
        sched = sfn(nworkers, delay)
        par, parout = run("par", ["-m", str(nworkers)], sched)
        det = {"files": nfiles, "trees_total": total, "workers": nworkers, "rooting_option": rooted_opt, "token": token,
               "schedule": sname, "sched": sched}
        if par is None:
            if parout == "timeout":
                # a parallel run that never finishes: workers retired / parent waits forever.  Wall clock is not a verdict.
                ctx.mark_inconclusive("parallel sumtrees run exceeded 90 s (schedule %s)" % sname)
            else:
                ctx.mark_inconclusive("parallel sumtrees run: %s" % parout)
            return
        arr = par["arrivals"]
        det["arrival_log"] = arr
        sig = (tuple(sorted((a["worker"] or "?", len(a["files"] or [])) for a in arr)),
               tuple((a["worker"], a["n_trees"]) for a in arr))
        ctx.state(("sched", nfiles, nworkers, sig))
        if par["exit"] != 0:
            raised = [a for a in arr if a.get("raised")]
            if raised:
                a = raised[0]
                kind = a["raised"].split(":")[0]
                empty_after = a["n_trees"] == 0 and a["master_len_before"] > 0
                ctx.violation("sumtrees|merge-raises|%s|%s" % (kind, "empty-partial-after-nonempty" if empty_after else "other"),
                              "collation of worker results raised %s" % a["raised"], det)
            else:
                ctx.violation("sumtrees|parallel-run-fails", "parallel run failed: %s" % (par.get("exception") or parout), det)
            return
        # ---- offline checks over the arrival log
        if nfiles == 1:
            # SumTrees documents that a single source is always analysed serially: no partial results to collate
            arr = []
            ctx.note("single-source-run-is-serial-by-design")
        else:
            ctx.ev("sumtrees-arrival-log-checked")
        seen_nonempty = False
        for i, a in enumerate(arr):
            if a["n_trees"] == 0 and seen_nonempty:
                ctx.ev("sumtrees-idle-worker-arrived-after-nonempty")
            if a["n_trees"] == 0 and not seen_nonempty and i == 0 and len(arr) > 1:
                ctx.ev("sumtrees-idle-worker-arrived-first")
            if a["n_trees"] > 0:
                seen_nonempty = True
        if nfiles > 1 and len(arr) != nworkers:
            ctx.violation("sumtrees|not-every-worker-reported", "%d arrivals for %d workers" % (len(arr), nworkers), det)
        read = [f for a in arr for f in (a["files"] or [])]
        if nfiles > 1 and sorted(read) != sorted(files):
            lost = sorted(set(files) - set(read))
            dup = sorted(f for f in set(read) if read.count(f) > 1)
            ctx.violation("sumtrees|files-not-read-exactly-once|%s" % ("lost" if lost else "duplicated"),
                          "files lost: %s, read twice: %s" % ([os.path.basename(x) for x in lost], [os.path.basename(x) for x in dup]), det)
            return
        if nfiles > 1 and sum(a["n_trees"] for a in arr) != total:
            ctx.violation("sumtrees|trees-lost-or-duplicated", "partial results hold %d trees, sources hold %d" % (sum(a["n_trees"] for a in arr), total), det)
            return
        # ---- summary equality
        par_table = parse_bip_table(os.path.join(tmp, "par.bipartitions.tsv"))
        par_tree = summary_tree_sig(os.path.join(tmp, "par.tre"), eff_rooted)
        ctx.ev("sumtrees-parallel-run-compared")
        ctx.nontrivial(("sumtrees", nfiles, nworkers, rooted_opt, token, sig))
        if set(ser_table) != set(par_table):
            ctx.violation("sumtrees|summary-differs|bipartition-set", "serial and parallel runs report different bipartitions", det)
            return
        for k in ser_table:
            for (name, x), (_, y) in zip(ser_table[k], par_table[k]):
                same = (x == y) if isinstance(x, str) or isinstance(y, str) else close(x, y)
                if not same and name.startswith("edgeLengthHpd"):
                    continue
                if not same:
                    ctx.violation("sumtrees|summary-differs|bipartition-table|%s" % name,
                                  "bipartition %s: %s serial %r parallel %r" % (k[0], name, x, y), det)
                    return
        if len(ser_tree) != len(par_tree):
            ctx.violation("sumtrees|summary-differs|number-of-summary-trees", "", det)
            return
        for (r1, top1, sup1, len1), (r2, top2, sup2, len2) in zip(ser_tree, par_tree):
            if r1 != r2:
                ctx.violation("sumtrees|summary-differs|rooting", "summary tree rooting differs", det)
            elif top1 != top2:
                ctx.violation("sumtrees|summary-differs|topology", "summary tree topology differs", det)
            elif set(sup1) != set(sup2) or any(not close(sup1[k], sup2[k]) for k in sup1):
                ctx.violation("sumtrees|summary-differs|supports", "support values differ", det)
            elif set(len1) != set(len2) or any(not close(len1[k], len2[k]) for k in len1):
                ctx.violation("sumtrees|summary-differs|edge-lengths", "summary edge lengths differ", det)
        if case["i"] < 3:
            ctx.sample({"kind": "sumtrees", "files": nfiles, "trees": total, "workers": nworkers, "rooting_option": rooted_opt,
                        "token": token, "schedule": sname, "arrival_log": [(a["worker"], a["n_trees"], [os.path.basename(f) for f in a["files"] or []]) for a in arr]})
    finally:
        shutil.rmtree(tmp, ignore_errors=True)


def cases(tier, seed):
    quick = tier == "quick"
    # directed: the confirmed mechanisms first
    i = 0
    for op in ("update", "extend", "iadd", "add"):
        for k in range(200 if quick else 800):
            yield {"kind": "library", "mode": "merge", "op": op, "i": i, "seed": seed}
            i += 1
    for k in range(300 if quick else 2000):
        yield {"kind": "library", "mode": "insert", "op": "-", "i": i, "seed": seed}
        i += 1
    # sumtrees: fixed dozen of schedules x a few configurations
    j = 0
    confs = []
    for sched in range(len(SCHEDULES)):
        for (nfiles, nworkers) in ((2, 3), (1, 2), (3, 2), (3, 5)) if quick else ((1, 2), (2, 2), (2, 3), (3, 2), (3, 4), (4, 3), (4, 6), (1, 4)):
            confs.append((sched, nfiles, nworkers))
    rng = random.Random(seed)
    opts = [("--rooted", "R"), ("--unrooted", "U"), (None, "R"), (None, "U"), (None, ""), ("--rooted", ""), ("--unrooted", "R")]
    for n, (sched, nfiles, nworkers) in enumerate(confs):
        if quick and n % 2 != seed % 2 and SCHEDULES[sched][0] not in ("idle-worker-reports-last", "idle-worker-reports-first",
                                                                        "spurious-empty-on-every-worker"):
            continue
        ro, tok = opts[(n + seed) % len(opts)]
        yield {"kind": "sumtrees", "nfiles": nfiles, "nworkers": nworkers, "rooting": ro, "token": tok, "sched": sched,
               "target": rng.choice([None, None, "mcct", "consensus"]), "i": j, "seed": seed}
        j += 1
    if not quick:
        for k in range(120):
            yield {"kind": "sumtrees", "nfiles": rng.randint(1, 4), "nworkers": rng.randint(2, 6), "rooting": rng.choice(opts)[0],
                   "token": rng.choice(["R", "U", ""]), "sched": 0, "target": None, "i": j, "seed": seed}
            j += 1


def run_case(case, ctx):
    rng = random.Random("%s/%s" % (case["seed"], sorted((k, str(v)) for k, v in case.items())))
    if case["kind"] == "library":
        run_library(ctx, case, rng)
    else:
        run_sumtrees(ctx, case, rng)
