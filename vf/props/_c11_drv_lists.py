"""C11 driver, part 2: TreeList operations."""
from . import _c11_util as U
from ._c11_util import Expect
from ._c11_drv_base import Stop, pick


class ListOps(object):
    # ---- set-up operations ---------------------------------------------------------------------
    def op_mk_ns(self, d):
        import dendropy
        ns = dendropy.TaxonNamespace(list(d["labels"]), is_case_sensitive=bool(d["cs"]))
        if d.get("frozen"):
            ns.is_mutable = False       # frozen after seeding
        self.w.track_ns(ns)

    def op_mk_list(self, d):
        import dendropy
        ns = self.NS(d["ns"])
        cls = U.treelist_subclass() if d.get("sub") else dendropy.TreeList
        E = Expect("TreeList.__init__", "empty")
        E.newlist = ("self", [])
        self.call(E, lambda: cls(taxon_namespace=ns))

    # ---- import options --------------------------------------------------------------------------
    def _import_kw(self, d, E, t, ns):
        rng = self.rng
        strat = pick(d, "strategy", lambda: rng.choice(["migrate"] * 5 + ["add"] * 3 + ["bogus"]))
        kw = {}
        unify = True
        want = None
        if strat == "migrate":
            unify = pick(d, "unify", lambda: rng.random() > 0.2)
            if not unify:
                kw["unify_taxa_by_label"] = False
            memo, want = self._memo(d, [x[1] for x in U.walk(t)], ns, p=0.1)
            if memo is not None:
                kw["taxon_mapping_memo"] = memo
        if strat == "bogus":
            E.allowed = (ValueError,)
        E.disc = strat if unify else "migrate/no-unify"
        mode = self.mode(t, ns, strat, unify)
        if strat != "bogus":
            self.imm_trees(E, ns, [(t, mode)], kw.get("taxon_mapping_memo"))
        return strat, mode, kw, want

    def op_append(self, d):
        L = self.L(d)
        ns = L.taxon_namespace
        t = self.tree_arg(d, ns)
        E = Expect("TreeList.append")
        strat, mode, kw, want = self._import_kw(d, E, t, ns)
        E.inplace = [(t, mode, want)]
        E.consumed = [t]
        E.lists[id(L)] = (L, self.objs(self.model(L) + [t]))
        self.sig(E.op, mode, ns, self.labels_of(t))
        self.call(E, lambda: L.append(t, taxon_import_strategy=strat, **kw))

    def op_insert(self, d):
        L = self.L(d)
        ns = L.taxon_namespace
        t = self.tree_arg(d, ns)
        m = self.model(L)
        i = pick(d, "i", lambda: self.rng.randint(-len(m) - 1, len(m) + 1))
        E = Expect("TreeList.insert")
        strat, mode, kw, want = self._import_kw(d, E, t, ns)
        m.insert(i, t)
        E.inplace = [(t, mode, want)]
        E.consumed = [t]
        E.lists[id(L)] = (L, self.objs(m))
        self.sig(E.op, mode, ns, self.labels_of(t))
        self.call(E, lambda: L.insert(i, t, strat, **kw))

    def _source(self, d, L, E, allow_iter=True):
        """material for extend/+=/+/slice assignment: a sequence / iterator of free trees, another TreeList or the
        receiver itself.  returns (argument factory, slots, kind); fills E.inplace / E.consumed"""
        rng, w = self.rng, self.w
        ns = L.taxon_namespace
        kinds = ["list"] * 3 + ["tuple"] * 2 + ["tl"] * 5 + ["self"] + (["iter", "gen"] if allow_iter else [])
        kind = pick(d, "src", lambda: rng.choice(kinds))
        if kind == "tl":
            cands = [i for i, x in enumerate(w.lists) if x is not L]
            if not cands:
                kind = d["src"] = "list"
        if kind in ("tl", "self"):
            o = L if kind == "self" else w.lists[pick(d, "o", lambda: rng.choice(cands)) % len(w.lists)]
            if kind == "tl" and o is L:
                kind = d["src"] = "self"
            mode = "same" if o.taxon_namespace is ns else "unify"
            slots = [("clone", t, mode) for t in self.model(o)]
            for t in self.model(o):
                self.sig("clone", mode, ns, self.labels_of(t))
            if self.model(o):
                self.imm_clone(E, ns, o.taxon_namespace)
            return (lambda: o), slots, ("self" if kind == "self" else "tl/" + mode)
        pick(d, "ts", lambda: [self.rand_td(ns) for _ in range(rng.randint(0, 3))])
        trees = [self.build(td) for td in d["ts"]]
        E.inplace = [(t, self.mode(t, ns), None) for t in trees]
        E.consumed = list(trees)
        self.imm_trees(E, ns, [(t, self.mode(t, ns)) for t in trees])
        for t in trees:
            self.sig("import", self.mode(t, ns), ns, self.labels_of(t))
        if kind == "tuple":
            mk = lambda: tuple(trees)
        elif kind == "iter":
            mk = lambda: iter(list(trees))
        elif kind == "gen":
            mk = lambda: (t for t in list(trees))
        else:
            mk = lambda: list(trees)
        return mk, self.objs(trees), ("list" if kind in ("list", "tuple") else "iterator")

    def op_extend(self, d):
        L = self.L(d)
        via = pick(d, "via", lambda: self.rng.choice(["extend", "iadd"]))
        E = Expect("TreeList.extend" if via == "extend" else "TreeList.__iadd__")
        mk, slots, kind = self._source(d, L, E)
        E.disc = kind
        E.lists[id(L)] = (L, self.objs(self.model(L)) + slots)
        if via == "extend":
            self.call(E, lambda: L.extend(mk()))
        else:
            def f():
                x = L
                x += mk()
                return x
            res, exc = self.call(E, f)
            if exc is None and res is not L:
                self.mon.viol(E, "iadd-returned-other-object", "+= did not return the list itself")
                raise Stop()

    def op_add(self, d):
        L = self.L(d)
        E = Expect("TreeList.__add__")
        mk, slots, kind = self._source(d, L, E)
        E.disc = kind
        E.newlist = ("result", [("clone", t, "same") for t in self.model(L)] + slots)
        self.call(E, lambda: L + mk())
        self.trim()

    def op_setitem(self, d):
        L = self.L(d)
        m = self.model(L)
        if not m:
            return self.op_append(d)
        ns = L.taxon_namespace
        i = pick(d, "i", lambda: self.rng.randrange(-len(m), len(m)))
        t = self.tree_arg(d, ns)
        mode = self.mode(t, ns)
        E = Expect("TreeList.__setitem__", "index")
        E.displaced = [m[i]]
        m[i] = t
        E.inplace = [(t, mode, None)]
        E.consumed = [t]
        E.lists[id(L)] = (L, self.objs(m))
        self.imm_trees(E, ns, [(t, mode)])
        self.sig(E.op, mode, ns, self.labels_of(t))

        def f():
            L[i] = t
        self.call(E, f)

    def _slice(self, d, n, steps=True):
        rng = self.rng

        def bound():
            r = rng.random()
            if r < 0.15:
                return None
            if r < 0.75:
                return rng.randint(0, n)
            return rng.randint(-n - 1, n + 1)
        a = pick(d, "a", bound)
        b = pick(d, "b", bound)
        st = pick(d, "st", lambda: rng.choice([None] * 7 + [2, -1, 3]) if steps else None)
        return slice(a, b, st)

    def op_setslice(self, d):
        L = self.L(d)
        m = self.model(L)
        E = Expect("TreeList.__setitem__")
        mk, slots, kind = self._source(d, L, E)
        # (an iterator can be walked once: extended slices, which need the length first, are driven with sequences)
        sl = self._slice(d, len(m), steps=kind != "iterator")
        E.disc = "slice/" + kind
        s = self.objs(m)
        try:
            s[sl] = slots
            E.displaced = [t for t in m[sl] if not any(x[0] == "obj" and x[1] is t for x in s)]
        except ValueError:
            # extended slice and a source of another length: python's own refusal, the list stays as it is
            E.allowed = tuple(E.allowed) + (ValueError,)
            s = self.objs(m)
        E.lists[id(L)] = (L, s)

        def f():
            L[sl] = mk()
        self.call(E, f)

    def op_getslice(self, d):
        L = self.L(d)
        m = self.model(L)
        sl = self._slice(d, len(m))
        E = Expect("TreeList.__getitem__", "slice")
        E.newlist = ("result", self.objs(m[sl]))
        res, exc = self.call(E, lambda: L[sl])
        # the slice shares Tree objects with its parent: checked once, then forgotten (see soundness limits)
        if res is not None:
            self.w.forget_list(res)

    # ---- reads --------------------------------------------------------------------------------------
    def _offsets(self, d, R):
        """collection_offset / tree_offset: none (mostly), in range (also negative), now and then out of range."""
        rng = self.rng
        nc = len(R.colls)
        coff = pick(d, "coff", lambda: rng.choice([None] * 9 + [0, 0, -1, nc - 1, -nc, rng.choice([nc, -nc - 1])]))
        n = len(R.colls[coff]) if coff is not None and -nc <= coff < nc else (len(R.colls[0]) if nc else 0)
        toff = pick(d, "toff", lambda: rng.choice([None] * 9 + [0, 0, 1, -1, n - 1, -n - 1, rng.choice([n, n + 1])]))
        kw = {}
        if coff is not None:
            kw["collection_offset"] = coff
        if toff is not None:
            kw["tree_offset"] = toff
        return coff, toff, kw

    def op_read(self, d):
        L = self.L(d)
        ns = L.taxon_namespace
        doc = self.draw_doc(d, "trees")
        R = self.render(doc)
        coff, toff, kw = self._offsets(d, R)
        sel, refuse = self.select(R.colls, coff, toff)
        E = Expect("TreeList.read", R.schema + ("/offsets" if kw else ""))
        if refuse:
            E.allowed = (IndexError,)
            sel = []
        E.lists[id(L)] = (L, self.objs(self.model(L)) + [("read",)] * len(sel))
        E.reads = {"trees": sel}
        self.reader_refusals(E, R, ns)
        for lab in sel:
            self.sig("read/" + R.schema, "unify", ns, lab)
        kw["case_sensitive_taxon_labels"] = bool(ns.is_case_sensitive)
        if pick(d, "foreign_kw", lambda: self.rng.random() < 0.08):
            kw["taxon_namespace"] = self.other_ns(d, ns, "kwns", same_p=0.3)
            if kw["taxon_namespace"] is not ns:
                E.allowed = (TypeError,)
                E.reads = None
                E.lists[id(L)] = (L, self.objs(self.model(L)))
        src = self.source_kw(d, R.text)
        res, exc = self.call(E, lambda: L.read(schema=R.schema, **dict(src, **kw)))
        self.note_refusal(exc)

    def op_get(self, d):
        import dendropy
        ns = self.any_ns(d, prefer_empty=0.3)
        doc = self.draw_doc(d, "trees")
        R = self.render(doc)
        coff, toff, kw = self._offsets(d, R)
        sel, refuse = self.select(R.colls, coff, toff)
        E = Expect("TreeList.get", R.schema + ("/offsets" if kw else ""))
        if refuse:
            E.allowed = (IndexError,)
            sel = []
        E.newlist = ("result", [("read",)] * len(sel))
        E.reads = {"trees": sel, "ns": ns}
        self.reader_refusals(E, R, ns)
        for lab in sel:
            self.sig("get/" + R.schema, "unify", ns, lab)
        cls = U.treelist_subclass() if pick(d, "sub", lambda: self.rng.random() < 0.15) else dendropy.TreeList
        kw["case_sensitive_taxon_labels"] = bool(ns.is_case_sensitive)
        kw["taxon_set" if pick(d, "legacy_kw", lambda: self.rng.random() < 0.1) else "taxon_namespace"] = ns
        src = self.source_kw(d, R.text)
        res, exc = self.call(E, lambda: cls.get(schema=R.schema, **dict(src, **kw)))
        self.note_refusal(exc)
        self.trim()

    def op_new_tree(self, d):
        L = self.L(d)
        ns = L.taxon_namespace
        E = Expect("TreeList.new_tree")
        kind = pick(d, "kind", lambda: self.rng.choice(["empty", "empty", "clone", "clone", "foreign_kw"]))
        args, kw = (), {}
        slot = ("new",)
        if kind == "foreign_kw":
            kw["taxon_namespace"] = self.other_ns(d, ns, "kwns", same_p=0.2)
            E.disc = "namespace-argument"
            if kw["taxon_namespace"] is not ns:
                E.allowed = (TypeError,)
        elif kind == "clone":
            # new_tree(source tree): a copy of the source joins the list
            cands = [t for lst in self.w.lists for t in self.model(lst)] + [e[0] for e in self.w.free]
            if not cands:
                kind = d["kind"] = "empty"
            else:
                src = cands[pick(d, "k", lambda: self.rng.randrange(len(cands))) % len(cands)]
                mode = "same" if src.taxon_namespace is ns else "unify"
                E.disc = "source-tree/" + mode
                slot = ("clone", src, mode)
                args = (src,)
                self.imm_clone(E, ns, src.taxon_namespace)
                self.sig(E.op, mode, ns, self.labels_of(src))
        E.lists[id(L)] = (L, self.objs(self.model(L)) + [slot])
        self.call(E, lambda: L.new_tree(*args, **kw))

    def op_remove(self, d):
        L = self.L(d)
        m = self.model(L)
        how = pick(d, "how", lambda: self.rng.choice(["pop", "pop", "poplast", "remove", "del", "delslice", "delslice", "clear"]))
        if not m and how != "clear":
            return
        if how == "clear":
            E = Expect("TreeList.clear")
            E.displaced = list(m)
            m = []
            f = lambda: L.clear()
        elif how == "delslice":
            sl = self._slice(d, len(m))
            E = Expect("TreeList.__delitem__", "slice")
            E.displaced = m[sl]
            del m[sl]

            def f():
                del L[sl]
        else:
            i = pick(d, "i", lambda: self.rng.randrange(-len(m), len(m)))
            if not -len(m) <= i < len(m):
                i %= len(m)
            if how == "del":
                E = Expect("TreeList.__delitem__", "index")
                E.displaced = [m[i]]
                del m[i]

                def f():
                    del L[i]
            elif how == "pop":
                E = Expect("TreeList.pop")
                E.displaced = [m.pop(i)]
                f = lambda: L.pop(i)
            elif how == "poplast":
                E = Expect("TreeList.pop", "default-index")
                E.displaced = [m.pop()]
                f = lambda: L.pop()
            else:
                E = Expect("TreeList.remove")
                t = m[i]
                E.displaced = [t]
                # list.remove takes the first equal element; Tree equality is identity
                m.remove(t)
                f = lambda: L.remove(t)
        E.lists[id(L)] = (L, self.objs(m))
        self.call(E, f)
        self.trim()

    # ---- namespace-moving calls -----------------------------------------------------------------------
    def op_migrate(self, d):
        L = self.L(d)
        if not self.movable(L):
            return
        via = pick(d, "via", lambda: self.rng.choice(["call"] * 6 + ["none", "assign"]))
        unify = pick(d, "unify", lambda: self.rng.random() > 0.3) if via != "assign" else True
        ns = None if via == "none" else self.other_ns(d, L.taxon_namespace)
        m = self.model(L)
        E = Expect("TreeList.migrate_taxon_namespace", ("unify" if unify else "no-unify") +
                   {"call": "", "none": "/new-namespace", "assign": "/by-assignment"}[via])
        memo = want = None
        if via == "call":
            memo, want = self._memo(d, [x[1] for t in m for x in U.walk(t)], ns)
        mode = "unify" if unify else "distinct"
        E.inplace = [(t, mode, want) for t in m]
        E.lists[id(L)] = (L, self.objs(m))
        self.imm_trees(E, ns, [(t, mode) for t in m], memo)
        for t in m:
            self.sig(E.op, mode, ns, self.labels_of(t))
        kw = {"taxon_mapping_memo": memo} if memo is not None else {}
        if via == "assign":
            # documented switch: assignment of a namespace migrates the object
            def f():
                L.automigrate_taxon_namespace_on_assignment = True
                try:
                    L.taxon_namespace = ns
                finally:
                    L.automigrate_taxon_namespace_on_assignment = False
            if ns is L.taxon_namespace:
                return
            self.call(E, f)
        else:
            self.call(E, lambda: L.migrate_taxon_namespace(ns, unify_taxa_by_label=unify, **kw))

    def op_reconstruct(self, d):
        from dendropy.utility import error
        L = self.L(d)
        if not self.movable(L):
            return
        ns = self.other_ns(d, L.taxon_namespace, same_p=0.3)
        unify = pick(d, "unify", lambda: self.rng.random() > 0.3)
        m = self.model(L)
        E = Expect("TreeList.reconstruct_taxon_namespace", "unify" if unify else "no-unify")
        memo, want = self._memo(d, [x[1] for t in m for x in U.walk(t)], ns)
        mode = "unify" if unify else "distinct"
        E.inplace = [(t, mode, want) for t in m]
        E.lists[id(L)] = (L, self.objs(m))
        self.imm_trees(E, ns, [(t, mode) for t in m], memo)
        if error.ImmutableTaxonNamespaceError in E.allowed:
            # assigning the namespace and rebuilding by hand: the caller has broken the closure before the call, a refusal
            # cannot restore it.  Refusals of immutable targets are driven through migrate_taxon_namespace.
            self.ctx.note("reconstruct-into-immutable-namespace-not-generated")
            return
        for t in m:
            self.sig(E.op, mode, ns, self.labels_of(t))
        kw = {"taxon_mapping_memo": memo} if memo is not None else {}
        L.taxon_namespace = ns      # documented usage: change the reference, then rebuild
        self.call(E, lambda: L.reconstruct_taxon_namespace(unify_taxa_by_label=unify, **kw))

    def op_update(self, d):
        from dendropy.utility import error
        L = self.L(d)
        if not self.movable(L):
            return
        ns = self.other_ns(d, L.taxon_namespace, same_p=0.3)
        m = self.model(L)
        E = Expect("TreeList.update_taxon_namespace")
        E.inplace = [(t, "add", None) for t in m]
        E.lists[id(L)] = (L, self.objs(m))
        self.imm_trees(E, ns, [(t, "add") for t in m])
        if error.ImmutableTaxonNamespaceError in E.allowed:
            self.ctx.note("update-into-immutable-namespace-not-generated")
            return
        for t in m:
            self.sig(E.op, "add", ns, self.labels_of(t))
        L.taxon_namespace = ns
        self.call(E, lambda: L.update_taxon_namespace())

    def op_ctor(self, d):
        import dendropy
        rng = self.rng
        kind = pick(d, "src", lambda: rng.choice(["tl", "tl", "list", "iter"]))
        ns = self.any_ns(d)
        nskw = "taxon_set" if pick(d, "legacy_kw", lambda: rng.random() < 0.1) else "taxon_namespace"
        cls = U.treelist_subclass() if pick(d, "sub", lambda: rng.random() < 0.15) else dendropy.TreeList
        if kind == "tl" and self.w.lists:
            o = self.L(d)
            use_kw = pick(d, "use_kw", lambda: rng.random() < 0.8)
            tgt = ns if use_kw else o.taxon_namespace
            mode = "same" if o.taxon_namespace is tgt else "unify"
            E = Expect("TreeList.__init__", "tl/" + mode)
            E.newlist = ("self", [("clone", t, mode) for t in self.model(o)])
            for t in self.model(o):
                self.sig(E.op, mode, tgt, self.labels_of(t))
            self.imm_clone(E, tgt, o.taxon_namespace)
            kw = {nskw: ns} if use_kw else {}
            self.call(E, lambda: cls(o, **kw))
        else:
            tds = pick(d, "ts", lambda: [self.rand_td(ns) for _ in range(rng.randint(1, 3))])
            trees = [self.build(td) for td in tds]
            E = Expect("TreeList.__init__", "list" if kind != "iter" else "iterator")
            E.inplace = [(t, self.mode(t, ns), None) for t in trees]
            E.consumed = list(trees)
            E.newlist = ("self", self.objs(trees))
            self.imm_trees(E, ns, [(t, self.mode(t, ns)) for t in trees])
            for t in trees:
                self.sig(E.op, self.mode(t, ns), ns, self.labels_of(t))
            self.call(E, lambda: cls(iter(trees) if kind == "iter" else trees, **{nskw: ns}))
        self.trim()
