"""C01  Bipartition encoding is exact, canonical and sufficient to rebuild the topology."""
import itertools
import random

from .. import ref, gen, bridge
from ..mon.hooks import Hooks
from . import _c01_ext as ext

PROP = "C01"
LEVEL_TEXT = ('Every call of encode_bipartitions made by the workload is hooked and the post-call tree is compared edge by edge with '
              'reference clades/splits from a DendroPy-free model - on fresh trees and on trees that were modified through the node API '
              '(structure, tip taxa, rooting state, namespace) after an earlier encoding; rooting states True / False / unspecified; taxa on '
              'internal and seed nodes and tips without a taxon; the iff between split-set equality and topology equality is evaluated on '
              'pools of re-drawings, refinement neighbours and non-equivalent trees; rebuilt trees (all orderings of small encodings, '
              'ascending / descending / shuffled beyond; encodings with duplicate splits and mutable bipartitions; namespaces larger than '
              'the leaf set) and the predicates (Bipartition and plain-bitmask arguments, the static bitmask functions, whole-tree '
              'compatibility on never-encoded and on modified trees) are compared with set definitions. Exhaustive over all shapes with '
              '<= 5 (quick) / 6 (thorough) leaves x rooting x taxon-to-bit configurations as a workload, random beyond. Held on what was '
              'observed - not a proof for all shapes.')
LEVEL_NOTE = 'Trusted: vf/ref.py (clades, splits), TaxonNamespace.taxon_bitmask as the given taxon->bit map (C10 monitors it), CPython.'
LEVEL = "exploration"
RULE = ("cases = (shape | random tree | history: encode, modify, re-encode | pool of re-drawings, refinement neighbours and "
        "non-equivalents | boundary: taxon-free and >= 64-leaf trees | rebuild | predicates) x rooting {True, False, unspecified} x "
        "namespace configuration x taxon placement (tips only | internal/seed taxa | tips without taxon) x encode flags; a case is "
        "non-trivial when its tree has >= 1 internal edge; distinct = distinct (canonical topology, rooting, taxon->bit assignment, flags)")
REACH = ["_tree:Tree.encode_bipartitions", "_bipartition:Bipartition.compile_split_bitmask",
         "_bipartition:Bipartition.normalize_bitmask", "_tree:Tree.from_split_bitmasks",
         "_tree:Tree.from_bipartition_encoding", "_bipartition:Bipartition.is_compatible_bitmasks",
         "_bipartition:Bipartition.is_trivial_bitmask", "_bipartition:Bipartition.is_leafset_nested_within",
         "_tree:Tree.is_compatible_with_bipartition", "_bipartition:Bipartition.is_compatible_with",
         "_bipartition:Bipartition.is_trivial", "_tree:Tree.update_bipartitions"]
MIN_EVENTS = {"encode-basal-bifurcation-clause-checked": (50000, 300000), "edge-mask-checked": (500, 20000), "iff-pair-checked": (200, 5000),
              "rebuild-checked": (50, 1000), "predicate-checked": (500, 10000),
              "hook:Tree.encode_bipartitions:return": (100, 3000),
              # input classes / histories / argument types added after the audit (40-50% of the clean counts)
              "edge-map-checked": (90000, 650000), "encode-with-unspecified-rooting-checked": (9000, 60000),
              "re-encode-after-modification-checked": (1100, 7500), "iff-history-pair-checked": (500, 3300),
              "iff-refinement-pair-checked": (2600, 46000), "predicate-int-argument-checked": (36000, 240000),
              "predicate-static-checked": (58000, 480000), "rebuild-larger-namespace-checked": (7500, 50000),
              "tree-compat-modified-tree-checked": (580, 3900), "tree-compat-never-encoded-checked": (600, 4000),
              "tree-with-taxa-on-internal-nodes-driven": (950, 6800), "tree-with-taxon-less-tips-driven": (500, 3500),
              "taxon-free-tree-driven": (20, 100), "tree-with-64-or-more-leaves-driven": (20, 100)}
MIN_EVENTS.update(("history-step:%s" % _st, (60, 480)) for _st in ext.STEPS)
ASSUMPTIONS = ["TaxonNamespace.taxon_bitmask is taken as the given taxon->bit assignment (its stability is C10)",
               "reference clades/splits are computed on a DendroPy-free spec extracted from the raw child lists",
               "'taxa on the leaves below an edge' is read literally: a taxon carried by an internal or seed node is on no leaf, a tip "
               "without a taxon contributes no bit; 'the lowest taxon bit present on the tree' is the lowest bit among the tips' taxa",
               "a tree whose rooting state was never specified (is_rooted None) is an unrooted tree (documented library behaviour)",
               "a plain integer passed to a Bipartition predicate stands for the bipartition with that split / leafset bitmask "
               "(the library accepts one explicitly)",
               "a tree rebuilt over a namespace that is larger than the source's leaf set is judged on its leaf set (= the namespace), "
               "on the topology it induces on the source's leaves and, when rooted, on having exactly the encoded clades",
               "edge lengths handed to reconstruction are not judged (the statement is about the topology)"]
TECHNIQUE = ("runtime monitoring: a hook on Tree.encode_bipartitions judges every call against DendroPy-free reference clades; "
             "object histories (modify a live tree between encodings), option and argument-type dimensions, differential "
             "comparison of predicates with set definitions")

NSCFG = ("exact", "larger", "removed", "sorted", "reversed", "readded")
ROOTINGS = ext.ROOTINGS
ENCODE_PARAMS = ("suppress_unifurcations", "collapse_unrooted_basal_bifurcation", "suppress_storage", "is_bipartitions_mutable")


def rname(rooted):
    return "rooted" if rooted else "unrooted"


def cases(tier, seed):
    nmax = 5 if tier == "quick" else 6
    for n in range(1, nmax + 1):
        for idx in range(len(gen.all_shapes(n))):
            for rooted in ROOTINGS:
                if rooted is None:
                    # the unspecified rooting state: all configurations on the small shapes, a rotating third beyond
                    if n > 4 and idx % 3 != seed % 3:
                        continue
                    cfgs = NSCFG if n <= 3 else ("exact", "removed")
                else:
                    cfgs = NSCFG if (n <= 4 or idx % 7 == seed % 7) else ("exact", "removed")
                for cfg in cfgs:
                    yield {"kind": "shape", "n": n, "idx": idx, "rooted": rooted, "ns": cfg, "seed": seed}
    nrand = 6000 if tier == "quick" else 30000
    for i in range(nrand):
        yield {"kind": "random", "i": i, "seed": seed}
    nhist = 2000 if tier == "quick" else 15000
    for i in range(nhist):
        yield {"kind": "history", "i": i, "seed": seed}
    npool = 1500 if tier == "quick" else 10000
    for i in range(npool):
        yield {"kind": "pool", "i": i, "seed": seed}
    npred = 1500 if tier == "quick" else 10000
    for i in range(npred):
        yield {"kind": "pred", "i": i, "seed": seed}
    nedge = 96 if tier == "quick" else 480
    for i in range(nedge):
        yield {"kind": "boundary", "i": i, "seed": seed}


# --------------------------------------------------------------------------------------
def make_ns(labels, cfg, rng):
    """namespace whose taxon->bit assignment is varied; returns ns (members == labels
    as a set, except for 'larger')."""
    import dendropy
    labels = list(labels)
    if cfg == "exact":
        return dendropy.TaxonNamespace(labels)
    if cfg == "larger":
        allv = ["X0"] + labels[:len(labels) // 2] + ["X1", "X2"] + labels[len(labels) // 2:] + ["X3"]
        return dendropy.TaxonNamespace(allv)
    if cfg == "removed":
        allv = ["X0"] + labels[:len(labels) // 2] + ["X1", "X2"] + labels[len(labels) // 2:] + ["X3"]
        ns = dendropy.TaxonNamespace(allv)
        for x in ("X0", "X1", "X2", "X3"):
            ns.remove_taxon_label(x)
        return ns
    if cfg == "readded":
        # some members are removed and the SAME Taxon objects added back after their bits had been computed:
        # they are accessioned anew, every derived mask must follow
        ns = dendropy.TaxonNamespace(labels + ["X0"])
        for t in ns:
            ns.taxon_bitmask(t)
        victims = [t for t in ns if rng.random() < 0.5] or [ns[0]]
        for t in victims:
            ns.remove_taxon(t)
        rng.shuffle(victims)
        for t in victims:
            if t.label != "X0":
                ns.add_taxon(t)
        return ns
    if cfg in ("sorted", "reversed"):
        sh = labels[:]
        rng.shuffle(sh)
        ns = dendropy.TaxonNamespace(sh)
        for t in ns:       # force accession of bits in shuffled order
            ns.taxon_bitmask(t)
        if cfg == "sorted":
            ns.sort()
        else:
            ns.reverse()
        return ns
    raise ValueError(cfg)


def bits_of(ns):
    return dict((t.label, ns.taxon_bitmask(t)) for t in ns)


def mask(clade, bits):
    m = 0
    for x in clade:
        m |= bits[x]
    return m


def expected_split(leafmask, treemask, rooted):
    if rooted:
        return leafmask
    low = treemask & -treemask
    if leafmask & low:
        return (~leafmask) & treemask
    return leafmask & treemask


def check_encoding(ctx, tree, ns, rooted, where, pre_topology=None, flags=None, as_user=False):
    """oracle (i): per-edge masks of the post-call tree against the reference clades.
    as_user: the edge maps are read as a caller would read them (no reset of the tree's caches by the monitor)."""
    bits = bits_of(ns)
    try:
        spec, nodes = bridge.extract(tree, with_nodes=True)
    except bridge.ExtractError as e:
        ctx.violation("%s|malformed-tree-after-encode" % where, str(e))
        return None
    nm = bridge.node_map(nodes)
    cl = ref.clades(spec)
    treemask = mask(cl[-1][1], bits)
    # clause by clause over all edges, so that the key names the clause that failed first in the statement's order
    seen_bips = []
    per_edge = []
    for s, c in cl:
        nd = nm[id(s)]
        e = nd._edge
        b = e.bipartition
        lm = mask(c, bits)
        ctx.ev("edge-mask-checked")
        if b is None:
            ctx.violation("%s|edge-without-bipartition" % where, "an edge of the encoded tree has no bipartition",
                          {"tree": ref.to_newick(spec), "clade": sorted(c), "flags": flags})
            return None
        if b._leafset_bitmask != lm or e.leafset_bitmask != lm:
            ctx.violation("%s|leafset-bitmask-wrong" % where,
                          "leafset bitmask %s != taxa below edge %s" % (bin(b._leafset_bitmask or 0), bin(lm)),
                          {"tree": ref.to_newick(spec), "clade": sorted(c), "bits": bits, "flags": flags})
            return None
        # the mask must decode, through the namespace's own public mapping, to exactly the taxa below the edge
        try:
            decoded = sorted(x.label for x in ns.bitmask_taxa_list(b._leafset_bitmask or 0))
        except Exception as e:
            decoded = "%s: %s" % (type(e).__name__, e)
        if decoded != sorted(c):
            ctx.violation("%s|leafset-bitmask-does-not-decode-to-the-taxa-below-the-edge" % where,
                          "bitmask_taxa_list(%s) = %s, taxa below the edge %s" % (bin(b._leafset_bitmask or 0), decoded, sorted(c)),
                          {"tree": ref.to_newick(spec), "bits": bits, "flags": flags})
            return None
        per_edge.append((e, b, lm, c))
        seen_bips.append(b)
    for e, b, lm, c in per_edge:
        sm = expected_split(lm, treemask, rooted)
        if b.split_bitmask != sm or e.split_bitmask != sm:
            ctx.violation("%s|split-bitmask-wrong|%s" % (where, rname(rooted)),
                          "split bitmask %s != expected %s" % (bin(b.split_bitmask or 0), bin(sm)),
                          {"tree": ref.to_newick(spec), "clade": sorted(c), "bits": bits, "flags": flags,
                           "is_rooted": repr(tree._is_rooted)})
            return None
    for e, b, lm, c in per_edge:
        # (a tree without any taxon-bearing tip: the library leaves the field None; the empty set either way)
        if (b._tree_leafset_bitmask or 0) != treemask:
            ctx.violation("%s|tree-leafset-bitmask-wrong" % where,
                          "tree leafset bitmask %s != %s" % (bin(b._tree_leafset_bitmask or 0), bin(treemask)),
                          {"tree": ref.to_newick(spec), "bits": bits})
            return None
    enc = tree.bipartition_encoding
    mutable = bool(flags and flags.get("is_bipartitions_mutable"))
    if enc is not None:
        if len(enc) != len(seen_bips) or set(map(id, enc)) != set(map(id, seen_bips)):
            ctx.violation("%s|encoding-list-not-the-edges'-bipartitions" % where,
                          "bipartition_encoding has %d entries for %d edges" % (len(enc), len(seen_bips)),
                          {"tree": ref.to_newick(spec), "flags": flags})
            return None
        sbem = None
        if treemask == 0:
            # without a taxon-bearing tip the bipartitions are never frozen by the library (not a clause of the statement)
            ctx.note("edge-map-of-a-taxon-free-tree-not-judged")
        elif not mutable:     # (mutable bipartitions are documented as unhashable: no edge map can be asked for)
            try:
                if not as_user:
                    tree._split_bitmask_edge_map = None
                    tree._bipartition_edge_map = None
                sbem = tree.split_bitmask_edge_map
            except Exception as e:
                ctx.violation("%s|edge-map-unbuildable|%s" % (where, type(e).__name__),
                              "split_bitmask_edge_map cannot be built from the encoded tree: %s" % e,
                              {"tree": ref.to_newick(spec), "flags": flags})
                return None
        if sbem is not None:
            ctx.ev("edge-map-checked")
            want_keys = set(nm[id(s)]._edge.bipartition.split_bitmask for s, _c in cl)
            if set(sbem.keys()) != want_keys:
                ctx.violation("%s|split_bitmask_edge_map-wrong" % where, "keys of the map are not the splits of the tree's edges",
                              {"tree": ref.to_newick(spec), "flags": flags})
                return None
        for s, c in (cl if sbem is not None else []):
            e = nm[id(s)]._edge
            got = sbem.get(e.bipartition.split_bitmask)
            if got is None or got.bipartition.split_bitmask != e.bipartition.split_bitmask:
                ctx.violation("%s|split_bitmask_edge_map-wrong" % where, "map entry missing or inconsistent",
                              {"tree": ref.to_newick(spec)})
                return None
    if pre_topology is not None:
        post = ref.topology(spec, rooted)
        if post != pre_topology:
            ctx.violation("%s|encode-changed-topology" % where, "restructuring during encode changed the topology",
                          {"after": ref.to_newick(spec), "flags": flags})
            return None
    return spec


def bound_flags(args, kw):
    """the encode flags as the callee sees them (positional arguments bound to their names)"""
    flags = dict(zip(ENCODE_PARAMS, args))
    flags.update(kw)
    return flags


def install_encode_hook(ctx, hooks, state=None):
    """state: optional dict; state['where'] names the phase of the driving case (default 'encode'), it becomes the
    operation part of the violation keys so that a stale re-encoding is told from a wrong first encoding."""
    import dendropy
    state = state if state is not None else {}

    def pre(tree, args, kw):
        try:
            spec = bridge.extract(tree)
        except bridge.ExtractError:
            return None
        return (ref.topology(spec, bool(tree._is_rooted)), tree._is_rooted)

    def post(snap, tree, args, kw, result, exc):
        where = state.get("where", "encode")
        if exc is not None:
            ctx.unexpected("encode_bipartitions" if where == "encode" else "%s_bipartitions" % where, exc,
                           {"flags": bound_flags(args, kw)})
            return
        if snap is None:
            # every tree of this workload is built by the harness or by the library's own reconstruction: must not occur
            ctx.mark_inconclusive("tree handed to encode_bipartitions could not be walked before the call")
            return
        if tree._seed_node is None:
            ctx.note("encode-on-a-tree-without-seed-node-not-judged")
            return
        flags = bound_flags(args, kw)
        if snap[1] is None:
            ctx.ev("encode-with-unspecified-rooting-checked")
        # documented return value: the stored list, or None when storage is suppressed
        ctx.ev("encode-return-checked")
        if flags.get("suppress_storage"):
            if result is not None or tree.bipartition_encoding is not None:
                ctx.violation("encode|suppress_storage-still-stores-or-returns-a-list", "documented: no list is created",
                              {"flags": flags})
        elif result is None or result is not tree.bipartition_encoding:
            ctx.violation("encode|return-value-is-not-the-stored-encoding", "documented: the stored list is returned",
                          {"flags": flags, "returned": type(result).__name__})
        # documented restructuring: with collapse_unrooted_basal_bifurcation (default True) an unrooted '(A,(B,C))' "will be
        # changed to '(A,B,C)' after this".  With unifurcations suppressed as well (default) no bifurcating seed with an
        # internal child can be left: otherwise two basal edges carry one split (seeded change C03d: the seed node was
        # looked up before the up-front suppression replaced it).
        if (flags.get("collapse_unrooted_basal_bifurcation", True) and flags.get("suppress_unifurcations", True)
                and not tree._is_rooted):
            kids = tree._seed_node._child_nodes
            ctx.ev("encode-basal-bifurcation-clause-checked")
            if len(kids) == 2 and any(k._child_nodes for k in kids):
                ctx.violation("%s|unrooted-basal-bifurcation-left-in-place" % where,
                              "an unrooted tree keeps a bifurcating seed node with an internal child after an encoding that was to collapse it",
                              {"flags": flags})
        check_encoding(ctx, tree, tree.taxon_namespace, bool(tree._is_rooted), where, snap[0], flags, as_user=True)
    hooks.install(dendropy.Tree, "encode_bipartitions", pre=pre, post=post)


def split_set(tree, **flags):
    return frozenset(b.split_bitmask for b in tree.encode_bipartitions(**flags))


FLAGSETS = ({}, {"suppress_unifurcations": False}, {"collapse_unrooted_basal_bifurcation": False},
            {"suppress_unifurcations": False, "collapse_unrooted_basal_bifurcation": False},
            {"is_bipartitions_mutable": True},
            # the edges must carry the full encoding also when no list is asked for (seeded change C01c)
            {"suppress_storage": True}, {"suppress_storage": True, "is_bipartitions_mutable": True},
            {"suppress_storage": True, "suppress_unifurcations": False})
# flag sets whose stored list is also handed to reconstruction (duplicate splits, mutable bipartitions)
REBUILD_FLAGSETS = (FLAGSETS[0], FLAGSETS[3], FLAGSETS[4])


def edge_split_set(tree):
    """split set read off the edges themselves (raw child-list walk), whether or not a list was stored"""
    spec, nodes = bridge.extract(tree, with_nodes=True)
    return frozenset(nd._edge.bipartition.split_bitmask for _s, nd in nodes)


def encode_by_route(tree, flags, rng):
    """the same request through the API routes: keywords, positional arguments, the update_bipartitions alias"""
    route = rng.choice(("kw", "kw", "positional", "alias"))
    if route == "kw":
        return tree.encode_bipartitions(**flags)
    if route == "alias":
        return tree.update_bipartitions(**flags)
    defaults = (True, True, False, False)
    args = [flags.get(k, d) for k, d in zip(ENCODE_PARAMS, defaults)]
    while args and args[-1] == defaults[len(args) - 1]:
        args.pop()
    return tree.encode_bipartitions(*args)


def orderings(enc, rng, mode):
    """orderings of an encoding handed to reconstruction: all of them when the encoding is small and mode == 'all';
    otherwise ascending and descending masks (the adversarial ones for a greedy insertion) and shuffles"""
    if mode == "all" and len(enc) <= 5:
        return [list(p) for p in itertools.permutations(enc)]
    key = lambda b: (b.split_bitmask or 0)
    out = []
    sh = list(enc)
    rng.shuffle(sh)
    out.append(sh)
    if mode == "all":
        out.append(sorted(enc, key=key))
        out.append(sorted(enc, key=key, reverse=True))
        sh = list(enc)
        rng.shuffle(sh)
        out.append(sh)
    elif len(enc) > 40:
        # large trees: one ordering per tree (reconstruction is quadratic), shuffled or sorted
        if rng.random() < 0.5:
            out = [sorted(enc, key=key, reverse=rng.random() < 0.5)]
    else:
        out.append(sorted(enc, key=key, reverse=rng.random() < 0.5))
    return out


def rebuild_check(ctx, tree, spec, ns, rooted, rng, labels, mode="some"):
    """oracle (iii): a tree rebuilt from the encoding, in any order, has the reference topology over the namespace."""
    import dendropy
    nslabels = sorted(t.label for t in ns)
    exact = nslabels == sorted(labels)
    want = ref.topology(spec, rooted)
    if tree.bipartition_encoding is not None and len(tree.bipartition_encoding) > 0:
        enc = list(tree.bipartition_encoding)          # as encoded by the case: may hold duplicates / mutable bipartitions
    else:
        enc = list(tree.encode_bipartitions())
    full = frozenset(nslabels)
    if rooted and not exact:
        want_clades = frozenset(want) | frozenset(frozenset([x]) for x in nslabels) | (frozenset([full]) if full else frozenset())
    tag = rname(rooted)
    k = 0
    for order in orderings(enc, rng, mode):
        k += 1
        routes = ("encoding", "bitmasks") if (mode != "all" or k <= 4) else (("encoding",) if k % 2 else ("bitmasks",))
        for route in routes:
            kw = {}
            # rooting argument: the documented bool; for an unrooted source the default is used now and then
            if rooted or rng.random() < 0.7:
                kw["is_rooted"] = bool(rooted)
            with_lengths = rng.random() < 0.25
            try:
                if route == "encoding":
                    if with_lengths:
                        kw["edge_lengths"] = [float(i + 1) for i in range(len(order))]
                    t2 = dendropy.Tree.from_bipartition_encoding(order, taxon_namespace=ns, **kw)
                else:
                    if with_lengths:
                        kw["split_edge_lengths"] = dict((b.split_bitmask, float(i + 1)) for i, b in enumerate(order))
                    t2 = dendropy.Tree.from_split_bitmasks([b.split_bitmask for b in order], taxon_namespace=ns, **kw)
            except Exception as e:
                ctx.unexpected("from_%s" % route, e, {"tree": ref.to_newick(spec), "kw": sorted(kw), "namespace": nslabels})
                continue
            try:
                s2 = bridge.extract(t2)
            except bridge.ExtractError as e:
                ctx.violation("rebuild|malformed", str(e))
                continue
            ctx.ev("rebuild-checked")
            det = {"source": ref.to_newick(spec), "rebuilt": ref.to_newick(s2), "namespace": nslabels}
            if sorted(x[0] for x in ref.leaves(s2) if x[0] is not None) != nslabels or \
                    (nslabels and any(x[0] is None for x in ref.leaves(s2))):
                ctx.violation("rebuild|leaf-taxa-are-not-the-taxa-of-the-namespace|%s" % route,
                              "rebuilt tree does not have every taxon of the namespace on exactly one tip", det)
                continue
            if exact:
                if ref.topology(s2, rooted) != want:
                    ctx.violation("rebuild|topology-differs|%s|%s" % (route, tag),
                                  "tree rebuilt from re-ordered encoding differs from source", det)
            else:
                ctx.ev("rebuild-larger-namespace-checked")
                ind = ref.induced(s2, labels) if labels else None
                if labels and (ind is None or ref.topology(ind, rooted) != want):
                    ctx.violation("rebuild|topology-differs|%s|%s|namespace-larger-than-leafset" % (route, tag),
                                  "the rebuilt tree does not induce the source topology on the source's leaves", det)
                elif rooted and ref.rooted_clades(s2) != want_clades:
                    ctx.violation("rebuild|clades-over-the-namespace-differ|%s|rooted" % route,
                                  "rebuilt rooted tree has not exactly the encoded clades (+ the tips and the root)", det)
            if bool(t2.is_rooted) != bool(rooted):
                ctx.violation("rebuild|rooting-state", "rebuilt tree has other rooting state")


def run_one_tree(ctx, spec, rooted, cfg, rng, flags, do_rebuild=True, extra=(), mode="some", route_rng=None, ns_rng=None):
    """rooted: True / False / None (unspecified); extra: labels of taxa that are in the namespace but on no tip;
    ns_rng: generator of the namespace configuration when it must be the same for several trees"""
    labels = sorted(ref.leaf_taxa(spec))
    ns_rng = ns_rng or rng
    ns = make_ns(ext.interleave(labels, extra, ns_rng) if extra else labels, cfg, ns_rng)
    tree = bridge.build_tree(spec, ns, rooted)
    try:
        if route_rng is not None:
            encode_by_route(tree, flags, route_rng)
        else:
            tree.encode_bipartitions(**flags)
    except Exception:
        ctx.note("encode-raised:reported-by-the-hook")
        return  # reported by the hook
    s_after = bridge.extract(tree)
    rb = bool(tree._is_rooted)
    internal = len(ref.nontrivial_splits(s_after, rb))
    if internal >= 1:
        ctx.nontrivial(("enc", ref.canon(s_after, lengths=False), rooted, cfg, sorted(flags.items()),
                        sorted(bits_of(ns).items())))
    if do_rebuild:
        rebuild_check(ctx, tree, s_after, ns, rb, rng, labels, mode)
    return tree


def run_case(case, ctx):
    rng = random.Random("%s/%s" % (case["seed"], sorted(case.items())))
    state = {"where": "encode"}
    with Hooks(ctx) as hooks:
        install_encode_hook(ctx, hooks, state)
        kind = case["kind"]
        if kind == "shape":
            run_shape(ctx, case, rng)
        elif kind == "random":
            run_random(ctx, case, rng)
        elif kind == "history":
            run_history(ctx, rng, state)
        elif kind == "pool":
            run_pool(ctx, rng)
        elif kind == "pred":
            run_pred(ctx, rng, state)
        elif kind == "boundary":
            run_boundary(ctx, case, rng)


def run_shape(ctx, case, rng):
    rooted = case["rooted"]
    rb = bool(rooted)
    n = case["n"]
    shape = gen.all_shapes(n)[case["idx"]]
    spec = gen.shape_to_spec(shape)
    variants = [spec, gen.shuffle_children(spec, rng), gen.insert_unary(spec, rng, 0.4)]
    if not rb:
        internal = [k for k, nd in enumerate(ref.preorder(spec)) if nd[3]]
        variants += [ref.reroot(spec, k) for k in internal]
    sets = []
    for vi, v in enumerate(variants):
        for flags in (FLAGSETS if n <= 4 else FLAGSETS[:2]):
            # (one taxon->bit assignment for the whole case; the orderings handed to reconstruction vary)
            t = run_one_tree(ctx, v, rooted, case["ns"], rng, flags, ns_rng=random.Random(1),
                             do_rebuild=(flags in REBUILD_FLAGSETS), mode=("all" if vi == 0 and flags == {} else "some"))
            if t is not None:
                if t.bipartition_encoding is not None:
                    stored = frozenset(b.split_bitmask for b in t.bipartition_encoding)
                    if stored != edge_split_set(t):
                        ctx.violation("encode|stored-list-differs-from-the-edges'-splits",
                                      "bipartition_encoding and the edges disagree", {"tree": ref.to_newick(v), "flags": flags})
                sets.append((edge_split_set(t), v, flags))
    # all re-drawings of one topology on the same taxon->bit map: equal split sets
    if rb:
        groups = {}
        for ss, v, fl in sets:
            groups.setdefault(ref.topology(v, True), []).append((ss, v, fl))
    else:
        groups = {None: sets}
    for g in groups.values():
        for ss, v, fl in g[1:]:
            ctx.ev("iff-pair-checked")
            if ss != g[0][0]:
                ctx.violation("iff|redrawing-changes-split-set|%s" % rname(rb),
                              "re-drawing of the same topology has a different split set",
                              {"a": ref.to_newick(g[0][1]), "b": ref.to_newick(v), "flags": fl, "is_rooted": repr(rooted)})
    # the other direction: every refinement neighbour (one internal edge collapsed) and the base have
    # different topologies, hence different split sets (same taxon->bit assignment)
    if sets:
        nbs = [(ref.topology(spec, rb), sets[0][0], spec)]
        for v in ext.collapse_neighbours(spec):
            t = run_one_tree(ctx, v, rooted, case["ns"], rng, {}, do_rebuild=False, ns_rng=random.Random(1))
            if t is not None:
                nbs.append((ref.topology(v, rb), edge_split_set(t), v))
        for (ta, sa, va), (tb, sb, vb) in itertools.combinations(nbs, 2):
            ctx.ev("iff-pair-checked")
            ctx.ev("iff-refinement-pair-checked")
            if (ta == tb) != (sa == sb):
                ctx.violation("iff|%s|%s" % ("equal-sets-different-topology" if sa == sb else "same-topology-different-sets", rname(rb)),
                              "split-set equality disagrees with topology equality (refinement neighbours)",
                              {"a": ref.to_newick(va), "b": ref.to_newick(vb), "is_rooted": repr(rooted)})
    ctx.sample({"kind": "shape", "tree": ref.to_newick(spec), "rooted": repr(rooted), "ns": case["ns"]}) \
        if case["idx"] == 0 and case["ns"] == "removed" else None


def decorated(spec, rng, ctx=None):
    """taxon placement: tips only (half of the time) | taxa on internal / seed nodes | tips without taxon | both"""
    r = rng.random()
    if r < 0.5:
        return spec, []
    p_int = rng.choice([0.3, 0.7]) if r < 0.8 or r >= 0.9 else 0.0
    seed_taxon = p_int > 0 and rng.random() < 0.5
    bare = r >= 0.8
    s, given = ext.decorate_taxa(spec, rng, p_internal=p_int, seed_taxon=seed_taxon,
                                 n_bare=(rng.randint(0, 2) if bare else 0), n_strip=(rng.randint(0, 2) if bare else 0))
    if ctx is not None:
        if given:
            ctx.ev("tree-with-taxa-on-internal-nodes-driven")
        if any(x[0] is None for x in ref.leaves(s)):
            ctx.ev("tree-with-taxon-less-tips-driven")
    return s, given


def run_random(ctx, case, rng):
    n = rng.choice([2, 3, 5, 8, 12, 15]) if ctx.tier == "quick" else rng.choice([2, 3, 7, 15, 30, 50, 80])
    shape = rng.choice([None, None, None, "caterpillar", "star", "balanced"])
    spec = gen.random_spec(rng, n, p_poly=rng.choice([0, 0.3, 0.6]), p_unary=rng.choice([0, 0, 0.2]),
                           shape=shape)
    gen.decorate_lengths(spec, rng, rng.choice(gen.LENGTH_PATTERNS))
    spec, given = decorated(spec, rng, ctx)
    rooted = rng.choice(ROOTINGS)
    flags = rng.choice(FLAGSETS)
    run_one_tree(ctx, spec, rooted, rng.choice(NSCFG), rng, flags, extra=given, route_rng=rng)
    if case["i"] < 3:
        ctx.sample({"kind": "random", "tree": ref.to_newick(spec), "rooted": repr(rooted), "flags": flags})


def run_boundary(ctx, case, rng):
    """leaf counts 0 (no taxon on the tree at all, empty or non-empty namespace) and >= 64 (beyond a machine word)"""
    import dendropy
    i = case["i"]
    rooted = ROOTINGS[i % 3]
    if i % 2 == 0:
        k = (i // 6) % 4
        spec = [ref.S(None), ref.S(None, [ref.S(None), ref.S(None)]), ref.S(None, [ref.S(None, [ref.S(None)])]),
                ref.S(None, [ref.S(None), ref.S(None, [ref.S(None), ref.S(None)]), ref.S(None)])][k]
        ns = dendropy.TaxonNamespace([] if (i // 2) % 2 == 0 else ["A", "B", "C"])
        flags = FLAGSETS[(i // 3) % len(FLAGSETS)]
        tree = bridge.build_tree(spec, ns, rooted)
        ctx.ev("taxon-free-tree-driven")
        try:
            tree.encode_bipartitions(**flags)
        except Exception:
            ctx.note("encode-raised:reported-by-the-hook")
            return
        s_after = bridge.extract(tree)
        rebuild_check(ctx, tree, s_after, ns, bool(tree._is_rooted), rng, [], "some")
    else:
        n = rng.choice([64, 65, 70, 100, 129]) if ctx.tier == "quick" else rng.choice([64, 65, 128, 129, 200, 300])
        spec = gen.random_spec(rng, n, p_poly=rng.choice([0, 0.3]), p_unary=rng.choice([0, 0.1]),
                               shape=rng.choice([None, None, "caterpillar", "balanced"]))
        ctx.ev("tree-with-64-or-more-leaves-driven")
        run_one_tree(ctx, spec, rooted, rng.choice(NSCFG), rng, rng.choice(FLAGSETS[:5]))


# -------------------------------------------------------------------------------------- histories
def run_history(ctx, rng, state):
    """encode; modify the live tree through the node API / the namespace; encode again (random flags, random route).
    The hook judges every call against the tree as it is THEN; the iff is evaluated between consecutive states."""
    n = rng.choice([3, 4, 5, 6, 8, 12]) if ctx.tier == "quick" else rng.choice([3, 4, 6, 9, 14, 25, 40])
    spec = gen.random_spec(rng, n, p_poly=rng.choice([0, 0.3, 0.6]), p_unary=rng.choice([0, 0, 0.2]))
    spec, given = decorated(spec, rng, ctx)
    rooted = rng.choice(ROOTINGS)
    labels = sorted(ref.leaf_taxa(spec))
    cfg = rng.choice(NSCFG)
    ns = make_ns(ext.interleave(labels, given, rng) if given else labels, cfg, rng)
    tree = bridge.build_tree(spec, ns, rooted)
    spare = ["N%d" % k for k in range(6)]
    state["where"] = "encode"
    flags = rng.choice(FLAGSETS)
    try:
        encode_by_route(tree, flags, rng)
    except Exception:
        ctx.note("encode-raised:reported-by-the-hook")
        return

    def snapshot():
        s = bridge.extract(tree)
        rb = bool(tree._is_rooted)
        lv = sorted(ref.leaf_taxa(s))
        b = bits_of(ns)
        return {"spec": s, "rooted": rb, "leaves": lv, "bits": tuple(b[x] for x in lv),
                "top": ref.topology(s, rb), "splits": edge_split_set(tree) - frozenset([0])}
    prev = snapshot()
    for _round in range(rng.randint(1, 3)):
        done = []
        for _ in range(rng.randint(1, 2)):
            step = rng.choice(ext.STEPS)
            what = ext.apply_step(tree, ns, step, rng, spare)
            if what is not None:
                done.append(step)
        if not done:
            ctx.note("history-step-not-applicable")
            continue
        state["where"] = "re-encode"
        flags = rng.choice(FLAGSETS)
        try:
            encode_by_route(tree, flags, rng)
        except Exception:
            ctx.note("encode-raised:reported-by-the-hook")
            return
        finally:
            state["where"] = "encode"
        ctx.ev("re-encode-after-modification-checked")
        for st in done:
            ctx.ev("history-step:%s" % st)
        cur = snapshot()
        ctx.nontrivial(("hist", ref.canon(prev["spec"], False), ref.canon(cur["spec"], False), tuple(done), repr(tree._is_rooted),
                        sorted(flags.items())))
        # same leaf taxa, same taxon->bit map, same rooting state: equal split sets iff same topology
        # (the empty clade of taxon-less tips / of the root of an unrooted tree is not a split of the taxa: left out)
        if cur["leaves"] == prev["leaves"] and cur["bits"] == prev["bits"] and cur["rooted"] == prev["rooted"]:
            ctx.ev("iff-pair-checked")
            ctx.ev("iff-history-pair-checked")
            same_sets = cur["splits"] == prev["splits"]
            same_top = cur["top"] == prev["top"]
            if same_sets != same_top:
                ctx.violation("iff|%s|%s|modified-tree" % ("equal-sets-different-topology" if same_sets else "same-topology-different-sets",
                                                           rname(cur["rooted"])),
                              "split sets before / after a modification disagree with the topologies before / after",
                              {"before": ref.to_newick(prev["spec"]), "after": ref.to_newick(cur["spec"]), "steps": done, "flags": flags})
        prev = cur


# -------------------------------------------------------------------------------------- pools
def make_pool(rng, n, rooted):
    base = gen.random_spec(rng, n, p_poly=rng.choice([0, 0.3]))
    pool = [base]
    for _ in range(3):
        v = gen.shuffle_children(base, rng)
        if rng.random() < 0.5:
            v = gen.insert_unary(v, rng, 0.3)
        if not rooted:
            internal = [k for k, nd in enumerate(ref.preorder(v)) if nd[3]]
            v = ref.reroot(v, rng.choice(internal))
        pool.append(v)
    for _ in range(3):
        v = base
        for _ in range(rng.randint(1, 2)):
            v = gen.nni(v, rng) if rng.random() < 0.6 else gen.spr(v, rng)
        pool.append(v)
    names = ref.leaf_taxa(base)
    pool.append(gen.random_spec(rng, n, p_poly=0.2, names=names))
    # refinement neighbours: one internal edge of the base collapsed
    nb = ext.collapse_neighbours(base)
    rng.shuffle(nb)
    pool.extend(nb[:2])
    return pool


def run_pool(ctx, rng):
    n = rng.choice([4, 5, 6, 8, 10]) if ctx.tier == "quick" else rng.choice([4, 5, 6, 9, 14, 25, 40])
    rooted = rng.choice(ROOTINGS)
    rb = bool(rooted)
    pool = make_pool(rng, n, rb)
    labels = ref.leaf_taxa(pool[0])
    # internal-node taxa differ from drawing to drawing: they must not matter
    extra = ["I%d" % k for k in range(3)] if rng.random() < 0.3 else []
    ns = make_ns(ext.interleave(sorted(labels), extra, rng) if extra else labels, rng.choice(NSCFG), rng)
    flags = rng.choice(FLAGSETS[:4])
    items = []
    for sp in pool:
        if extra:
            sp = ext.decorate_taxa(sp, rng, p_internal=0.4, seed_taxon=rng.random() < 0.3)[0]
        tree = bridge.build_tree(sp, ns, rooted)
        try:
            ss = split_set(tree, **flags)
        except Exception:
            ctx.note("encode-raised:reported-by-the-hook")
            continue
        items.append((ss, ref.topology(sp, rb), sp))
    for i in range(len(items)):
        for j in range(i + 1, len(items)):
            a, b = items[i], items[j]
            ctx.ev("iff-pair-checked")
            same_sets = a[0] == b[0]
            same_top = a[1] == b[1]
            if same_sets != same_top:
                ctx.violation("iff|%s|%s" % ("equal-sets-different-topology" if same_sets else "same-topology-different-sets",
                                             rname(rb)),
                              "split-set equality disagrees with topology equality",
                              {"a": ref.to_newick(a[2]), "b": ref.to_newick(b[2]), "flags": flags, "is_rooted": repr(rooted)})
            if not same_top:
                ctx.nontrivial(("iff-neq", ref.canon(a[2], False), ref.canon(b[2], False), rooted))
            else:
                ctx.nontrivial(("iff-eq", ref.canon(a[2], False), ref.ordered(b[2], False), rooted))


# -------------------------------------------------------------------------------------- predicates
def run_pred(ctx, rng, state):
    """oracle (iv): predicates against set definitions."""
    import dendropy
    from dendropy.datamodel.treemodel import Bipartition
    n = rng.choice([4, 5, 6, 8]) if ctx.tier == "quick" else rng.choice([4, 5, 6, 8, 12, 20])
    rooted = rng.choice(ROOTINGS)
    rb = bool(rooted)
    tag = rname(rb)
    base = gen.random_spec(rng, n, p_poly=0.2)
    others = [gen.nni(base, rng), gen.spr(base, rng), gen.random_spec(rng, n, names=ref.leaf_taxa(base))]
    labels = ref.leaf_taxa(base)
    ns = make_ns(labels, rng.choice(NSCFG), rng)
    bits = bits_of(ns)
    full = frozenset(labels)
    treemask = mask(full, bits)

    def edge_bips(t):
        s2, nodes = bridge.extract(t, with_nodes=True)
        nm = bridge.node_map(nodes)
        return s2, [(nm[id(s)]._edge.bipartition, c) for s, c in ref.clades(s2)]
    trees = []
    for sp in [base] + others:
        t = bridge.build_tree(sp, ns, rooted)
        t.encode_bipartitions()
        s2, bl = edge_bips(t)
        trees.append((t, s2, bl))

    def sides(c):
        return (c, full - c)

    def compatible(c1, c2):
        a1, a0 = sides(c1)
        b1, b0 = sides(c2)
        if rb:
            # clades of a rooted tree: can coexist iff disjoint or nested
            return (not (a1 & b1)) or (not (a1 & b0)) or (not (a0 & b1))
        # splits of an unrooted tree: one of the four intersections is empty
        return (not (a1 & b1)) or (not (a1 & b0)) or (not (a0 & b1)) or (not (a0 & b0))
    allb = [x for _, _, bl in trees for x in bl]
    for b, c in allb:
        ctx.ev("predicate-checked")
        want = min(len(c), len(full - c)) <= 1
        if bool(b.is_trivial()) != want:
            ctx.violation("predicate|is_trivial", "is_trivial()=%s for clade %s of %d taxa" % (b.is_trivial(), sorted(c), len(full)))
        ctx.ev("predicate-static-checked")
        got = Bipartition.is_trivial_bitmask(b.split_bitmask, treemask)
        if bool(got) != want:
            ctx.violation("predicate|is_trivial_bitmask", "is_trivial_bitmask(%s, %s)=%s for clade %s of %d taxa" % (
                bin(b.split_bitmask), bin(treemask), got, sorted(c), len(full)))
    pairs = [(rng.choice(allb), rng.choice(allb)) for _ in range(60)]
    for (b1, c1), (b2, c2) in pairs:
        ctx.ev("predicate-checked")
        det = {"a": sorted(c1), "b": sorted(c2), "all": sorted(full), "is_rooted": repr(rooted)}
        want = compatible(c1, c2)
        got = b1.is_compatible_with(b2)
        if bool(got) != want or bool(b1.is_incompatible_with(b2)) == want:
            ctx.violation("predicate|is_compatible_with|%s" % tag,
                          "is_compatible_with=%s, set definition says %s" % (got, want), det)
        want_n = c1 <= c2
        got_n = b1.is_leafset_nested_within(b2)
        if bool(got_n) != want_n:
            ctx.violation("predicate|is_leafset_nested_within", "got %s want %s" % (got_n, want_n), det)
        # the same questions with the other bipartition given as a plain bitmask, and through the static function
        ctx.ev("predicate-int-argument-checked")
        try:
            got_i = b1.is_compatible_with(b2.split_bitmask)
            got_ii = b1.is_incompatible_with(b2.split_bitmask)
            got_ni = b1.is_leafset_nested_within(b2._leafset_bitmask)
        except Exception as e:
            ctx.unexpected("predicate-with-bitmask-argument", e, det)
        else:
            if bool(got_i) != want or bool(got_ii) == want:
                ctx.violation("predicate|is_compatible_with|%s|bitmask-argument" % tag,
                              "is_compatible_with(int)=%s, set definition says %s" % (got_i, want), det)
            if bool(got_ni) != want_n:
                ctx.violation("predicate|is_leafset_nested_within|bitmask-argument",
                              "is_leafset_nested_within(int)=%s, set definition says %s" % (got_ni, want_n), det)
        ctx.ev("predicate-static-checked")
        got_s = Bipartition.is_compatible_bitmasks(b1.split_bitmask, b2.split_bitmask, treemask)
        if bool(got_s) != want:
            ctx.violation("predicate|is_compatible_bitmasks|%s" % tag,
                          "is_compatible_bitmasks=%s, set definition says %s" % (got_s, want), det)
        ctx.nontrivial(("pred", sorted(c1), sorted(c2), rooted, len(full)))

    # whole-tree compatibility
    def judge_tree(t, queries, upds, disc, tsplits_of):
        for b, c in queries:
            for upd in upds:
                try:
                    if upd is None:
                        got = t.is_compatible_with_bipartition(b)
                    else:
                        got = t.is_compatible_with_bipartition(b, is_bipartitions_updated=upd)
                except Exception as e:
                    ctx.unexpected("is_compatible_with_bipartition", e)
                    continue
                s_now, tsplits = tsplits_of()
                ctx.ev("predicate-checked")
                want = all(compatible(c, c2) for c2 in tsplits)
                if bool(got) != want:
                    ctx.violation("predicate|tree-compatible-with-bipartition|%s%s" % (tag, disc),
                                  "tree says %s, definition says %s" % (got, want),
                                  {"tree": ref.to_newick(s_now), "clade": sorted(c), "is_bipartitions_updated": repr(upd),
                                   "is_rooted": repr(rooted)})
    for t, s2, bl in trees:
        fixed = (s2, [c for _, c in bl])
        upds = [False, True]
        if rng.random() < 0.5:
            upds = [True, False]            # the encoding is current: the caller may say so first
        judge_tree(t, [rng.choice(allb) for _ in range(10)], upds, "", lambda: fixed)

    def current(t):
        s_now = bridge.extract(t)
        return s_now, [c for _s, c in ref.clades(s_now)]
    # (a) a tree that was never encoded: whatever the caller claims, there is nothing to trust yet
    sp = rng.choice([base] + others)
    t = bridge.build_tree(sp, ns, rooted)
    ctx.ev("tree-compat-never-encoded-checked")
    judge_tree(t, [rng.choice(allb) for _ in range(4)], [rng.choice([True, None])], "|never-encoded-tree", lambda: current(t))
    # (b) a tree modified after its encoding, asked with the default flag (= "not updated"): the structure it has now decides
    t, s2, bl = trees[rng.randrange(len(trees))]
    done = [st for st in (rng.choice(("move-subtree", "swap-taxa")) for _ in range(rng.randint(1, 2)))
            if ext.apply_step(t, ns, st, rng) is not None]
    if done:
        s_mod = bridge.extract(t)
        twin = bridge.build_tree(s_mod, ns, rooted)
        twin.encode_bipartitions()
        _s, twin_bl = edge_bips(twin)
        queries = [rng.choice(twin_bl) for _ in range(4)] + [rng.choice(allb) for _ in range(4)]
        rng.shuffle(queries)
        ctx.ev("tree-compat-modified-tree-checked")
        state["where"] = "re-encode"
        try:
            judge_tree(t, queries, [rng.choice([False, None])], "|tree-modified-since-its-encoding", lambda: current(t))
        finally:
            state["where"] = "encode"
    else:
        ctx.note("history-step-not-applicable")
