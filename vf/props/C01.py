"""C01  Bipartition encoding is exact, canonical and sufficient to rebuild the topology."""
import random

from .. import ref, gen, bridge
from ..mon.hooks import Hooks

PROP = "C01"
LEVEL_TEXT = 'Every call of encode_bipartitions made by the workload is hooked and the post-call tree is compared edge by edge with reference clades/splits from a DendroPy-free model; the iff between split-set equality and topology equality is evaluated on pools of re-drawings and non-equivalent trees; rebuilt trees and the predicates are compared with set definitions. Exhaustive over all shapes with <= 5 (quick) / 6 (thorough) leaves x rooting x taxon-to-bit configurations as a workload, random beyond. Held on what was observed - not a proof for all shapes.'
LEVEL_NOTE = 'Trusted: vf/ref.py (clades, splits), TaxonNamespace.taxon_bitmask as the given taxon->bit map (C10 monitors it), CPython.'
LEVEL = "exploration"
RULE = ("cases = (shape | random tree | pool of re-drawings and non-equivalents | rebuild | predicates) x "
        "rooting x namespace configuration x encode flags; a case is non-trivial when its tree has >= 1 "
        "internal edge; distinct = distinct (canonical topology, rooting, taxon->bit assignment, flags)")
REACH = ["_tree:Tree.encode_bipartitions", "_bipartition:Bipartition.compile_split_bitmask",
         "_bipartition:Bipartition.normalize_bitmask", "_tree:Tree.from_split_bitmasks",
         "_tree:Tree.from_bipartition_encoding", "_bipartition:Bipartition.is_compatible_bitmasks",
         "_bipartition:Bipartition.is_trivial_bitmask", "_bipartition:Bipartition.is_leafset_nested_within",
         "_tree:Tree.is_compatible_with_bipartition"]
MIN_EVENTS = {"edge-mask-checked": (500, 20000), "iff-pair-checked": (200, 5000),
              "rebuild-checked": (50, 1000), "predicate-checked": (500, 10000),
              "hook:Tree.encode_bipartitions:return": (100, 3000)}
ASSUMPTIONS = ["TaxonNamespace.taxon_bitmask is taken as the given taxon->bit assignment (its stability is C10)",
               "reference clades/splits are computed on a DendroPy-free spec extracted from the raw child lists"]

NSCFG = ("exact", "larger", "removed", "sorted", "reversed", "readded")


def cases(tier, seed):
    nmax = 5 if tier == "quick" else 6
    for n in range(1, nmax + 1):
        for idx in range(len(gen.all_shapes(n))):
            for rooted in (True, False):
                cfgs = NSCFG if (n <= 4 or idx % 7 == seed % 7) else ("exact", "removed")
                for cfg in cfgs:
                    yield {"kind": "shape", "n": n, "idx": idx, "rooted": rooted, "ns": cfg, "seed": seed}
    nrand = 6000 if tier == "quick" else 40000
    for i in range(nrand):
        yield {"kind": "random", "i": i, "seed": seed}
    npool = 1500 if tier == "quick" else 10000
    for i in range(npool):
        yield {"kind": "pool", "i": i, "seed": seed}
    npred = 1500 if tier == "quick" else 10000
    for i in range(npred):
        yield {"kind": "pred", "i": i, "seed": seed}


# --------------------------------------------------------------------------------------
def make_ns(labels, cfg, rng):
    """namespace whose taxon->bit assignment is varied; returns ns (members == labels
    as a set, except for 'larger')."""
    import dendropy
    labels = list(labels)
    if cfg == "exact":
        return dendropy.TaxonNamespace(labels)
    if cfg == "larger":
        allv = ["X0"] + labels[:len(labels) // 2] + ["X1", "X2"] + labels[len(labels) // 2:] + ["X3"]
        return dendropy.TaxonNamespace(allv)
    if cfg == "removed":
        allv = ["X0"] + labels[:len(labels) // 2] + ["X1", "X2"] + labels[len(labels) // 2:] + ["X3"]
        ns = dendropy.TaxonNamespace(allv)
        for x in ("X0", "X1", "X2", "X3"):
            ns.remove_taxon_label(x)
        return ns
    if cfg == "readded":
        # some members are removed and the SAME Taxon objects added back after their bits had been computed:
        # they are accessioned anew, every derived mask must follow
        ns = dendropy.TaxonNamespace(labels + ["X0"])
        for t in ns:
            ns.taxon_bitmask(t)
        victims = [t for t in ns if rng.random() < 0.5] or [ns[0]]
        for t in victims:
            ns.remove_taxon(t)
        rng.shuffle(victims)
        for t in victims:
            if t.label != "X0":
                ns.add_taxon(t)
        return ns
    if cfg in ("sorted", "reversed"):
        sh = labels[:]
        rng.shuffle(sh)
        ns = dendropy.TaxonNamespace(sh)
        for t in ns:       # force accession of bits in shuffled order
            ns.taxon_bitmask(t)
        if cfg == "sorted":
            ns.sort()
        else:
            ns.reverse()
        return ns
    raise ValueError(cfg)


def bits_of(ns):
    return dict((t.label, ns.taxon_bitmask(t)) for t in ns)


def mask(clade, bits):
    m = 0
    for x in clade:
        m |= bits[x]
    return m


def expected_split(leafmask, treemask, rooted):
    if rooted:
        return leafmask
    low = treemask & -treemask
    if leafmask & low:
        return (~leafmask) & treemask
    return leafmask & treemask


def check_encoding(ctx, tree, ns, rooted, where, pre_topology=None, flags=None):
    """oracle (i): per-edge masks of the post-call tree against the reference clades."""
    bits = bits_of(ns)
    try:
        spec, nodes = bridge.extract(tree, with_nodes=True)
    except bridge.ExtractError as e:
        ctx.violation("%s|malformed-tree-after-encode" % where, str(e))
        return None
    nm = bridge.node_map(nodes)
    cl = ref.clades(spec)
    treemask = mask(cl[-1][1], bits)
    seen_bips = []
    for s, c in cl:
        nd = nm[id(s)]
        e = nd._edge
        b = e.bipartition
        lm = mask(c, bits)
        ctx.ev("edge-mask-checked")
        if b._leafset_bitmask != lm or e.leafset_bitmask != lm:
            ctx.violation("%s|leafset-bitmask-wrong" % where,
                          "leafset bitmask %s != taxa below edge %s" % (bin(b._leafset_bitmask or 0), bin(lm)),
                          {"tree": ref.to_newick(spec), "clade": sorted(c), "bits": bits, "flags": flags})
            return None
        # the mask must decode, through the namespace's own public mapping, to exactly the taxa below the edge
        try:
            decoded = sorted(x.label for x in ns.bitmask_taxa_list(b._leafset_bitmask or 0))
        except Exception as e:
            decoded = "%s: %s" % (type(e).__name__, e)
        if decoded != sorted(c):
            ctx.violation("%s|leafset-bitmask-does-not-decode-to-the-taxa-below-the-edge" % where,
                          "bitmask_taxa_list(%s) = %s, taxa below the edge %s" % (bin(b._leafset_bitmask or 0), decoded, sorted(c)),
                          {"tree": ref.to_newick(spec), "bits": bits, "flags": flags})
            return None
        sm = expected_split(lm, treemask, rooted)
        if b.split_bitmask != sm or e.split_bitmask != sm:
            ctx.violation("%s|split-bitmask-wrong|%s" % (where, "rooted" if rooted else "unrooted"),
                          "split bitmask %s != expected %s" % (bin(b.split_bitmask or 0), bin(sm)),
                          {"tree": ref.to_newick(spec), "clade": sorted(c), "bits": bits, "flags": flags})
            return None
        if (b._tree_leafset_bitmask or 0) != treemask:
            ctx.violation("%s|tree-leafset-bitmask-wrong" % where,
                          "tree leafset bitmask %s != %s" % (bin(b._tree_leafset_bitmask or 0), bin(treemask)),
                          {"tree": ref.to_newick(spec), "bits": bits})
            return None
        seen_bips.append(b)
    enc = tree.bipartition_encoding
    mutable = bool(flags and flags.get("is_bipartitions_mutable"))
    if enc is not None:
        if len(enc) != len(seen_bips) or set(map(id, enc)) != set(map(id, seen_bips)):
            ctx.violation("%s|encoding-list-not-the-edges'-bipartitions" % where,
                          "bipartition_encoding has %d entries for %d edges" % (len(enc), len(seen_bips)),
                          {"tree": ref.to_newick(spec), "flags": flags})
            return None
        sbem = None
        if not mutable:     # (mutable bipartitions are documented as unhashable: no edge map can be asked for)
            try:
                tree._split_bitmask_edge_map = None
                tree._bipartition_edge_map = None
                sbem = tree.split_bitmask_edge_map
            except Exception as e:
                ctx.violation("%s|edge-map-unbuildable|%s" % (where, type(e).__name__),
                              "split_bitmask_edge_map cannot be built from the encoded tree: %s" % e,
                              {"tree": ref.to_newick(spec), "flags": flags})
                return None
        for s, c in (cl if sbem is not None else []):
            e = nm[id(s)]._edge
            got = sbem.get(e.bipartition.split_bitmask)
            if got is None or got.bipartition.split_bitmask != e.bipartition.split_bitmask:
                ctx.violation("%s|split_bitmask_edge_map-wrong" % where, "map entry missing or inconsistent",
                              {"tree": ref.to_newick(spec)})
                return None
    if pre_topology is not None:
        post = ref.topology(spec, rooted)
        if post != pre_topology:
            ctx.violation("%s|encode-changed-topology" % where, "restructuring during encode changed the topology",
                          {"after": ref.to_newick(spec), "flags": flags})
            return None
    return spec


def install_encode_hook(ctx, hooks):
    import dendropy

    def pre(tree, args, kw):
        try:
            spec = bridge.extract(tree)
        except bridge.ExtractError:
            return None
        return ref.topology(spec, bool(tree._is_rooted))

    def post(snap, tree, args, kw, result, exc):
        if exc is not None:
            ctx.unexpected("encode_bipartitions", exc)
            return
        if snap is None or tree._seed_node is None:
            return
        flags = dict(kw)
        # documented return value: the stored list, or None when storage is suppressed
        ctx.ev("encode-return-checked")
        if flags.get("suppress_storage"):
            if result is not None or tree.bipartition_encoding is not None:
                ctx.violation("encode|suppress_storage-still-stores-or-returns-a-list", "documented: no list is created",
                              {"flags": flags})
        elif result is None or result is not tree.bipartition_encoding:
            ctx.violation("encode|return-value-is-not-the-stored-encoding", "documented: the stored list is returned",
                          {"flags": flags, "returned": type(result).__name__})
        check_encoding(ctx, tree, tree.taxon_namespace, bool(tree._is_rooted), "encode", snap, flags)
    hooks.install(dendropy.Tree, "encode_bipartitions", pre=pre, post=post)


def split_set(tree, **flags):
    return frozenset(b.split_bitmask for b in tree.encode_bipartitions(**flags))


FLAGSETS = ({}, {"suppress_unifurcations": False}, {"collapse_unrooted_basal_bifurcation": False},
            {"suppress_unifurcations": False, "collapse_unrooted_basal_bifurcation": False},
            {"is_bipartitions_mutable": True},
            # the edges must carry the full encoding also when no list is asked for (seeded change C01c)
            {"suppress_storage": True}, {"suppress_storage": True, "is_bipartitions_mutable": True},
            {"suppress_storage": True, "suppress_unifurcations": False})


def edge_split_set(tree):
    """split set read off the edges themselves (raw child-list walk), whether or not a list was stored"""
    spec, nodes = bridge.extract(tree, with_nodes=True)
    return frozenset(nd._edge.bipartition.split_bitmask for _s, nd in nodes)


def rebuild_check(ctx, tree, spec, ns, rooted, rng, labels):
    """oracle (iii): rebuilt tree has the reference topology (leaf set == namespace)."""
    import dendropy
    if set(t.label for t in ns) != set(labels) or len(labels) < 1:
        ctx.note("rebuild-with-partial-leafset-not-judged")
        return
    want = ref.topology(spec, rooted)
    enc = list(tree.encode_bipartitions())
    rng.shuffle(enc)
    for route in ("encoding", "bitmasks"):
        try:
            if route == "encoding":
                t2 = dendropy.Tree.from_bipartition_encoding(enc, taxon_namespace=ns, is_rooted=rooted)
            else:
                t2 = dendropy.Tree.from_split_bitmasks([b.split_bitmask for b in enc], taxon_namespace=ns,
                                                       is_rooted=rooted)
        except Exception as e:
            ctx.unexpected("from_%s" % route, e, {"tree": ref.to_newick(spec)})
            continue
        try:
            s2 = bridge.extract(t2)
        except bridge.ExtractError as e:
            ctx.violation("rebuild|malformed", str(e))
            continue
        ctx.ev("rebuild-checked")
        got = ref.topology(s2, rooted)
        if got != want or sorted(ref.leaf_taxa(s2)) != sorted(labels):
            ctx.violation("rebuild|topology-differs|%s|%s" % (route, "rooted" if rooted else "unrooted"),
                          "tree rebuilt from shuffled encoding differs from source",
                          {"source": ref.to_newick(spec), "rebuilt": ref.to_newick(s2)})
        if bool(t2.is_rooted) != bool(rooted):
            ctx.violation("rebuild|rooting-state", "rebuilt tree has other rooting state")


def run_one_tree(ctx, spec, rooted, cfg, rng, flags, do_rebuild=True):
    labels = sorted(ref.leaf_taxa(spec))
    ns = make_ns(labels, cfg, rng)
    tree = bridge.build_tree(spec, ns, rooted)
    try:
        tree.encode_bipartitions(**flags)
    except Exception:
        return  # reported by the hook
    s_after = bridge.extract(tree)
    internal = len(ref.nontrivial_splits(s_after, rooted))
    if internal >= 1:
        ctx.nontrivial(("enc", ref.canon(s_after, lengths=False), rooted, cfg, sorted(flags.items()),
                        sorted(bits_of(ns).items())))
    if do_rebuild:
        rebuild_check(ctx, tree, s_after, ns, rooted, rng, labels)
    return tree


def run_case(case, ctx):
    rng = random.Random("%s/%s" % (case["seed"], sorted(case.items())))
    with Hooks(ctx) as hooks:
        install_encode_hook(ctx, hooks)
        kind = case["kind"]
        if kind == "shape":
            shape = gen.all_shapes(case["n"])[case["idx"]]
            spec = gen.shape_to_spec(shape)
            variants = [spec, gen.shuffle_children(spec, rng), gen.insert_unary(spec, rng, 0.4)]
            if not case["rooted"]:
                internal = [k for k, nd in enumerate(ref.preorder(spec)) if nd[3]]
                variants += [ref.reroot(spec, k) for k in internal]
            sets = []
            for v in variants:
                for flags in (FLAGSETS if case["n"] <= 4 else FLAGSETS[:2]):
                    t = run_one_tree(ctx, v, case["rooted"], case["ns"], random.Random(1), flags,
                                     do_rebuild=(flags == {}))
                    if t is not None:
                        if t.bipartition_encoding is not None:
                            stored = frozenset(b.split_bitmask for b in t.bipartition_encoding)
                            if stored != edge_split_set(t):
                                ctx.violation("encode|stored-list-differs-from-the-edges'-splits",
                                              "bipartition_encoding and the edges disagree", {"tree": ref.to_newick(v), "flags": flags})
                        sets.append((edge_split_set(t), v, flags))
            # all re-drawings of one topology on the same taxon->bit map: equal split sets
            if case["rooted"]:
                groups = {}
                for ss, v, fl in sets:
                    groups.setdefault(ref.topology(v, True), []).append((ss, v, fl))
            else:
                groups = {None: sets}
            for g in groups.values():
                for ss, v, fl in g[1:]:
                    ctx.ev("iff-pair-checked")
                    if ss != g[0][0]:
                        ctx.violation("iff|redrawing-changes-split-set|%s" % ("rooted" if case["rooted"] else "unrooted"),
                                      "re-drawing of the same topology has a different split set",
                                      {"a": ref.to_newick(g[0][1]), "b": ref.to_newick(v), "flags": fl})
            ctx.sample({"kind": "shape", "tree": ref.to_newick(spec), "rooted": case["rooted"], "ns": case["ns"]}) \
                if case["idx"] == 0 and case["ns"] == "removed" else None
        elif kind == "random":
            n = rng.choice([2, 3, 5, 8, 12, 15]) if ctx.tier == "quick" else rng.choice([2, 3, 7, 15, 30, 50, 80])
            shape = rng.choice([None, None, None, "caterpillar", "star", "balanced"])
            spec = gen.random_spec(rng, n, p_poly=rng.choice([0, 0.3, 0.6]), p_unary=rng.choice([0, 0, 0.2]),
                                   shape=shape)
            gen.decorate_lengths(spec, rng, rng.choice(gen.LENGTH_PATTERNS))
            rooted = rng.random() < 0.5
            flags = rng.choice(FLAGSETS)
            run_one_tree(ctx, spec, rooted, rng.choice(NSCFG), rng, flags)
            if case["i"] < 3:
                ctx.sample({"kind": "random", "tree": ref.to_newick(spec), "rooted": rooted, "flags": flags})
        elif kind == "pool":
            run_pool(ctx, rng)
        elif kind == "pred":
            run_pred(ctx, rng)


def make_pool(rng, n, rooted):
    base = gen.random_spec(rng, n, p_poly=rng.choice([0, 0.3]))
    pool = [base]
    for _ in range(3):
        v = gen.shuffle_children(base, rng)
        if rng.random() < 0.5:
            v = gen.insert_unary(v, rng, 0.3)
        if not rooted:
            internal = [k for k, nd in enumerate(ref.preorder(v)) if nd[3]]
            v = ref.reroot(v, rng.choice(internal))
        pool.append(v)
    for _ in range(3):
        v = base
        for _ in range(rng.randint(1, 2)):
            v = gen.nni(v, rng) if rng.random() < 0.6 else gen.spr(v, rng)
        pool.append(v)
    names = ref.leaf_taxa(base)
    pool.append(gen.random_spec(rng, n, p_poly=0.2, names=names))
    return pool


def run_pool(ctx, rng):
    n = rng.choice([4, 5, 6, 8, 10]) if ctx.tier == "quick" else rng.choice([4, 5, 6, 9, 14, 25, 40])
    rooted = rng.random() < 0.5
    pool = make_pool(rng, n, rooted)
    labels = ref.leaf_taxa(pool[0])
    ns = make_ns(labels, rng.choice(NSCFG), rng)
    flags = rng.choice(FLAGSETS[:4])
    items = []
    for sp in pool:
        tree = bridge.build_tree(sp, ns, rooted)
        try:
            ss = split_set(tree, **flags)
        except Exception:
            continue
        items.append((ss, ref.topology(sp, rooted), sp))
    for i in range(len(items)):
        for j in range(i + 1, len(items)):
            a, b = items[i], items[j]
            ctx.ev("iff-pair-checked")
            same_sets = a[0] == b[0]
            same_top = a[1] == b[1]
            if same_sets != same_top:
                ctx.violation("iff|%s|%s" % ("equal-sets-different-topology" if same_sets else "same-topology-different-sets",
                                             "rooted" if rooted else "unrooted"),
                              "split-set equality disagrees with topology equality",
                              {"a": ref.to_newick(a[2]), "b": ref.to_newick(b[2]), "flags": flags})
            if not same_top:
                ctx.nontrivial(("iff-neq", ref.canon(a[2], False), ref.canon(b[2], False), rooted))
            else:
                ctx.nontrivial(("iff-eq", ref.canon(a[2], False), ref.ordered(b[2], False), rooted))


def run_pred(ctx, rng):
    """oracle (iv): predicates against set definitions."""
    import dendropy
    n = rng.choice([4, 5, 6, 8]) if ctx.tier == "quick" else rng.choice([4, 5, 6, 8, 12, 20])
    rooted = rng.random() < 0.5
    base = gen.random_spec(rng, n, p_poly=0.2)
    others = [gen.nni(base, rng), gen.spr(base, rng), gen.random_spec(rng, n, names=ref.leaf_taxa(base))]
    labels = ref.leaf_taxa(base)
    ns = make_ns(labels, rng.choice(NSCFG), rng)
    bits = bits_of(ns)
    full = frozenset(labels)
    trees = []
    for sp in [base] + others:
        t = bridge.build_tree(sp, ns, rooted)
        t.encode_bipartitions()
        s2, nodes = bridge.extract(t, with_nodes=True)
        nm = bridge.node_map(nodes)
        bl = [(nm[id(s)]._edge.bipartition, c) for s, c in ref.clades(s2)]
        trees.append((t, s2, bl))

    def sides(c):
        return (c, full - c)

    def compatible(c1, c2):
        a1, a0 = sides(c1)
        b1, b0 = sides(c2)
        if rooted:
            # clades of a rooted tree: can coexist iff disjoint or nested
            return (not (a1 & b1)) or (not (a1 & b0)) or (not (a0 & b1))
        # splits of an unrooted tree: one of the four intersections is empty
        return (not (a1 & b1)) or (not (a1 & b0)) or (not (a0 & b1)) or (not (a0 & b0))
    allb = [x for _, _, bl in trees for x in bl]
    for b, c in allb:
        ctx.ev("predicate-checked")
        want = min(len(c), len(full - c)) <= 1
        if bool(b.is_trivial()) != want:
            ctx.violation("predicate|is_trivial", "is_trivial()=%s for clade %s of %d taxa" % (b.is_trivial(), sorted(c), len(full)))
    pairs = [(rng.choice(allb), rng.choice(allb)) for _ in range(60)]
    for (b1, c1), (b2, c2) in pairs:
        ctx.ev("predicate-checked")
        want = compatible(c1, c2)
        got = b1.is_compatible_with(b2)
        if bool(got) != want or bool(b1.is_incompatible_with(b2)) == want:
            ctx.violation("predicate|is_compatible_with|%s" % ("rooted" if rooted else "unrooted"),
                          "is_compatible_with=%s, set definition says %s" % (got, want),
                          {"a": sorted(c1), "b": sorted(c2), "all": sorted(full)})
        want_n = c1 <= c2
        got_n = b1.is_leafset_nested_within(b2)
        if bool(got_n) != want_n:
            ctx.violation("predicate|is_leafset_nested_within", "got %s want %s" % (got_n, want_n),
                          {"a": sorted(c1), "b": sorted(c2)})
        ctx.nontrivial(("pred", sorted(c1), sorted(c2), rooted, len(full)))
    # whole-tree compatibility
    for t, s2, bl in trees:
        tsplits = [c for _, c in bl]
        for b, c in [rng.choice(allb) for _ in range(10)]:
            ctx.ev("predicate-checked")
            want = all(compatible(c, c2) for c2 in tsplits)
            for upd in (False, True):
                try:
                    got = t.is_compatible_with_bipartition(b, is_bipartitions_updated=upd)
                except Exception as e:
                    ctx.unexpected("is_compatible_with_bipartition", e)
                    continue
                if bool(got) != want:
                    ctx.violation("predicate|tree-compatible-with-bipartition|%s" % ("rooted" if rooted else "unrooted"),
                                  "tree says %s, definition says %s" % (got, want),
                                  {"tree": ref.to_newick(s2), "clade": sorted(c)})
