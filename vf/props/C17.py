"""C17  Node ages, the ultrametricity check and tree statistics match their definitions.

Monitors: hooks (call/return/raise counters) on the age/depth/lineage functions of Tree and on every statistic of
dendropy.calculate.treemeasure; every call's outcome (value or exception class) is compared with an oracle written
from the definitions on the spec of the same tree (oracles: _c17_util.py):
  ages            exactly ultrametric (dyadic) trees: age(node) == distance to its descendant tips, exactly; routes calc_node_ages,
                  node_ages, internal_node_ages, resolve_node_ages (attribute name / edge-length function options),
                  treemeasure.node_ages / coalescence_ages; the returned collections are judged as well as the attributes
  depths          resolve_node_depths (options), calc_node_root_distances (flag True/False/default; list and every node's
                  root_distance), treemeasure.node_depths / divergence_times == distance from the root
  restore         set_edge_lengths_from_node_ages restores the original lengths
  lineages        num_lineages_at(d) == #{edges (p,c): depth(p) < d <= depth(c)}   (positive edge lengths), also after scale_edges
  accept/reject   a HISTORY on one tree object: at every step some edge lengths are set to (ultrametric length + deviation) - no
                  deviation, one deviation just below/above the precision, several deviations most of them each within the
                  precision, several large deviations - and one route (calc_node_ages / node_ages / internal_node_ages with their
                  internal-only options, both Pybus-Harvey gamma routes) is called with one precision (default, 1e-5, 1e-2, 1e-9,
                  0, 0.0, 1, 0.25), with the check disabled (None / False / negative) or with a forcing option.
                  Oracle: spread = longest - shortest root-to-tip path; spread > precision => UltrametricityError,
                  spread <= precision => accepted and every age within the range of the node's tip distances (equal to it when
                  there is no deviation); disabled => never rejected; forcing => age == max / min over children of
                  (child age + length), never rejected.  A verdict within the floating-point rounding bound of the precision is
                  not judged (counted as a note).
  statistics      length, max/minmax root distance, N-bar, Sackin (None/False/True/yule/pda/default), Colless (None/False/max/True/
                  yule/pda/default), B1, treeness, Pybus-Harvey gamma == published formulas; unchanged by child shuffling; Tree.*
                  wrappers agree; normalisation passed by keyword, positionally and left to its default; trees with a length
                  on the root's own edge, with missing / zero lengths and with outdegree-one nodes; gamma also on an object
                  whose ages were computed before and whose node heights were then changed (must describe the tree as it is now,
                  must raise once the tree is not ultrametric any more)
Soundness limits: gamma on binary ultrametric trees with >= 3 leaves; Colless on binary trees (polytomies must raise the
documented TypeError; what happens on outdegree-one nodes is only noted); lineage counts only with positive lengths; treeness /
root distances only when every non-root length is present; a length on the root's own edge is no branch of the tree for treeness
and the distances (library documentation), Tree.length may or may not include it; Node.distance_from_root / distance_from_tip /
level, Tree.coalescence_intervals are driven but only noted (routes the statement does not name)."""
import random

from .. import ref, gen, bridge, core
from ..mon.hooks import Hooks
from . import _c17_util as U
from ._c17_util import close

PROP = "C17"
LEVEL_TEXT = ('Ages/depths/lineage counts/statistics returned by the hooked functions (every public route and option of the age, depth and '
              'statistic functions) are compared with formula oracles on generated ultrametric trees (dyadic heights: exact arithmetic), '
              'with root-edge lengths, outdegree-one nodes, missing/zero lengths; the ultrametricity check is probed through histories on one '
              'tree object with one or several deviations on both sides of each precision against the spread of the root-to-tip paths; '
              'forcing options against max/min recursion; gamma and ages re-queried after the tree was modified.')
LEVEL_NOTE = ('Trusted: the formulas transcribed from the cited papers; "paths differ by more than the precision" read as longest minus '
              'shortest root-to-tip path; verdicts closer to the precision than the floating-point rounding bound are not judged.')
LEVEL = "exploration"
TECHNIQUE = "runtime monitoring: hooked age/statistic functions compared with formula oracles on generated ultrametric and perturbed trees, object histories"
RULE = ("tree (all binary+polytomous shapes n<=5 via random generation, random up to 200 leaves, single-leaf trees, outdegree-one nodes, "
        "dyadic or float ultrametric heights, root-edge length, missing/zero lengths for the length-free statistics, rooting flag True/None/False) x "
        "history of (deviation set: none / one / several small / several large) x precision x check disabled x forcing option x route x "
        "normalisation option (keyword / positional / default); non-trivial = >= 3 leaves; distinct = (canonical tree with lengths, option history)")
REACH = ["_tree:Tree.calc_node_ages", "_tree:Tree.node_ages", "_tree:Tree.internal_node_ages", "_tree:Tree.resolve_node_ages",
         "_tree:Tree.resolve_node_depths", "_tree:Tree.calc_node_root_distances", "_tree:Tree.set_edge_lengths_from_node_ages",
         "_tree:Tree.num_lineages_at", "_tree:Tree.length", "_tree:Tree.max_distance_from_root", "_tree:Tree.minmax_leaf_distance_from_root",
         "_tree:Tree.pybus_harvey_gamma", "_tree:Tree.sackin_index", "_tree:Tree.colless_tree_imbalance",
         "treemeasure:B1", "treemeasure:colless_tree_imbalance", "treemeasure:pybus_harvey_gamma", "treemeasure:N_bar",
         "treemeasure:sackin_index", "treemeasure:treeness", "treemeasure:node_ages", "treemeasure:node_depths",
         "treemeasure:coalescence_ages", "treemeasure:divergence_times"]
MIN_EVENTS = {"case-with-taxa-on-no-tip": (2500, 9000), "ages-compared": (15000, 110000), "threshold-accept-judged": (11000, 65000), "threshold-reject-judged": (6000, 36000),
              "statistic-compared": (140000, 850000), "lineages-compared": (50000, 420000), "forcing-compared": (3500, 20000),
              "tree-with-root-edge-length": (900, 6000),
              # added with the audit: object histories, several deviations, routes x options, returned collections
              "threshold-reused-object-judged": (13000, 75000), "threshold-reused-object-reject-judged": (4500, 27000),
              "several-deviations-accept-judged": (1200, 7000), "several-deviations-reject-judged": (2500, 15000),
              "accepted-ages-judged": (7000, 40000), "returned-ages-judged": (10000, 60000),
              "check-disabled-judged": (3500, 20000), "check-disabled-on-gross-deviations-judged": (1100, 7000),
              "gamma-threshold-judged": (1700, 10000), "gamma-reused-object-compared": (1100, 6500),
              "gamma-after-change-compared": (1100, 6500), "gamma-non-ultrametric-judged": (2200, 13000),
              "root-distances-judged": (2500, 17000), "root-distances-flag:all-nodes": (1200, 8000), "root-distances-flag:leaves": (1200, 8000),
              "depth-option:attr": (600, 4000), "depth-option:noattr": (600, 4000), "depth-option:unit": (600, 4000),
              "module-route-compared": (8000, 50000), "lineages-after-change-compared": (17000, 120000),
              "ages-after-change-compared": (2500, 17000), "tree-with-unary-node": (900, 6000),
              "statistic-compared|default-normalisation": (14000, 80000), "statistic-compared|positional-normalisation": (15000, 85000),
              "statistic-compared|root-edge-has-length": (3800, 24000), "statistic-compared|missing-lengths": (500, 3400),
              "stats-tree-with-missing-or-zero-lengths": (280, 1800), "stats-tree-with-root-edge-length": (700, 4400)}
ASSUMPTIONS = ["formulas: Sackin/Colless normalisations after Blum & Francois 2006 / Kirkpatrick & Slatkin 1993, B1 after Shao & Sokal 1990, gamma after Pybus & Harvey 2000",
               "dyadic heights make reference arithmetic exact; float cases use 1e-9 relative tolerance",
               "'paths differ by more than the precision' = longest minus shortest root-to-tip path exceeds it (the per-node reading of the docstring gives the same verdicts)",
               "a length on the root's own edge lies on no root-to-node path and is no branch for treeness (library documentation); Tree.length may include it"]


# ---- workload ------------------------------------------------------------------------------------
def cases(tier, seed):
    for i in range(6000 if tier == "quick" else 40000):
        yield {"kind": "ultrametric", "i": i, "seed": seed}
    for i in range(10000 if tier == "quick" else 60000):
        yield {"kind": "threshold", "i": i, "seed": seed}
    for i in range(5000 if tier == "quick" else 30000):
        yield {"kind": "stats", "i": i, "seed": seed}


# taxa of the namespace that are on no tip (as after pruning, or in a shared namespace): ages and statistics are functions of
# the tree, never of its namespace.  Drawn once per case from a separate generator (seeded change C17d: a normaliser taken
# from len(tree.taxon_namespace)).
_EXTRA_TAXA = []


def fresh(spec, rooted=True):
    import dendropy
    ns = dendropy.TaxonNamespace(sorted(list(ref.leaf_taxa(spec)) + list(_EXTRA_TAXA)))
    return bridge.build_tree(spec, ns, rooted)


def live_nodes(tree, spec):
    """live nodes in the pre-order of spec (the tree was built from spec: same pre-order)."""
    s2, pairs = bridge.extract(tree, with_nodes=True)
    nodes = [nd for b, nd in pairs]
    if len(nodes) != ref.n_nodes(spec):
        raise core.HarnessBug("live tree and spec differ in size")
    return nodes


def live_map(tree, spec):
    return dict((id(a), nd) for a, nd in zip(ref.preorder(spec), live_nodes(tree, spec)))


def install_counters(ctx, hooks):
    import dendropy
    from dendropy.calculate import treemeasure
    for name in ("calc_node_ages", "node_ages", "internal_node_ages", "resolve_node_ages", "resolve_node_depths",
                 "calc_node_root_distances", "set_edge_lengths_from_node_ages", "num_lineages_at", "length",
                 "max_distance_from_root", "minmax_leaf_distance_from_root"):
        hooks.install(dendropy.Tree, name)
    for name in ("B1", "colless_tree_imbalance", "pybus_harvey_gamma", "N_bar", "sackin_index", "treeness"):
        hooks.install(treemeasure, name)


def run_case(case, ctx):
    rng = random.Random("%s/%s" % (case["seed"], sorted((k, str(v)) for k, v in case.items())))
    erng = random.Random("extra-taxa/%s/%s" % (case["seed"], sorted((k, str(v)) for k, v in case.items())))
    del _EXTRA_TAXA[:]
    if erng.random() < 0.3:
        _EXTRA_TAXA.extend(erng.sample(["A0", "A1", "zz7", "zz8", "zz9", "M5"], erng.randint(1, 5)))
        ctx.ev("case-with-taxa-on-no-tip")
    with Hooks(ctx) as hooks:
        install_counters(ctx, hooks)
        if case["kind"] == "ultrametric":
            run_ultrametric(ctx, case, rng)
        elif case["kind"] == "threshold":
            run_threshold(ctx, case, rng)
        else:
            run_stats(ctx, case, rng)


def pick_rooting(rng):
    return rng.choice([True, True, True, None, False])


def same_sorted(got, want, exact):
    got = sorted(got)
    if len(got) != len(want):
        return False
    if exact:
        return all(a == b for a, b in zip(got, want))
    return all(close(a, b) for a, b in zip(got, want))


# ---- ages, depths, lineages on ultrametric trees -----------------------------------------------------
def run_ultrametric(ctx, case, rng):
    from dendropy.calculate import treemeasure
    dyadic = rng.random() < 0.7
    spec = U.gen_tree(ctx.tier, rng, dyadic, allow_single=True)
    spec, unary = U.maybe_unary(spec, rng)
    if unary:
        ctx.ev("tree-with-unary-node")
    # a length on the root's own edge (as the simulators and '(...):0.75;' sources leave it) belongs to no root-to-node
    # path: ages, depths, root distances and lineage counts must not see it (seeded change C17c)
    if rng.random() < 0.35:
        spec[2] = rng.choice([0, 0.75, 2, 1.0, 3.5])
        ctx.ev("tree-with-root-edge-length")
    rooted = pick_rooting(rng)
    det = {"tree": ref.to_newick(spec), "dyadic": dyadic, "rooted": rooted}
    pre = list(ref.preorder(spec))
    tree = fresh(spec, rooted)
    lm = live_map(tree, spec)
    tr = U.tip_range(spec)
    exact = dyadic

    def eq(got, want):
        return got == want or (not exact and got is not None and close(got, want))
    ok, res = core.call(ctx, "calc_node_ages", tree.calc_node_ages, detail=det)
    if ok:
        ctx.ev("ages-compared")
        for n in pre:
            want = tr[id(n)][0]
            got = lm[id(n)].age
            if not eq(got, want):
                ctx.violation("calc_node_ages|age-differs-from-tip-distance", "age %r, distance to tips %r" % (got, want), det)
                break
        allages = sorted(tr[id(n)][0] for n in pre)
        if not same_sorted(res, allages, exact):
            ctx.violation("calc_node_ages|returned-ages-wrong", "returned %s" % sorted(res)[:10], det)
        for fnname, internal in (("node_ages", False), ("internal_node_ages", True)):
            t2 = fresh(spec, rooted)
            ok2, r2 = core.call(ctx, fnname, getattr(t2, fnname), detail=det)
            want = sorted(tr[id(n)][0] for n in pre if (n[3] or not internal))
            if ok2:
                ctx.ev("ages-compared")
                if list(r2) != sorted(r2) or not same_sorted(r2, want, exact):
                    ctx.violation("%s|wrong" % fnname, "got %s want %s" % (list(r2)[:8], want[:8]), det)
        # restore lengths from ages
        for nd in tree.preorder_node_iter():
            if nd._parent_node is not None:
                nd.edge.length = 123.0
        ok3, _ = core.call(ctx, "set_edge_lengths_from_node_ages", tree.set_edge_lengths_from_node_ages, detail=det)
        if ok3:
            ctx.ev("ages-compared")
            s2 = bridge.extract(tree)
            for a, b in zip(pre, ref.preorder(s2)):
                if a is spec:
                    continue
                if not eq(b[2], a[2]):
                    ctx.violation("set_edge_lengths_from_node_ages|lengths-not-restored", "%r -> %r" % (a[2], b[2]), det)
                    break
    # ---- depths / ages without ultrametricity requirement, every option of the routes
    tree = fresh(spec, rooted)
    lm = live_map(tree, spec)
    rdl = ref.root_distances(spec)
    rd = dict((id(n), d) for n, d, k in rdl)
    lvl = dict((id(n), k) for n, d, k in rdl)
    variant = rng.choice(["default", "attr", "noattr", "unit"])
    kw = {"default": {}, "attr": {"attr_name": "c17_depth"}, "noattr": {"attr_name": None},
          "unit": {"node_edge_length_fn": lambda nd: 1}}[variant]
    ok, cache = core.call(ctx, "resolve_node_depths", tree.resolve_node_depths, detail=det, **kw)
    if ok:
        ctx.ev("ages-compared")
        ctx.ev("depth-option:%s" % variant)
        wantd = lvl if variant == "unit" else rd
        attr = {"default": "depth", "attr": "c17_depth", "noattr": None, "unit": "depth"}[variant]
        for n in pre:
            nd = lm[id(n)]
            bad = nd not in cache or not close(cache[nd], wantd[id(n)])
            if not bad and attr is not None:
                v = getattr(nd, attr, None)
                bad = v is None or not close(v, wantd[id(n)])
            if bad:
                ctx.violation("resolve_node_depths|depth-differs-from-root-distance%s" % ("" if variant == "default" else "|option-" + variant),
                              "node at root distance %r: returned %r, attribute %r" % (wantd[id(n)], cache.get(nd), getattr(nd, attr, None) if attr else None), det)
                break
    variant = rng.choice(["default", "default", "attr", "noattr"])
    kw = {"default": {}, "attr": {"attr_name": "c17_age"}, "noattr": {"attr_name": None}}[variant]
    ok, cache = core.call(ctx, "resolve_node_ages", tree.resolve_node_ages, detail=det, **kw)
    if ok:
        ctx.ev("ages-compared")
        attr = {"default": "age", "attr": "c17_age", "noattr": None}[variant]
        for n in pre:
            nd = lm[id(n)]
            lo, hi = tr[id(n)]
            vals = [cache.get(nd)] + ([getattr(nd, attr, None)] if attr else [])
            if any(v is None or not (close(v, lo) or close(v, hi)) for v in vals):
                ctx.violation("resolve_node_ages|age-wrong%s" % ("" if variant == "default" else "|option-" + variant), "%r vs %r" % (vals, (lo, hi)), det)
                break
    flag = rng.choice(["default", "True", "False", "positional-False"])
    args, kw = {"default": ((), {}), "True": ((), {"return_leaf_distances_only": True}),
                "False": ((), {"return_leaf_distances_only": False}), "positional-False": ((False,), {})}[flag]
    leaves_only = flag in ("default", "True")
    ok, dists = core.call(ctx, "calc_node_root_distances", tree.calc_node_root_distances, *args, detail=det, **kw)
    if ok:
        ctx.ev("root-distances-judged")
        ctx.ev("root-distances-flag:%s" % ("leaves" if leaves_only else "all-nodes"))
        want = sorted(d for n, d, k in rdl if not n[3] or not leaves_only)
        if not same_sorted(dists, want, False):
            ctx.violation("calc_node_root_distances|wrong|%s" % ("leaf-distances" if leaves_only else "all-node-distances"),
                          "%d distances returned, %d nodes asked for; %s vs %s" % (len(dists), len(want), sorted(dists)[:6], want[:6]), det)
        for n in pre:
            v = getattr(lm[id(n)], "root_distance", None)
            if v is None or not close(v, rd[id(n)]):
                ctx.violation("calc_node_root_distances|root_distance-attribute-wrong", "%r, distance from root %r" % (v, rd[id(n)]), det)
                break
    # module-level routes of the same quantities
    internal = rng.random() < 0.5
    wa = sorted(tr[id(n)][0] for n in pre if n[3] or not internal)
    wd = sorted(rd[id(n)] for n in pre if n[3] or not internal)
    wia = sorted(tr[id(n)][0] for n in pre if n[3])
    wid = sorted(rd[id(n)] for n in pre if n[3])
    for label, fn, a, kw, want in (("treemeasure.node_ages", treemeasure.node_ages, (tree,), {"is_internal_only": internal}, wa),
                                   ("treemeasure.node_depths", treemeasure.node_depths, (tree,), {"is_internal_only": internal}, wd),
                                   ("treemeasure.coalescence_ages", treemeasure.coalescence_ages, (tree,), {}, wia),
                                   ("treemeasure.divergence_times", treemeasure.divergence_times, (tree,), {}, wid)):
        ok, got = core.call(ctx, label, fn, *a, detail=det, **kw)
        if ok:
            ctx.ev("module-route-compared")
            if not same_sorted(got, want, False):      # the order of the vector is not part of the statement
                ctx.violation("%s|wrong" % label, "got %s want %s" % (sorted(got)[:8], want[:8]), det)
    # node-level routes the statement does not name: recorded, not judged
    probe = rng.sample(pre, min(len(pre), 4))
    for n in probe:
        nd = lm[id(n)]
        try:
            if not close(nd.distance_from_root(), rd[id(n)]):
                ctx.note("Node.distance_from_root differs from the distance from the root (not judged)%s" % ("; root edge has a length" if spec[2] else ""))
            if nd.level() != lvl[id(n)]:
                ctx.note("Node.level differs from the number of edges to the root (not judged)")
            if not close(nd.distance_from_tip(), tr[id(n)][1]):
                ctx.note("Node.distance_from_tip differs from the distance to the tips (not judged)")
        except core.CaseTimeout:
            raise
        except Exception as e:
            ctx.note("node-level route raised %s (not judged)" % type(e).__name__)
    try:
        tree.coalescence_intervals()
        ctx.note("Tree.coalescence_intervals returned (not judged)")
    except core.CaseTimeout:
        raise
    except Exception as e:
        ctx.note("Tree.coalescence_intervals raised %s (not judged)" % type(e).__name__)
    # lineages through time (positive lengths by construction)
    depths = sorted(set(rd.values()))
    qs = []
    if dyadic:
        qs = list(depths)
    for a, b in zip(depths, depths[1:]):
        if dyadic or b - a > 1e-6:          # float trees: only query points that are not near any node depth
            qs.append((a + b) / 2.0)
    qs += [depths[-1] + 1.0, -1.0]
    if len(qs) > 40:
        qs = rng.sample(qs, 40)
    pm = ref.parent_map(spec)
    for d in qs:
        want = U.crossing_edges(spec, rd, pm, d)
        ok, got = core.call(ctx, "num_lineages_at", tree.num_lineages_at, d, detail=det)
        if ok:
            ctx.ev("lineages-compared")
            if got != want:
                ctx.violation("num_lineages_at|count-differs-from-crossing-edges", "at %r: %r lineages, %r edges cross" % (d, got, want), det)
                break
    # ---- the same tree object after its edge lengths were changed: every answer must describe the tree as it is now
    # (factors are powers of two: scaling is exact in binary floating point, also on the float workloads)
    factor = rng.choice([2, 0.5, 4])
    core.call(ctx, "scale_edges", tree.scale_edges, factor, detail=det)
    for d in rng.sample(qs, min(len(qs), 8)):
        d2 = d * factor
        want = U.crossing_edges(spec, rd, pm, d2, factor)
        ok, got = core.call(ctx, "num_lineages_at", tree.num_lineages_at, d2, detail=det)
        if ok:
            ctx.ev("lineages-compared")
            ctx.ev("lineages-after-change-compared")
            if got != want:
                ctx.violation("num_lineages_at|stale-after-edge-lengths-changed", "after scale_edges(%r), at %r: %r lineages, %r edges cross" % (factor, d2, got, want), det)
                break
    ok, res = core.call(ctx, "calc_node_ages", tree.calc_node_ages, detail=det)
    if ok:
        ctx.ev("ages-compared")
        ctx.ev("ages-after-change-compared")
        for n in pre:
            if not eq(lm[id(n)].age, tr[id(n)][0] * factor):
                ctx.violation("calc_node_ages|stale-after-edge-lengths-changed", "age %r, distance to tips now %r" % (lm[id(n)].age, tr[id(n)][0] * factor), det)
                break
    ok, mx = core.call(ctx, "max_distance_from_root", tree.max_distance_from_root, detail=det)
    if ok and not eq(mx, max(rd.values()) * factor):
        ctx.violation("max_distance_from_root|stale-after-edge-lengths-changed", "%r, now %r" % (mx, max(rd.values()) * factor), det)
    for n in probe:
        try:
            if not close(lm[id(n)].distance_from_tip(), tr[id(n)][1] * factor):
                ctx.note("Node.distance_from_tip stale after the edge lengths changed (not judged)")
        except core.CaseTimeout:
            raise
        except Exception as e:
            ctx.note("node-level route raised %s (not judged)" % type(e).__name__)
    if len(ref.leaves(spec)) >= 3:
        ctx.nontrivial(("ultra", ref.canon(spec)))
    if case["i"] < 2:
        ctx.sample({"kind": "ultrametric", "tree": ref.to_newick(spec)})


# ---- the ultrametricity check: histories on one object ---------------------------------------------------
AGE_ROUTES = ["calc_node_ages", "calc_node_ages", "calc_node_ages(internal-only)", "node_ages", "node_ages(internal_only)", "internal_node_ages"]
GAMMA_ROUTES = ["pybus_harvey_gamma", "Tree.pybus_harvey_gamma"]


def route_call(tree, route, kw, prec_given):
    """(callable, returns-internal-only, returns-sorted) of one public route to the node ages; kw = calc_node_ages keywords."""
    from dendropy.calculate import treemeasure
    if route == "calc_node_ages":
        return (lambda: tree.calc_node_ages(**kw)), False, False
    if route == "calc_node_ages(internal-only)":
        return (lambda: tree.calc_node_ages(is_return_internal_node_ages_only=True, **kw)), True, False
    if route == "node_ages":
        return (lambda: tree.node_ages(**kw)), False, True
    if route == "node_ages(internal_only)":
        return (lambda: tree.node_ages(internal_only=True, **kw)), True, True
    if route == "internal_node_ages":
        return (lambda: tree.internal_node_ages(**kw)), True, True
    if route == "pybus_harvey_gamma":
        if prec_given:
            return (lambda: treemeasure.pybus_harvey_gamma(tree, prec=kw["ultrametricity_precision"])), None, None
        return (lambda: treemeasure.pybus_harvey_gamma(tree)), None, None
    if route == "Tree.pybus_harvey_gamma":
        if prec_given:
            return (lambda: tree.pybus_harvey_gamma(kw["ultrametricity_precision"])), None, None
        return (lambda: tree.pybus_harvey_gamma()), None, None
    raise core.HarnessBug(route)


def run_threshold(ctx, case, rng):
    from dendropy.utility import error
    base = U.gen_tree(ctx.tier, rng, dyadic=True)
    base = gen.shuffle_children(base, rng)       # a deviating subtree is the first child as often as a later one
    base, unary = U.maybe_unary(base, rng, 0.1)
    if unary:
        ctx.ev("tree-with-unary-node")
    nl = len(ref.leaves(base))
    gamma_ok = nl >= 3 and all(len(n[3]) in (0, 2) for n in ref.preorder(base))
    rooted = pick_rooting(rng)
    tree = fresh(base, rooted)
    live = live_nodes(tree, base)
    base_nodes = list(ref.preorder(base))
    cur_kind, cur, cur_exact = "none", {}, True
    eps_name, eps_arg = None, None
    hist = []
    nsteps = 4
    for step in range(nsteps):
        mode = rng.choice(["check"] * 6 + ["off", "off", "max", "min"])
        if eps_name is None or rng.random() > 0.45:
            eps_name, eps_arg = rng.choice(U.EPS_CHOICES)
        eps = 1e-5 if eps_arg is None else eps_arg
        if step == 0 or rng.random() > 0.25:
            kind, deltas, exact = U.draw_state(rng, base, eps)
        else:
            kind, deltas, exact = cur_kind, cur, cur_exact         # same lengths as at the previous step, other options
        for i in set(cur) | set(deltas):
            live[i].edge.length = base_nodes[i][2] + deltas.get(i, 0)
        cur_kind, cur, cur_exact = kind, deltas, exact
        spec = U.apply_state(base, deltas)
        tr = U.tip_range(spec)
        lo, hi = tr[id(spec)]
        spread = hi - lo
        slack = 0.0 if exact else U.rounding_slack(spec)
        kw = {}
        prec_given = eps_arg is not None
        if mode == "check":
            if prec_given:
                kw["ultrametricity_precision"] = eps_arg
            routes = AGE_ROUTES + (GAMMA_ROUTES if gamma_ok else [])
            mode_name = eps_name
            if spread > eps + slack:
                expect = "rejected"
            elif spread <= eps - slack:
                expect = "accepted"
            else:
                expect = None
        else:
            routes = AGE_ROUTES
            expect = "accepted"
            if mode == "off":
                mode_name, off = rng.choice(U.OFF_CHOICES)
                kw["ultrametricity_precision"] = off
                mode_name = "check-disabled-" + mode_name
            else:
                kw["is_force_%s_age" % mode] = True
                mode_name = "is_force_%s_age" % mode
                if prec_given and rng.random() < 0.5:
                    kw["ultrametricity_precision"] = eps_arg
        route = rng.choice(routes)
        is_gamma = route in GAMMA_ROUTES
        fn, internal_only, is_sorted = route_call(tree, route, kw, prec_given)
        rname = route.split("(")[0]
        objhist = "fresh-object" if step == 0 else "object-queried-before"
        det = {"ultrametric_tree": ref.to_newick(base), "deviations": dict(("edge %d above (%s)" % (i, ",".join(sorted(ref.leaf_taxa(base_nodes[i])))), d) for i, d in deltas.items()),
               "tree_now": ref.to_newick(spec), "longest_minus_shortest_root_to_tip_path": spread, "route": route, "options": repr(sorted(kw.items())),
               "step": step, "earlier_steps": list(hist)}
        hist.append("%s %s %s" % (route, mode_name, kind))
        try:
            res = fn()
            outcome = "accepted"
        except error.UltrametricityError:
            outcome = "rejected"
        except core.CaseTimeout:
            raise
        except Exception as e:
            ctx.unexpected(rname, e, det)
            break
        if expect is None:
            ctx.note("threshold step not judged: spread within the rounding bound of the precision")
            continue
        ctx.ev("threshold-%s-judged" % ("reject" if expect == "rejected" else "accept"))
        if step:
            ctx.ev("threshold-reused-object-judged")
            if expect == "rejected":
                ctx.ev("threshold-reused-object-reject-judged")
        if kind == "several-deviations" and mode == "check":
            ctx.ev("several-deviations-%s-judged" % ("reject" if expect == "rejected" else "accept"))
        if is_gamma:
            ctx.ev("gamma-threshold-judged")
        if mode == "off":
            ctx.ev("check-disabled-judged")
            if spread >= 0.25:
                ctx.ev("check-disabled-on-gross-deviations-judged")
        if outcome != expect:
            if mode == "check":
                clause = ("accepted-although-paths-differ-by-more-than-precision" if expect == "rejected"
                          else "rejected-although-paths-agree-within-precision")
                eps_class = "default-precision" if eps_arg is None else ("zero-precision" if eps == 0 else "given-precision")
                ctx.violation("%s|ultrametricity-check|%s|%s|%s|%s" % (rname, clause, kind, eps_class, objhist),
                              "longest - shortest root-to-tip path = %r, precision %r: %s" % (spread, eps, outcome), det)
            else:
                ctx.violation("%s|rejected-although-%s|%s" % (rname, "check-disabled" if mode == "off" else mode_name, objhist),
                              "UltrametricityError with %s" % mode_name, det)
            continue
        if outcome != "accepted" or is_gamma:
            continue      # gamma: the ages it leaves on the nodes are a side effect the statement does not describe
        nodes = list(ref.preorder(spec))
        if mode in ("max", "min"):
            want = U.forced_ages(spec, max if mode == "max" else min)
            ctx.ev("forcing-compared")
            for n, nd in zip(nodes, live):
                a = nd.age
                if a is None or abs(a - want[id(n)]) > slack:
                    ctx.violation("%s|%s-age-wrong" % (rname, mode_name), "age %r, %s over children of (age + length) %r" % (a, mode, want[id(n)]), det)
                    break
        else:
            ctx.ev("accepted-ages-judged")
            for n, nd in zip(nodes, live):
                a = nd.age
                l, h = tr[id(n)]
                if a is None or not (l - slack <= a <= h + slack):
                    ctx.violation("%s|age-outside-range-of-tip-distances|%s" % (rname, "no-deviation" if kind == "none" else ("check-disabled" if mode == "off" else "within-precision")),
                                  "age %r, distances to the descendant tips in [%r, %r]" % (a, l, h), det)
                    break
        # the returned collection: the ages of the nodes asked for (all / internal), sorted where documented
        ctx.ev("returned-ages-judged")
        wantlist = sorted(nd.age for n, nd in zip(nodes, live) if (n[3] or not internal_only) and nd.age is not None)
        try:
            got = list(res)
        except TypeError:
            got = None
        if got is None or sorted(got) != wantlist:
            ctx.violation("%s|returned-ages-differ-from-node-ages|%s" % (rname, "internal-only" if internal_only else "all-nodes"),
                          "returned %s, ages on the nodes %s" % (None if got is None else sorted(got)[:8], wantlist[:8]), det)
        elif is_sorted and got != sorted(got):
            ctx.violation("%s|returned-ages-not-sorted" % rname, "returned %s" % got[:8], det)
    if rng.random() < 0.25:
        ok, e = core.call(ctx, "calc_node_ages", tree.calc_node_ages, allowed=(ValueError,), is_force_max_age=True, is_force_min_age=True)
        if ok:
            ctx.violation("calc_node_ages|both-forcing-options-accepted", "documented ValueError not raised", {"tree": ref.to_newick(base)})
    ctx.nontrivial(("thr", ref.canon(base), tuple(hist)))
    if case["i"] < 2:
        ctx.sample({"kind": "threshold", "ultrametric_tree": ref.to_newick(base), "history": hist})


# ---- statistics --------------------------------------------------------------------------------------
def run_stats(ctx, case, rng):
    from dendropy.calculate import treemeasure
    dyadic = rng.random() < 0.6
    spec = U.gen_tree(ctx.tier, rng, dyadic, allow_single=True)
    cls = "ultrametric"
    if rng.random() < 0.15 and spec[3]:
        # some lengths missing (Tree.length documents: counted as 0) or zero: the length-free statistics must not notice
        cls = "missing-or-zero-lengths"
        nr = [n for n in ref.preorder(spec) if n is not spec]
        for n in nr:
            r = rng.random()
            if r < 0.3:
                n[2] = None
            elif r < 0.5:
                n[2] = 0.0
        if all(n[2] for n in nr):
            rng.choice(nr)[2] = None
        ctx.ev("stats-tree-with-missing-or-zero-lengths")
    spec, unary = U.maybe_unary(spec, rng)
    if unary:
        ctx.ev("tree-with-unary-node")
    root_len = None
    if rng.random() < 0.35:
        root_len = spec[2] = rng.choice([0, 0.75, 2, 1.0, 3.5])
        ctx.ev("stats-tree-with-root-edge-length")
    all_lengths = all(n[2] is not None for n in ref.preorder(spec) if n is not spec)
    want, binary, nl = U.stat_oracles(spec)
    poly = any(len(n[3]) > 2 for n in ref.preorder(spec))
    rooted = pick_rooting(rng)
    det = {"tree": ref.to_newick(spec), "class": cls, "rooted": rooted}
    rdisc = "|root-edge-has-length" if root_len else ""
    variants = [spec, gen.shuffle_children(spec, rng)]
    hist_variant = rng.randrange(2)
    for vi, sp in enumerate(variants):
        tree = fresh(sp, rooted)

        def cmp(name, key, fn, *a, **kw):
            disc = kw.pop("disc", "")
            alt = kw.pop("alt", None)
            ok, got = core.call(ctx, name, fn, *a, detail=det, **kw)
            if not ok:
                return
            ctx.ev("statistic-compared")
            if disc:
                ctx.ev("statistic-compared%s" % disc)
            for w in [want[key]] + ([alt] if alt is not None else []):
                try:
                    same = all(close(x, y) for x, y in zip(got, w)) and len(got) == len(w) if isinstance(w, tuple) else close(got, w)
                except TypeError:
                    same = False
                if same:
                    return
            ctx.violation("%s|differs-from-definition|%s%s%s" % (name.split("(")[0], key, disc, "|after-child-reordering" if vi else ""),
                          "%r, definition gives %r" % (got, want[key]), det)
        # Tree.length: 'sum of edge lengths', a missing length counts as 0; whether the root's own edge is a branch is left open
        cmp("Tree.length", "length", tree.length, alt=(want["length"] + root_len) if root_len else None,
            disc="|missing-lengths" if not all_lengths else "")
        if all_lengths:
            cmp("Tree.max_distance_from_root", "maxdist", tree.max_distance_from_root, disc=rdisc)
            cmp("Tree.minmax_leaf_distance_from_root", "minmax", tree.minmax_leaf_distance_from_root, disc=rdisc)
            if "treeness" in want:
                cmp("treeness", "treeness", treemeasure.treeness, tree, disc=rdisc)
                cmp("Tree.treeness", "treeness", tree.treeness, disc=rdisc)
        cmp("N_bar", "N_bar", treemeasure.N_bar, tree)
        cmp("Tree.N_bar", "N_bar", tree.N_bar)
        cmp("B1", "B1", treemeasure.B1, tree)
        cmp("Tree.B1", "B1", tree.B1)
        for norm in (None, True, "yule", "pda"):
            cmp("sackin_index", "sackin:%s" % norm, treemeasure.sackin_index, tree, normalize=norm)
            cmp("Tree.sackin_index", "sackin:%s" % norm, tree.sackin_index, normalize=norm)
        cmp("sackin_index", "sackin:None", treemeasure.sackin_index, tree, normalize=False)
        cmp("Tree.sackin_index", "sackin:None", tree.sackin_index, normalize=False)
        # normalisation left to its documented default / passed positionally
        cmp("sackin_index", "sackin:True", treemeasure.sackin_index, tree, disc="|default-normalisation")
        cmp("Tree.sackin_index", "sackin:True", tree.sackin_index, disc="|default-normalisation")
        pn = rng.choice([None, False, True, "yule", "pda"])
        pk = "sackin:%s" % (None if pn is False else pn)
        cmp("sackin_index", pk, treemeasure.sackin_index, tree, pn, disc="|positional-normalisation")
        cmp("Tree.sackin_index", pk, tree.sackin_index, pn, disc="|positional-normalisation")
        if unary:
            # Colless' statistic and gamma are defined on binary trees; the library documents an error for polytomies only
            for label, fn in (("colless_tree_imbalance", lambda: treemeasure.colless_tree_imbalance(tree, None)),
                              ("pybus_harvey_gamma", lambda: treemeasure.pybus_harvey_gamma(fresh(sp, rooted)))):
                try:
                    fn()
                    ctx.note("%s on a tree with outdegree-one nodes returned a value (not judged)" % label)
                except core.CaseTimeout:
                    raise
                except Exception as e:
                    ctx.note("%s on a tree with outdegree-one nodes raised %s (not judged)" % (label, type(e).__name__))
        elif binary and nl >= 2:
            for norm, key in ((None, "None"), (False, "None"), ("max", "max"), (True, "max"), ("yule", "yule"), ("pda", "pda")):
                if "colless:%s" % key in want:
                    cmp("colless_tree_imbalance", "colless:%s" % key, treemeasure.colless_tree_imbalance, tree, normalize=norm)
                    cmp("Tree.colless_tree_imbalance", "colless:%s" % key, tree.colless_tree_imbalance, normalize=norm)
            if "colless:max" in want:
                cmp("colless_tree_imbalance", "colless:max", treemeasure.colless_tree_imbalance, tree, disc="|default-normalisation")
                cmp("Tree.colless_tree_imbalance", "colless:max", tree.colless_tree_imbalance, disc="|default-normalisation")
            pn, pk = rng.choice([(None, "None"), (False, "None"), ("yule", "yule"), ("pda", "pda")])
            cmp("colless_tree_imbalance", "colless:%s" % pk, treemeasure.colless_tree_imbalance, tree, pn, disc="|positional-normalisation")
            cmp("Tree.colless_tree_imbalance", "colless:%s" % pk, tree.colless_tree_imbalance, pn, disc="|positional-normalisation")
        elif poly:
            ok, e = core.call(ctx, "colless_tree_imbalance", treemeasure.colless_tree_imbalance, tree, allowed=(TypeError,))
            if ok:
                ctx.violation("colless_tree_imbalance|no-TypeError-on-polytomy", "returned %r on a non-binary tree" % (e,), det)
        if cls == "ultrametric" and binary and nl >= 3 and not unary:
            g = U.gamma_oracle(sp)
            routes = (("pybus_harvey_gamma", lambda t: treemeasure.pybus_harvey_gamma(t)), ("Tree.pybus_harvey_gamma", lambda t: t.pybus_harvey_gamma()))
            for label, fn in routes:
                t5 = fresh(sp, rooted)
                ok, got = core.call(ctx, label, fn, t5, detail=det)
                if ok:
                    ctx.ev("statistic-compared")
                    if not close(got, g, 1e-8):
                        ctx.violation("%s|differs-from-definition%s%s" % (label, rdisc, "|after-child-reordering" if vi else ""), "%r, definition gives %r" % (got, g), det)
            if vi == hist_variant:
                gamma_history(ctx, rng, sp, rooted, routes, g, det)
    if nl >= 3:
        ctx.nontrivial(("stats", ref.canon(spec)))
    if case["i"] < 2:
        ctx.sample({"kind": "stats", "tree": ref.to_newick(spec), "oracle": dict((k, v) for k, v in want.items() if not isinstance(v, tuple))})


def gamma_history(ctx, rng, sp, rooted, routes, g, det0):
    """gamma on ONE tree object: after an earlier age computation, after node heights were changed (tree still ultrametric),
    after the tree stopped being ultrametric: every answer must describe the tree as it is at the time of the call."""
    t = fresh(sp, rooted)
    live = live_nodes(t, sp)
    warm = rng.choice(["calc_node_ages", "resolve_node_ages", "is_force_max_age", "node_ages", "gamma"])
    det = dict(det0, earlier_call=warm)
    label, fn = rng.choice(routes)
    if warm == "calc_node_ages":
        ok, _ = core.call(ctx, "calc_node_ages", t.calc_node_ages, detail=det)
    elif warm == "resolve_node_ages":
        ok, _ = core.call(ctx, "resolve_node_ages", t.resolve_node_ages, detail=det)
    elif warm == "is_force_max_age":
        ok, _ = core.call(ctx, "calc_node_ages", t.calc_node_ages, is_force_max_age=True, detail=det)
    elif warm == "node_ages":
        ok, _ = core.call(ctx, "node_ages", t.node_ages, detail=det)
    else:
        ok, _ = core.call(ctx, label, fn, t, detail=det)
    if not ok:
        return
    ok, got = core.call(ctx, label, fn, t, detail=det)
    if ok:
        ctx.ev("gamma-reused-object-compared")
        if not close(got, g, 1e-8):
            ctx.violation("%s|differs-from-definition|object-queried-before" % label, "%r, definition gives %r" % (got, g), det)
    cur = ref.copy(sp)
    change = U.shift_height(cur, rng)
    if change is not None:
        nodes = list(ref.preorder(cur))
        for i, ln in change:
            nodes[i][2] = ln
            live[i].edge.length = ln
        g2 = U.gamma_oracle(cur)
        det = dict(det, tree_now=ref.to_newick(cur))
        label, fn = rng.choice(routes)
        ok, got = core.call(ctx, label, fn, t, detail=det)
        if ok:
            ctx.ev("gamma-after-change-compared")
            if not close(got, g2, 1e-8):
                ctx.violation("%s|stale-after-node-heights-changed" % label,
                              "%r, definition gives %r for the tree as it is now (%r before the change)" % (got, g2, g), det)
    # one tip pushed off by much more than the default precision: documented ValueError, whatever was computed before
    nodes = list(ref.preorder(cur))
    tips = [i for i, n in enumerate(nodes) if not n[3]]
    i = rng.choice(tips)
    off = rng.choice([0.5, 1.0, 0.125])
    nodes[i][2] = nodes[i][2] + off
    live[i].edge.length = nodes[i][2]
    det = dict(det, tree_now=ref.to_newick(cur))
    for objhist, tt in (("object-queried-before", t), ("fresh-object", fresh(cur, rooted))):
        label, fn = rng.choice(routes)
        ok, got = core.call(ctx, label, fn, tt, allowed=(ValueError,), detail=det)
        ctx.ev("gamma-non-ultrametric-judged")
        if ok:
            ctx.violation("%s|no-error-on-non-ultrametric-tree|%s" % (label, objhist),
                          "returned %r although one tip is %r further from the root than the others" % (got, off), det)
