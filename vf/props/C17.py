"""C17  Node ages, the ultrametricity check and tree statistics match their definitions.

Monitors: hooks (call/return/raise counters) on the age/depth/lineage functions of Tree and on every statistic of
dendropy.calculate.treemeasure; every call's outcome (value or exception class) is compared with an oracle written
from the definitions on the spec of the same tree:
  ages            exactly ultrametric (dyadic) trees: age(node) == distance to its descendant tips, exactly
  depths          resolve_node_depths / calc_node_root_distances == distance from the root
  restore         set_edge_lengths_from_node_ages restores the original lengths
  lineages        num_lineages_at(d) == #{edges (p,c): depth(p) < d <= depth(c)}   (positive edge lengths)
  accept/reject   one tip or subtree pushed off by delta: delta = eps*(1-1e-3) accepted, eps*(1+1e-3) rejected with
                  UltrametricityError, for eps in {default 1e-5, 1e-2, 1e-9}; eps = 0 rejects any delta > 0;
                  check disabled (None / False / negative) never rejects; accepted trees: every age within the range
                  of the node's tip distances
  forcing         is_force_max_age / is_force_min_age: age == max / min over children of (child age + length), no rejection
  statistics      length, max/minmax root distance, N-bar, Sackin (None/True/yule/pda), Colless (None/max/yule/pda),
                  B1, treeness, Pybus-Harvey gamma == published formulas; unchanged by child shuffling; Tree.* wrappers agree
Soundness limits: accept/reject judged for a single perturbation only; gamma on binary ultrametric trees with >= 3 leaves;
Colless on binary trees (others must raise the documented TypeError); lineage counts only with positive lengths."""
import math
import random

from .. import ref, gen, bridge, core
from ..mon.hooks import Hooks

PROP = "C17"
LEVEL_TEXT = 'Ages/depths/lineage counts/statistics returned by the hooked functions are compared with formula oracles on generated ultrametric trees (dyadic heights: exact arithmetic); the ultrametricity check is probed with a single perturbation on both sides of each precision; forcing options against max/min recursion.'
LEVEL_NOTE = 'Trusted: the formulas transcribed from the cited papers; single-perturbation reading of the per-node criterion.'
LEVEL = "exploration"
TECHNIQUE = "runtime monitoring: hooked age/statistic functions compared with formula oracles on generated ultrametric and perturbed trees"
RULE = ("tree (all binary+polytomous shapes n<=5 via random generation, random up to 200 leaves, dyadic or float ultrametric heights) x "
        "precision x forcing option x single perturbation on either side of the precision x normalisation option; non-trivial = >= 3 leaves; "
        "distinct = (canonical tree with lengths, option set)")
REACH = ["_tree:Tree.calc_node_ages", "_tree:Tree.node_ages", "_tree:Tree.internal_node_ages", "_tree:Tree.resolve_node_ages",
         "_tree:Tree.resolve_node_depths", "_tree:Tree.calc_node_root_distances", "_tree:Tree.set_edge_lengths_from_node_ages",
         "_tree:Tree.num_lineages_at", "_tree:Tree.length", "_tree:Tree.max_distance_from_root", "_tree:Tree.minmax_leaf_distance_from_root",
         "treemeasure:B1", "treemeasure:colless_tree_imbalance", "treemeasure:pybus_harvey_gamma", "treemeasure:N_bar",
         "treemeasure:sackin_index", "treemeasure:treeness"]
MIN_EVENTS = {"ages-compared": (500, 15000), "threshold-accept-judged": (500, 8000), "threshold-reject-judged": (500, 5000),
              "statistic-compared": (5000, 150000), "lineages-compared": (2000, 60000), "forcing-compared": (300, 8000),
              "tree-with-root-edge-length": (500, 2000)}
ASSUMPTIONS = ["formulas: Sackin/Colless normalisations after Blum & Francois 2006 / Kirkpatrick & Slatkin 1993, B1 after Shao & Sokal 1990, gamma after Pybus & Harvey 2000",
               "dyadic heights make reference arithmetic exact; float cases use 1e-9 relative tolerance"]
EULER = 0.5772156649015328606


def close(a, b, tol=1e-9):
    if a == b:
        return True
    return abs(a - b) <= tol * max(1.0, abs(a), abs(b))


# ---- oracles -------------------------------------------------------------------------------------
def tip_distances(s):
    """id(node) -> sorted list of distances to its descendant tips."""
    memo = {}
    for n in ref.postorder(s):
        if not n[3]:
            memo[id(n)] = [0.0]
        else:
            memo[id(n)] = sorted(d + c[2] for c in n[3] for d in memo[id(c)])
    return memo


def forced_ages(s, fn):
    memo = {}
    for n in ref.postorder(s):
        memo[id(n)] = 0.0 if not n[3] else fn(memo[id(c)] + c[2] for c in n[3])
    return memo


def stat_oracles(s):
    rd = ref.root_distances(s)
    leaves = [(n, d, k) for n, d, k in rd if not n[3]]
    nl = len(leaves)
    S = sum(k for n, d, k in leaves)
    out = {"N_bar": S / float(nl), "sackin:None": float(S), "sackin:True": S / float(nl),
           "sackin:yule": (S - 2.0 * nl * sum(1.0 / j for j in range(2, nl + 1))) / nl,
           "sackin:pda": S / (nl ** 1.5)}
    # B1
    h = {}
    b1 = 0.0
    for n in ref.postorder(s):
        if not n[3]:
            h[id(n)] = 0
        else:
            h[id(n)] = 1 + max(h[id(c)] for c in n[3])
            if n is not s:
                b1 += 1.0 / h[id(n)]
    out["B1"] = b1
    # Colless
    binary = all(len(n[3]) in (0, 2) for n in ref.preorder(s))
    if binary and nl >= 2:
        cnt = {}
        I = 0
        for n in ref.postorder(s):
            if not n[3]:
                cnt[id(n)] = 1
            else:
                a, b = cnt[id(n[3][0])], cnt[id(n[3][1])]
                I += abs(a - b)
                cnt[id(n)] = a + b
        out["colless:None"] = float(I)
        if nl >= 3:
            out["colless:max"] = I * 2.0 / ((nl - 1) * (nl - 2))
        out["colless:yule"] = (I - nl * math.log(nl) - nl * (EULER - 1.0 - math.log(2))) / nl
        out["colless:pda"] = I / (nl ** 1.5)
    tot = sum(n[2] for n in ref.preorder(s) if n is not s)
    if tot:
        out["treeness"] = sum(n[2] for n in ref.preorder(s) if n is not s and n[3]) / tot
    out["length"] = tot
    out["maxdist"] = max(d for n, d, k in rd)
    out["minmax"] = (min(d for n, d, k in leaves), max(d for n, d, k in leaves))
    return out, binary, nl


def gamma_oracle(s, ages):
    """Pybus & Harvey (2000) eq. 1 from the internal node ages of a binary ultrametric tree with n tips."""
    n = len(ref.leaves(s))
    t = sorted((ages[id(x)] for x in ref.preorder(s) if x[3]), reverse=True)   # root first
    g = {}
    for k in range(2, n + 1):          # g_k: time during which there are k lineages
        older = t[k - 2]
        younger = t[k - 1] if k - 1 < len(t) else 0.0
        g[k] = older - younger
    T = sum(j * g[j] for j in range(2, n + 1))
    inner = sum(sum(k * g[k] for k in range(2, i + 1)) for i in range(2, n))
    return (inner / (n - 2.0) - T / 2.0) / (T * math.sqrt(1.0 / (12.0 * (n - 2))))


# ---- workload ------------------------------------------------------------------------------------
def cases(tier, seed):
    for i in range(6000 if tier == "quick" else 40000):
        yield {"kind": "ultrametric", "i": i, "seed": seed}
    for i in range(10000 if tier == "quick" else 60000):
        yield {"kind": "threshold", "i": i, "seed": seed}
    for i in range(5000 if tier == "quick" else 30000):
        yield {"kind": "stats", "i": i, "seed": seed}


def fresh(spec, rooted=True):
    import dendropy
    ns = dendropy.TaxonNamespace(sorted(ref.leaf_taxa(spec)))
    t, nodes = None, None
    t = bridge.build_tree(spec, ns, rooted)
    return t


def live_map(tree, spec):
    s2, pairs = bridge.extract(tree, with_nodes=True)
    # tree was built from spec: same pre-order
    return dict((id(a), nd) for a, (b, nd) in zip(ref.preorder(spec), pairs))


def install_counters(ctx, hooks):
    import dendropy
    from dendropy.calculate import treemeasure
    for name in ("calc_node_ages", "node_ages", "internal_node_ages", "resolve_node_ages", "resolve_node_depths",
                 "calc_node_root_distances", "set_edge_lengths_from_node_ages", "num_lineages_at", "length",
                 "max_distance_from_root", "minmax_leaf_distance_from_root"):
        hooks.install(dendropy.Tree, name)
    for name in ("B1", "colless_tree_imbalance", "pybus_harvey_gamma", "N_bar", "sackin_index", "treeness"):
        hooks.install(treemeasure, name)


def run_case(case, ctx):
    rng = random.Random("%s/%s" % (case["seed"], sorted((k, str(v)) for k, v in case.items())))
    with Hooks(ctx) as hooks:
        install_counters(ctx, hooks)
        if case["kind"] == "ultrametric":
            run_ultrametric(ctx, case, rng)
        elif case["kind"] == "threshold":
            run_threshold(ctx, case, rng)
        else:
            run_stats(ctx, case, rng)


def gen_tree(ctx, rng, dyadic=True, binary=None):
    quick = ctx.tier == "quick"
    n = rng.choice([2, 3, 4, 5, 6, 9, 14, 20]) if quick else rng.choice([2, 3, 4, 5, 6, 10, 25, 60, 200])
    if binary is None:
        binary = rng.random() < 0.6
    spec = gen.random_spec(rng, n, p_poly=0.0 if binary else 0.4, shape=rng.choice([None, None, None, "caterpillar", "balanced"]))
    gen.ultrametric_lengths(spec, rng, dyadic=dyadic)
    return spec


def run_ultrametric(ctx, case, rng):
    from dendropy.utility import error
    dyadic = rng.random() < 0.7
    spec = gen_tree(ctx, rng, dyadic)
    # a length on the root's own edge (as the simulators and '(...):0.75;' sources leave it) belongs to no root-to-node
    # path: ages, depths, root distances and lineage counts must not see it (seeded change C17c)
    if rng.random() < 0.35:
        spec[2] = rng.choice([0, 0.75, 2, 1.0, 3.5])
        ctx.ev("tree-with-root-edge-length")
    det = {"tree": ref.to_newick(spec), "dyadic": dyadic}
    tree = fresh(spec)
    lm = live_map(tree, spec)
    td = tip_distances(spec)
    tol = 0 if dyadic else 1e-9
    ok, res = core.call(ctx, "calc_node_ages", tree.calc_node_ages, detail=det)
    if ok:
        ctx.ev("ages-compared")
        for n in ref.preorder(spec):
            want = td[id(n)][0]
            got = lm[id(n)].age
            if not (got == want or (tol and close(got, want))):
                ctx.violation("calc_node_ages|age-differs-from-tip-distance", "age %r, distance to tips %r" % (got, want), det)
                break
        allages = sorted(td[id(n)][0] for n in ref.preorder(spec))
        if len(res) != len(allages) or any(not close(a, b) for a, b in zip(sorted(res), allages)):
            ctx.violation("calc_node_ages|returned-ages-wrong", "returned %s" % sorted(res)[:10], det)
        for fnname, internal in (("node_ages", False), ("internal_node_ages", True)):
            t2 = fresh(spec)
            ok2, r2 = core.call(ctx, fnname, getattr(t2, fnname), detail=det)
            want = sorted(td[id(n)][0] for n in ref.preorder(spec) if (n[3] or not internal))
            ctx.ev("ages-compared")
            if ok2 and (list(r2) != sorted(r2) or len(r2) != len(want) or any(not close(a, b) for a, b in zip(r2, want))):
                ctx.violation("%s|wrong" % fnname, "got %s want %s" % (list(r2)[:8], want[:8]), det)
        # restore lengths from ages
        orig = [n[2] for n in ref.preorder(spec)]
        for nd in tree.preorder_node_iter():
            if nd._parent_node is not None:
                nd.edge.length = 123.0
        ok3, _ = core.call(ctx, "set_edge_lengths_from_node_ages", tree.set_edge_lengths_from_node_ages, detail=det)
        if ok3:
            ctx.ev("ages-compared")
            s2 = bridge.extract(tree)
            for a, b in zip(ref.preorder(spec), ref.preorder(s2)):
                if a is spec:
                    continue
                if not (a[2] == b[2] or (tol and close(a[2], b[2]))):
                    ctx.violation("set_edge_lengths_from_node_ages|lengths-not-restored", "%r -> %r" % (a[2], b[2]), det)
                    break
    # resolve_node_ages / depths (no ultrametricity requirement)
    tree = fresh(spec)
    lm = live_map(tree, spec)
    rd = dict((id(n), d) for n, d, k in ref.root_distances(spec))
    ok, cache = core.call(ctx, "resolve_node_depths", tree.resolve_node_depths, detail=det)
    if ok:
        ctx.ev("ages-compared")
        for n in ref.preorder(spec):
            if not close(lm[id(n)].depth, rd[id(n)]) or not close(cache[lm[id(n)]], rd[id(n)]):
                ctx.violation("resolve_node_depths|depth-differs-from-root-distance", "%r vs %r" % (lm[id(n)].depth, rd[id(n)]), det)
                break
    ok, cache = core.call(ctx, "resolve_node_ages", tree.resolve_node_ages, detail=det)
    if ok:
        ctx.ev("ages-compared")
        for n in ref.preorder(spec):
            if not close(lm[id(n)].age, td[id(n)][-1]) and not close(lm[id(n)].age, td[id(n)][0]):
                ctx.violation("resolve_node_ages|age-wrong", "%r vs %r" % (lm[id(n)].age, td[id(n)]), det)
                break
    ok, dists = core.call(ctx, "calc_node_root_distances", tree.calc_node_root_distances, detail=det)
    if ok:
        want = sorted(d for n, d, k in ref.root_distances(spec) if not n[3])
        if len(dists) != len(want) or any(not close(a, b) for a, b in zip(sorted(dists), want)):
            ctx.violation("calc_node_root_distances|wrong", "leaf distances differ", det)
    # lineages through time (positive lengths by construction)
    depths = sorted(set(rd.values()))
    qs = list(depths)
    for a, b in zip(depths, depths[1:]):
        qs.append((a + b) / 2.0)
    qs += [depths[-1] + 1.0, -1.0]
    if len(qs) > 40:
        qs = rng.sample(qs, 40)
    pm = ref.parent_map(spec)
    for d in qs:
        want = sum(1 for n in ref.preorder(spec) if pm[id(n)] is not None and rd[id(pm[id(n)])] < d <= rd[id(n)])
        ok, got = core.call(ctx, "num_lineages_at", tree.num_lineages_at, d, detail=det)
        if not dyadic and any(abs(d - x) < 1e-9 and d != x for x in depths):
            continue
        if ok:
            ctx.ev("lineages-compared")
            if got != want:
                ctx.violation("num_lineages_at|count-differs-from-crossing-edges", "at %r: %r lineages, %r edges cross" % (d, got, want), det)
                break
    # ---- the same tree object after its edge lengths were changed: every answer must describe the tree as it is now
    factor = rng.choice([2, 0.5, 4])
    core.call(ctx, "scale_edges", tree.scale_edges, factor, detail=det)
    for d in rng.sample(qs, min(len(qs), 8)):
        d2 = d * factor
        want = sum(1 for n in ref.preorder(spec) if pm[id(n)] is not None and rd[id(pm[id(n)])] * factor < d2 <= rd[id(n)] * factor)
        ok, got = core.call(ctx, "num_lineages_at", tree.num_lineages_at, d2, detail=det)
        if not dyadic:
            continue
        if ok:
            ctx.ev("lineages-compared")
            if got != want:
                ctx.violation("num_lineages_at|stale-after-edge-lengths-changed", "after scale_edges(%r), at %r: %r lineages, %r edges cross" % (factor, d2, got, want), det)
                break
    if dyadic:
        ok, res = core.call(ctx, "calc_node_ages", tree.calc_node_ages, detail=det)
        if ok:
            ctx.ev("ages-compared")
            for n in ref.preorder(spec):
                if lm[id(n)].age != td[id(n)][0] * factor:
                    ctx.violation("calc_node_ages|stale-after-edge-lengths-changed", "age %r, distance to tips now %r" % (lm[id(n)].age, td[id(n)][0] * factor), det)
                    break
        ok, mx = core.call(ctx, "max_distance_from_root", tree.max_distance_from_root, detail=det)
        if ok and mx != max(rd.values()) * factor:
            ctx.violation("max_distance_from_root|stale-after-edge-lengths-changed", "%r, now %r" % (mx, max(rd.values()) * factor), det)
    if len(ref.leaves(spec)) >= 3:
        ctx.nontrivial(("ultra", ref.canon(spec)))
    if case["i"] < 2:
        ctx.sample({"kind": "ultrametric", "tree": ref.to_newick(spec)})


def run_threshold(ctx, case, rng):
    from dendropy.utility import error
    spec = gen_tree(ctx, rng, dyadic=True)
    nodes = [n for n in ref.preorder(spec) if n is not spec]
    victim = rng.choice(nodes)
    eps_name, eps = rng.choice([("default", 1e-5), ("1e-2", 1e-2), ("1e-9", 1e-9), ("zero", 0)])
    side = rng.choice(["below", "above", "exact"])
    if eps == 0:
        delta = 0.0 if side != "above" else rng.choice([1e-12, 1e-6, 0.25])
    else:
        delta = eps * (1 - 1e-3) if side == "below" else (eps * (1 + 1e-3) if side == "above" else 0.0)
    sign = rng.choice([1, -1]) if victim[2] > 1e-1 else 1
    pspec = ref.copy(spec)
    pv = list(ref.preorder(pspec))[list(ref.preorder(spec)).index(victim)]
    pv[2] = pv[2] + sign * delta
    det = {"tree": ref.to_newick(spec), "perturbed_clade": sorted(ref.leaf_taxa(victim)), "delta": sign * delta, "precision": eps_name}
    kw = {} if eps_name == "default" else {"ultrametricity_precision": eps}
    tree = fresh(pspec)
    lm = live_map(tree, pspec)
    try:
        tree.calc_node_ages(**kw)
        outcome = "accepted"
    except error.UltrametricityError:
        outcome = "rejected"
    except core.CaseTimeout:
        raise
    except Exception as e:
        ctx.unexpected("calc_node_ages", e, det)
        return
    expect = "rejected" if (delta > eps) else "accepted"
    # only siblings make a deviation visible: a perturbed only-child cannot be detected and need not be
    pm = ref.parent_map(spec)
    ctx.ev("threshold-%s-judged" % ("reject" if expect == "rejected" else "accept"))
    if outcome != expect:
        ctx.violation("calc_node_ages|ultrametricity-check|%s-although-deviation-%s-precision|%s" % (
            outcome, "exceeds" if delta > eps else "within", eps_name),
            "deviation %r, precision %r: %s" % (delta, eps, outcome), det)
    elif outcome == "accepted":
        td = tip_distances(pspec)
        for n in ref.preorder(pspec):
            lo, hi = td[id(n)][0], td[id(n)][-1]
            a = lm[id(n)].age
            if not (lo - 1e-12 <= a <= hi + 1e-12):
                ctx.violation("calc_node_ages|age-outside-range-of-tip-distances", "age %r not in [%r, %r]" % (a, lo, hi), det)
                break
    # check disabled: never rejects
    for off in (None, False, -1):
        t2 = fresh(pspec)
        ok, _ = core.call(ctx, "calc_node_ages(check-disabled)", t2.calc_node_ages, ultrametricity_precision=off, detail=det)
    # forcing options on a grossly non-ultrametric version
    gspec = ref.copy(spec)
    for n in ref.preorder(gspec):
        if n is not gspec and rng.random() < 0.4:
            n[2] = n[2] + rng.randint(1, 8) / 4.0
    for opt, fn in (("is_force_max_age", max), ("is_force_min_age", min)):
        t3 = fresh(gspec)
        lm3 = live_map(t3, gspec)
        want = forced_ages(gspec, fn)
        ok, _ = core.call(ctx, "calc_node_ages(%s)" % opt, t3.calc_node_ages, detail=det, **{opt: True})
        if ok:
            ctx.ev("forcing-compared")
            for n in ref.preorder(gspec):
                if lm3[id(n)].age != want[id(n)]:
                    ctx.violation("calc_node_ages|%s-age-wrong" % opt, "age %r, %s over children %r" % (lm3[id(n)].age, fn.__name__, want[id(n)]),
                                  dict(det, forced_tree=ref.to_newick(gspec)))
                    break
    t4 = fresh(gspec)
    ok, e = core.call(ctx, "calc_node_ages", t4.calc_node_ages, allowed=(ValueError,), is_force_max_age=True, is_force_min_age=True)
    if ok:
        ctx.violation("calc_node_ages|both-forcing-options-accepted", "documented ValueError not raised", det)
    ctx.nontrivial(("thr", ref.canon(spec), eps_name, side, sorted(ref.leaf_taxa(victim))))
    if case["i"] < 2:
        ctx.sample(dict(det, outcome=outcome))


def run_stats(ctx, case, rng):
    import dendropy
    from dendropy.calculate import treemeasure
    dyadic = rng.random() < 0.6
    spec = gen_tree(ctx, rng, dyadic)
    want, binary, nl = stat_oracles(spec)
    det = {"tree": ref.to_newick(spec)}
    variants = [spec, gen.shuffle_children(spec, rng)]
    for vi, sp in enumerate(variants):
        tree = fresh(sp)

        def cmp(name, key, fn, *a, **kw):
            ok, got = core.call(ctx, name, fn, *a, detail=det, **kw)
            if not ok:
                return
            ctx.ev("statistic-compared")
            w = want[key]
            same = all(close(x, y) for x, y in zip(got, w)) if isinstance(w, tuple) else close(got, w)
            if not same:
                ctx.violation("%s|differs-from-definition|%s%s" % (name.split("(")[0], key, "|after-child-reordering" if vi else ""),
                              "%r, definition gives %r" % (got, w), det)
        cmp("Tree.length", "length", tree.length)
        cmp("Tree.max_distance_from_root", "maxdist", tree.max_distance_from_root)
        cmp("Tree.minmax_leaf_distance_from_root", "minmax", tree.minmax_leaf_distance_from_root)
        cmp("N_bar", "N_bar", treemeasure.N_bar, tree)
        cmp("Tree.N_bar", "N_bar", tree.N_bar)
        cmp("B1", "B1", treemeasure.B1, tree)
        cmp("Tree.B1", "B1", tree.B1)
        if "treeness" in want:
            cmp("treeness", "treeness", treemeasure.treeness, tree)
            cmp("Tree.treeness", "treeness", tree.treeness)
        for norm in (None, True, "yule", "pda"):
            cmp("sackin_index", "sackin:%s" % norm, treemeasure.sackin_index, tree, normalize=norm)
            cmp("Tree.sackin_index", "sackin:%s" % norm, tree.sackin_index, normalize=norm)
        cmp("sackin_index", "sackin:None", treemeasure.sackin_index, tree, normalize=False)
        if binary and nl >= 2:
            for norm, key in ((None, "None"), (False, "None"), ("max", "max"), (True, "max"), ("yule", "yule"), ("pda", "pda")):
                if "colless:%s" % key in want:
                    cmp("colless_tree_imbalance", "colless:%s" % key, treemeasure.colless_tree_imbalance, tree, normalize=norm)
                    cmp("Tree.colless_tree_imbalance", "colless:%s" % key, tree.colless_tree_imbalance, normalize=norm)
        elif not binary:
            ok, e = core.call(ctx, "colless_tree_imbalance", treemeasure.colless_tree_imbalance, tree, allowed=(TypeError,))
            if ok and any(len(n[3]) > 2 for n in ref.preorder(sp)):
                ctx.violation("colless_tree_imbalance|no-TypeError-on-polytomy", "returned %r on a non-binary tree" % (e,), det)
        if binary and nl >= 3:
            td = tip_distances(sp)
            ages = dict((k, v[0]) for k, v in td.items())
            g = gamma_oracle(sp, ages)
            for label, fn in (("pybus_harvey_gamma", lambda t: treemeasure.pybus_harvey_gamma(t)), ("Tree.pybus_harvey_gamma", lambda t: t.pybus_harvey_gamma())):
                t5 = fresh(sp)
                ok, got = core.call(ctx, label, fn, t5, detail=det)
                if ok:
                    ctx.ev("statistic-compared")
                    if not close(got, g, 1e-8):
                        ctx.violation("%s|differs-from-definition%s" % (label, "|after-child-reordering" if vi else ""), "%r, definition gives %r" % (got, g), det)
    if nl >= 3:
        ctx.nontrivial(("stats", ref.canon(spec)))
    if case["i"] < 2:
        ctx.sample({"kind": "stats", "tree": ref.to_newick(spec), "oracle": dict((k, v) for k, v in want.items() if not isinstance(v, tuple))})
