"""C19 helper: the library-independent matrix model, the side-effect-free reader of a live matrix, the pool of watched
matrices (native and foreign) and the generators of matrices / namespaces / argument containers.

A model of one matrix is
    rows     {taxon label: [symbol or float, ...]}
    types    {taxon label: [label of the cell's CharacterType or None, ...]}      (WILD = "not named by the statement")
    subsets  {subset name: sorted column indices}
    label    the matrix label
A cell of this library is (value, character type, annotations) kept in three parallel lists; the reader reports a row whose
three lists differ in length, a row keyed by a Taxon object that is not a member of the matrix's namespace, and two rows
carrying one label, as malformations of their own (they are invisible in a {label: symbols} dictionary)."""

TYPES = {"dna": ("DnaCharacterMatrix", "ACGTRYN-?"), "protein": ("ProteinCharacterMatrix", "ACDEFGHIKLMNPQRSTVWYX-?"),
         "standard": ("StandardCharacterMatrix", "0123456789-?"), "rna": ("RnaCharacterMatrix", "ACGUN-"),
         "continuous": ("ContinuousCharacterMatrix", None), "restriction": ("RestrictionSitesCharacterMatrix", "01-?"),
         "infinite": ("InfiniteSitesCharacterMatrix", "01")}


class _Wild(object):
    def __repr__(self):
        return "*"


WILD = _Wild()      # a character type the statement does not determine (cells copied / created by an operation)


def cell(v):
    return getattr(v, "symbol", v)


def tag(ct):
    return None if ct is None else getattr(ct, "label", repr(ct))


class Model(object):
    __slots__ = ("rows", "types", "subsets", "label")

    def __init__(self, rows=None, types=None, subsets=None, label=None):
        self.rows = rows if rows is not None else {}
        self.types = types if types is not None else dict((k, [None] * len(v)) for k, v in self.rows.items())
        self.subsets = subsets if subsets is not None else {}
        self.label = label

    def complete(self, labels):
        return len(self.rows) == len(labels) and all(l in self.rows for l in labels)

    def equal_lengths(self):
        return len(set(len(v) for v in self.rows.values())) <= 1

    def width(self):
        return max([len(v) for v in self.rows.values()] or [0])


def snapshot(m, cache=None):
    """(Model, [malformation, ...]) of a live matrix, read without side effects (matrix[taxon] itself creates rows).
    ``cache`` ({id(taxon): (copy of the raw value list, symbols, copy of the raw type list, tags)} of THIS matrix): a row whose
    raw lists hold the same objects as at the last reading is not translated again (the comparison is the C list comparison,
    identity first; StateIdentity / CharacterType compare by identity, floats and str by value)."""
    rows, types, problems = {}, {}, []
    members = set(map(id, m.taxon_namespace))
    for taxon, seq in m._taxon_sequence_map.items():
        lbl = taxon.label
        if lbl in rows:
            problems.append("two-rows-with-one-label")
        if id(taxon) not in members:
            problems.append("row-keyed-by-a-taxon-outside-the-namespace")
        vals = seq.values()
        cts = getattr(seq, "_character_types", None)
        ann = getattr(seq, "_character_annotations", None)
        if cts is None or ann is None:
            cts = [t for _, t, _ in seq.cell_iter()]
            ann = cts
        n = len(vals)
        if len(cts) != n or len(ann) != n:
            problems.append("parallel-lists-of-a-row-differ-in-length")
            rows[lbl] = [getattr(v, "symbol", v) for v in vals]
            types[lbl] = [tag(cts[c]) if c < len(cts) else "<missing>" for c in range(n)]
            continue
        if cache is not None:
            e = cache.get(id(taxon))
            if e is not None and e[0] == vals and e[2] == cts:
                rows[lbl], types[lbl] = e[1], e[3]
                continue
        syms = [getattr(v, "symbol", v) for v in vals]
        tags = [None if t is None else tag(t) for t in cts]
        rows[lbl], types[lbl] = syms, tags
        if cache is not None:
            cache[id(taxon)] = (list(vals), syms, list(cts), tags)
    subsets = dict((str(k), sorted(cs.character_indices)) for k, cs in m.character_subsets.items())
    return Model(rows, types, subsets, m.label), problems


def types_agree(want, got):
    """want may hold WILD cells; lengths must agree"""
    if want == got:
        return True
    if set(want) != set(got):
        return False
    for k, w in want.items():
        g = got[k]
        if w == g:
            continue
        if len(w) != len(g):
            return False
        for a, b in zip(w, g):
            if a is not WILD and a != b:
                return False
    return True


NS_KINDS = ["same-labels", "shared-taxa", "subset-shared", "superset-shared", "empty"]


class Pool(object):
    """matrices of one data type over one namespace + a few matrices over OTHER namespaces, all watched."""

    def __init__(self, ctx, rng, dtype):
        import dendropy
        self.ctx, self.rng, self.dtype = ctx, rng, dtype
        self.cls = getattr(dendropy, TYPES[dtype][0])
        quick = ctx.tier == "quick"
        self.ntax = rng.choice([0, 1, 1, 2, 2, 3, 3, 5, 5, 8, 8]) if quick else rng.choice([0, 1, 1, 2, 2, 4, 4, 8, 8, 20, 20, 60])
        self.labels = ["t%d" % i for i in range(self.ntax)]
        self.ns = dendropy.TaxonNamespace(self.labels)
        self.mats = []      # live matrices over self.ns
        self.models = []
        self.foreign = []   # [matrix, Model, kind of namespace, fill]
        self.malformed = set()   # (id of a watched matrix, malformation) already reported
        self.cache = {}          # id of a watched matrix -> row cache of snapshot()
        self.maxlen = rng.choice([0, 1, 3, 6, 12]) if quick else rng.choice([0, 1, 5, 20, 100, 400])
        self._alpha = None

    # ------------------------------------------------------------------ values
    def alphabet(self):
        alpha = TYPES[self.dtype][1]
        if alpha is None:
            return None
        if self._alpha is None:
            probe = self.cls(taxon_namespace=self.ns)
            sa = probe.default_state_alphabet
            ok = []
            for ch in alpha:
                try:
                    sa[ch]
                    ok.append(ch)
                except KeyError:
                    pass
            self._alpha = "".join(ok)
        return self._alpha

    def values(self, n):
        rng = self.rng
        alpha = self.alphabet()
        if alpha is None:
            return [rng.choice([0.0, 1.5, -2.25, 1e-3, 7.0]) for _ in range(n)]
        return [rng.choice(alpha) for _ in range(n)]

    def raw(self, vals):
        """the argument form new_sequence / __setitem__ take: a string of symbols, or a list of floats"""
        return list(vals) if TYPES[self.dtype][1] is None else "".join(vals)

    # ------------------------------------------------------------------ matrices
    def new_matrix(self, ns=None, taxa=None, length=None, label="auto", ragged=False, route=None):
        """a fresh matrix and its model.  Construction routes: raw strings through new_sequence (cells are 1-character
        str), from_dict / coerce_values (cells are StateIdentity objects), cell-wise append with one CharacterType per column;
        rows are created in a random taxon order."""
        from dendropy.datamodel.charmatrixmodel import CharacterType
        rng = self.rng
        ns = ns if ns is not None else self.ns
        if taxa is None:
            taxa = [t for t in ns if rng.random() < 0.8]
        taxa = list(taxa)
        rng.shuffle(taxa)
        if length is None:
            length = rng.randint(0, self.maxlen)
        m = self.cls(taxon_namespace=ns)
        if label == "auto":
            label = rng.choice([None, None, "locus", "a", "A", "x y", "locus000"])
        m.label = label
        route = route or rng.choice(["str", "str", "dict", "setitem-coerced", "typed", "typed"])
        rows, types = {}, {}
        cts = [CharacterType(label="c%d" % c) for c in range(length)] if route == "typed" else None
        source = {}
        for t in taxa:
            n = length if not ragged else rng.randint(0, length)
            vals = self.values(n)
            rows[t.label] = [v.upper() if isinstance(v, str) else v for v in vals]
            types[t.label] = [None] * n
            if route == "str":
                m.new_sequence(t, self.raw(vals))
            elif route == "dict":
                source[t if rng.random() < 0.5 else t.label] = self.raw(vals)
            elif route == "setitem-coerced":
                m[t] = m.coerce_values(self.raw(vals))
            else:
                seq = m.new_sequence(t)
                coerced = m.coerce_values(self.raw(vals))
                for c in range(n):
                    seq.append(coerced[c], character_type=cts[c])
                types[t.label] = ["c%d" % c for c in range(n)]
        if route == "dict":
            self.cls.from_dict(source, char_matrix=m)
        self.ctx.ev("matrix-built:%s" % route)
        return m, Model(rows, types, {}, label)

    def add(self, m, model):
        self.mats.append(m)
        self.models.append(model)
        return len(self.mats) - 1

    def index_of(self, m):
        for i, x in enumerate(self.mats):
            if x is m:
                return i
        return None

    # ------------------------------------------------------------------ other namespaces
    def foreign_matrix(self, kind=None):
        """a watched matrix over ANOTHER namespace object: same label strings / the very same Taxon objects / a sub- or
        superset of them / empty; with all, some or no rows.  At most 3 per pool, then re-used (they acquire a history)."""
        import dendropy
        rng = self.rng
        if kind is None and len(self.foreign) >= 3:
            return rng.choice(self.foreign)
        kind = kind or rng.choice(NS_KINDS)
        own = list(self.ns)
        if kind == "same-labels":
            fns = dendropy.TaxonNamespace(self.labels)
        elif kind == "shared-taxa":
            fns = dendropy.TaxonNamespace(self.ns)
        elif kind == "subset-shared":
            fns = dendropy.TaxonNamespace([t for t in own if rng.random() < 0.5])
        elif kind == "superset-shared":
            fns = dendropy.TaxonNamespace(own)
            fns.new_taxon(label="x0")
            fns.new_taxon(label="x1")
        else:
            fns = dendropy.TaxonNamespace()
        assert fns is not self.ns
        fill = rng.choice(["full", "full", "partial", "empty"])
        taxa = list(fns) if fill == "full" else [] if fill == "empty" else [t for t in fns if rng.random() < 0.5]
        m, model = self.new_matrix(ns=fns, taxa=taxa, ragged=rng.random() < 0.3)
        entry = [m, model, kind, fill]
        self.foreign.append(entry)
        return entry

    # ------------------------------------------------------------------ the lock-step comparison
    def compare_one(self, where, role, m, model, det):
        ctx = self.ctx
        ctx.ev("pool-compared-with-model")
        got, problems = snapshot(m, self.cache.setdefault(id(m), {}))
        ok = True
        for p in sorted(set(problems)):
            if (id(m), p) not in self.malformed:        # a malformation stays: report it where it is first seen
                self.malformed.add((id(m), p))
                ctx.violation("%s|%s-matrix-malformed|%s" % (where, role, p), "a %s matrix of the pool is malformed: %s" % (role, p), det)
            ok = False
        if got.rows != model.rows:
            if set(got.rows) != set(model.rows):
                what = "rows %s, model %s" % (sorted(got.rows), sorted(model.rows))
                clause = "row-set"
            else:
                bad = [k for k in model.rows if model.rows[k] != got.rows[k]][0]
                what = "row %s is %s, model %s" % (bad, "".join(map(str, got.rows[bad]))[:60], "".join(map(str, model.rows[bad]))[:60])
                clause = "cells"
            ctx.violation("%s|%s-matrix-differs-from-model|%s" % (where, role, clause), what, det)
            ok = False
        elif not types_agree(model.types, got.types):
            if not problems:
                bad = [k for k in model.types if not types_agree({k: model.types[k]}, {k: got.types[k]})][0]
                ctx.violation("%s|%s-matrix-differs-from-model|cell-types" % (where, role),
                              "character types of row %s are %s, model %s" % (bad, got.types[bad][:12], model.types[bad][:12]), det)
            ok = False
        if got.subsets != model.subsets:
            ctx.violation("%s|%s-matrix-differs-from-model|subsets" % (where, role),
                          "character subsets %s, model %s" % (str(got.subsets)[:120], str(model.subsets)[:120]), det)
            ok = False
        if got.label != model.label:
            ctx.violation("%s|%s-matrix-differs-from-model|label" % (where, role), "label %r, model %r" % (got.label, model.label), det)
            ok = False
        # resynchronise (also resolves WILD cells) so that one defect is reported once
        model.rows, model.types, model.subsets, model.label = got.rows, got.types, got.subsets, got.label
        return ok

    def compare_all(self, where, det):
        roles = det.get("roles", {})
        ok = True
        for i, (m, model) in enumerate(zip(self.mats, self.models)):
            ok = self.compare_one(where, roles.get(i, "bystander"), m, model, det) and ok
        froles = det.get("foreign_roles", {})
        for i, entry in enumerate(self.foreign):
            ok = self.compare_one(where, froles.get(i, "bystander"), entry[0], entry[1], det) and ok
        return ok


# ---------------------------------------------------------------------- argument containers
CONTAINERS = ["list", "list", "tuple", "set", "iterator"]


def as_container(rng, items, kind=None, allow_range=False):
    """(kind, object to pass, the list if the caller can observe it afterwards else None)"""
    kind = kind or rng.choice(CONTAINERS)
    if allow_range and items and items == list(range(items[0], items[0] + len(items))) and rng.random() < 0.5:
        return "range", range(items[0], items[0] + len(items)), None
    if kind == "list":
        lst = list(items)
        return kind, lst, lst
    if kind == "tuple":
        return kind, tuple(items), None
    if kind == "set":
        return kind, set(items), None
    return kind, iter(list(items)), None
