"""C12  Copies are equal to their source and independent of it at the documented depth.

For every generated source (tree / tree list / character matrix / taxon namespace, plain or hostile-decorated
with comments, plain / attribute-bound / nested annotations, annotation values and extra attributes that point
back into the structure, encoded bipartitions, cell annotations, character types and subsets, boundary values
of every copied scalar, derived Tree / Node / TreeList classes, sources that were used and edited before) and every
copy route of the public API - in every spelling of the call - the real copy is made and the monitors judge:

  shared-mutable-object   object-graph walker (raw __dict__ / list / dict / set / tuple contents) from source and from
                          copy; an object of a mutable category (Tree, Node, Edge, Bipartition, Taxon, TaxonNamespace,
                          Annotation, AnnotationSet, TreeList, CharacterMatrix, CharacterDataSequence, CharacterType,
                          CharacterSubset, a user-made StateAlphabet, any list/dict/set, any other instance) reachable
                          from both must be in the route's documented shared set:
                             deepcopy, clone(2), X(src, taxon_namespace=other)            nothing
                             Tree(t), clone(), clone(1), copy.copy(tree), taxon_namespace_scoped_copy,
                             X(src, taxon_namespace=<its own>), TreeList(l)/Matrix(m), extract_tree*   what the namespace reaches
                             TaxonNamespace(ns), copy.copy(ns)                            what its taxa reach
                             copy.copy / clone(0) of TreeList / matrix (documented shallow) namespace + the member trees / sequences
  namespace-not-shared    the namespace-scoped routes must hand back the source's namespace object (taxa are compared by
                          identity through the canonical names of the signature)
  signature-differs       canonical signatures (raw fields; structure with back pointers, classes of tree / nodes / edges,
                          node / edge / tree labels, taxa, lengths, rooting, weight, ages, comments, annotations incl.
                          nesting and bound owners, extra attributes, bipartitions and edge maps, namespace labels /
                          comments / annotations, sequences, cell types, cell annotations, character types, subsets,
                          content of user-made state alphabets, tree_type of a list) of source and copy are equal
                          component by component
  extract_tree            every extraction (default arguments, suppress_unifurcations False, no source reference, random
                          node filters with both is_apply_filter_* flags, the four *_taxa / *_taxa_labels aliases,
                          Node.extract_subtree below a non-seed node, tree / node factories) is compared node by node with a
                          library-independent expectation computed from the raw source (_c12_extract): structure, node
                          labels, taxa (identity), lengths (merged lengths added), edge labels, the source reference
                          attribute; rooting and tree label through the signature; it must carry no comments,
                          annotations or extra attributes, share only the namespace and be independent
  bound-annotation-*      every attribute-bound annotation of the copy whose source counterpart is bound to a structural
                          object OR to an annotation is bound to the copy's counterpart, and setting that attribute on the
                          copy is what the annotation then shows
  mutation-visible        mutation journal: every class of later change (structural edit, length, labels, rooting, weight,
                          annotation add / change / in-place / drop / nest / bind, comment, bipartition encode / edit,
                          extras, taxon label, namespace add / remove, list append / remove / reverse, cell set / append /
                          delete, cell annotation, character type, subset, new state in a user-made alphabet) is applied
                          to one side through the public API and the OTHER side's signature is re-taken: it must not move
  second copy             after the journal the (now edited) source is copied again, by the same or by another route: the
                          result must be a new object, equal to the source as it is NOW, and must share with the FIRST
                          copy only what both routes document as shared (state kept between calls)
  hooks                   populate_memo_for_taxon_namespace_scoped_copy seeds exactly {namespace, its taxa} -> themselves;
                          deep_copy_annotations_from re-targets annotations bound to the source onto the destination
  source-changed          the source's own signature - taken before ANY call - is the same after the route ran
  malformed-copy          a route that hands back something the raw walk cannot read as a tree (wrong class, node without
                          child list, node reached twice) is a violation of its own, never a harness error
  exceptions              no copy route documents an error for these sources: any exception is a violation.  Keys name the
                          operation as <kind>.<deep-route> for every route that runs the memo-driven deep-copy machinery
                          (one root cause, one key) and mark sources that were themselves made by a copy constructor.
                          RecursionError on a tree deeper than 150 levels has its own key PER ROUTE and only for the
                          routes that run the recursive deep copy; anywhere else it is an ordinary unexpected exception.
  extract_tree()          with default arguments on a source that has outdegree-1 nodes: the parameter is documented as
                          "only done if some nodes are excluded", so the outdegree sequence must be kept (own key); all
                          other clauses are judged on that very copy against the merged expectation

Soundness limits: the module-level state alphabets are library constants (copy returns self) and state identities are
documented read-only: neither is entered; a user-made alphabet is a mutable part like any other; the bit assignment of a
copied namespace is C10's subject (recorded, not judged); changes to shared-by-design parts (taxa and namespace on
namespace-scoped routes, member trees / sequences on shallow routes) are not applied; X(src, taxon_namespace=other) is
compared on taxon labels (taxa are re-created by label; bipartition masks, namespace decorations not judged);
X(src, label=L) is compared with the source as it looks under L, label=None may mean None or "not given"; shallow copies
(copy.copy / clone(0) of tree lists and matrices) are not named by the statement: they are judged on member identity,
container independence, label and top-level annotations only (tree_type, comments, alphabets are recorded, not judged);
a merged length is judged only when every part is present, the label of a merged edge is not judged; the classes of an
extracted tree's nodes are judged only when a factory was given; TaxonNamespace.clone(1) returns the namespace itself
(recorded); objects sharing one __dict__ are one object; data sets are excluded (documented non-copyable); trees deeper
than 80 levels are only built by the directed recursion-depth case (and a source that the journal made deeper is not
copied a second time); nodes carry taxa of the tree's namespace only; a
mutation that raises is recorded, not judged."""
import copy
import random
import sys
import warnings

from .. import ref, gen, bridge, core
from ..mon.hooks import Hooks
from . import _c12_util as U
from . import _c12_extract as X

PROP = "C12"
LEVEL = "exploration"
TECHNIQUE = ("runtime monitoring: object-graph walker (shared id-sets per mutable category), canonical-signature equality, "
             "a node-by-node extraction oracle, a mutation journal and a second copy of the edited source around every public "
             "copy route; hooks on memo seeding and annotation re-targeting")
LEVEL_TEXT = ("The real copy routes are run on generated, hostile-decorated sources; a walker over the raw object graph decides "
              "which mutable objects both sides reach, canonical signatures and an extraction oracle decide equality, a journal "
              "of later mutations decides independence and a second copy decides that no state is kept between calls. The "
              "property held (or not) on the executions listed in the evidence file, nothing more.")
LEVEL_NOTE = ("Trusted: the walker / signature / journal / extraction-oracle code in vf/props/_c12_*.py and C12.py, CPython's id(). "
              "Coverage is what the workload reached: all shapes n <= 5, random trees <= 30 (quick) / <= 150 (thorough) leaves, "
              "every matrix type, every copy route and spelling, every mutation class.")
RULE = ("cases = directed witnesses | all rooted shapes n<=4 x every tree route x {plain, decorated} (n=5: routes rotated by seed) | "
        "random (kind in tree/treelist/matrix/namespace, route and its spelling / option vector, decoration level, boundary "
        "values, derived classes, bipartition encoding, source used and edited before copying, source-is-itself-a-copy chain, "
        "second copy after the journal). non-trivial = the source has >= 2 members (nodes / trees / sequences / taxa) or >= 1 "
        "decoration and the route returned a new object; distinct = (kind, route, chain, id-free canonical signature of the source)")
REACH = ["basemodel:Annotable.__deepcopy__", "basemodel:Annotable.deep_copy_annotations_from",
         "basemodel:AnnotationSet.__deepcopy__", "basemodel:DataObject.clone",
         "taxonmodel:TaxonNamespace.populate_memo_for_taxon_namespace_scoped_copy", "taxonmodel:TaxonNamespace.__deepcopy__",
         "taxonmodel:TaxonNamespace.__copy__", "taxonmodel:Taxon.__deepcopy__",
         "_tree:Tree._clone_from", "_tree:Tree.taxon_namespace_scoped_copy", "_tree:Tree.__copy__", "_tree:Tree.__deepcopy__",
         "_tree:Tree.extract_tree", "_tree:Tree.extract_tree_with_taxa", "_tree:Tree.extract_tree_with_taxa_labels",
         "_tree:Tree.extract_tree_without_taxa", "_tree:Tree.extract_tree_without_taxa_labels",
         "_node:Node.extract_subtree", "_node:Node.__deepcopy__", "_edge:Edge.__deepcopy__",
         "treecollectionmodel:TreeList._clone_from", "treecollectionmodel:TreeList.__copy__",
         "treecollectionmodel:TreeList.taxon_namespace_scoped_copy",
         "charmatrixmodel:CharacterMatrix._clone_from", "charmatrixmodel:CharacterMatrix.__copy__",
         "charmatrixmodel:CharacterMatrix.taxon_namespace_scoped_copy", "container:OrderedSet.__deepcopy__", "container:OrderedCaselessDict.__deepcopy__"]
MIN_EVENTS = {"copy-made": (5000, 25000), "shared-set-judged": (5000, 25000), "signature-judged": (5000, 25000),
              "mutation-judged": (35000, 250000), "mutation-effective": (35000, 250000), "bound-follow-judged": (40000, 500000),
              "memo-seed-judged": (1700, 10000), "rebinding-judged": (70000, 1000000), "source-unchanged-judged": (5000, 25000),
              "extract-only-judged": (2000, 10000),
              # monitors added by the audit round
              "second-copy-judged": (1500, 5500), "extract-oracle-judged": (700, 3000), "extract-filtered-judged": (300, 1500),
              "extract-merge-judged": (140, 650), "extract-unary-judged": (60, 350), "extract-nodes-judged": (9000, 100000),
              "label-argument-judged": (600, 3000), "bound-to-annotation-judged": (11000, 160000),
              "source:used-before-copy": (700, 4500), "source:edge-maps-filled": (140, 1200),
              "source:derived-classes": (270, 1700), "source:boundary-values": (250, 1500), "source:user-made-alphabet": (100, 650),
              "mutation:alphabet-add-state": (60, 450), "call:clone-default": (370, 2000), "call:clone(depth=)": (330, 1700),
              "call:deepcopy(x {})": (100, 600), "call:nsscoped(memo={})": (80, 400), "call:nsscoped(memo=None)": (80, 400),
              "extract-api:extract_tree": (500, 2300), "extract-api:Node.extract_subtree": (45, 200),
              "extract-api:extract_tree_with_taxa": (35, 170), "extract-api:extract_tree_with_taxa_labels": (35, 170),
              "extract-api:extract_tree_without_taxa": (30, 170), "extract-api:extract_tree_without_taxa_labels": (30, 160)}
ASSUMPTIONS = ["reachability is computed from raw __dict__ / list / tuple / dict / set contents; the module-level state alphabets "
               "(library constants whose copy is the object itself) and state identities (documented read-only) are not entered",
               "objects that share one __dict__ are treated as one object",
               "mutations go through the public API; a mutation that raises is recorded and not judged (C03's subject)",
               "extraction: when an outdegree-1 node is deleted its child survives and the merged lengths are added"]
CASE_TIMEOUT = 120

TREE_ROUTES = ("deepcopy", "clone2", "ctor", "ctor-label", "clone1", "clone-default", "copy", "clone0", "nsscoped",
               "ctor-otherns", "ctor-samens", "extract", "extract-noref", "extract-filtered")
LIST_ROUTES = ("deepcopy", "clone2", "ctor", "ctor-label", "clone1", "clone-default", "nsscoped", "copy", "clone0",
               "ctor-otherns", "ctor-samens")
MATRIX_ROUTES = LIST_ROUTES
NS_ROUTES = ("deepcopy", "clone2", "ctor", "ctor-label", "copy", "clone0", "clone1", "clone-default")
ROUTES = {"tree": TREE_ROUTES, "treelist": LIST_ROUTES, "matrix": MATRIX_ROUTES, "ns": NS_ROUTES}
CHAINS = (None, None, None, "ctor", "clone1", "deepcopy")
DEEP_TREE = 150     # levels; deeper trees are only built by the directed recursion case
MAX_DEPTH = 80      # levels of a generated tree (decorated trees near 100 levels already exhaust the interpreter's
                    # recursion limit in the attribute-wise deep copy: the recorded recursion finding, not this workload's subject)
EXTRACT_ROUTES = ("extract", "extract-noref", "extract-filtered")


def share_mode(kind, route):
    if route in ("deepcopy", "clone2", "ctor-otherns"):
        return "none"
    if kind == "ns":
        return "self" if route in ("clone1", "clone-default") else "taxa"
    if kind in ("treelist", "matrix") and route in ("copy", "clone0"):
        return "shallow"
    return "ns"


MODE_TEXT = {"none": "nothing", "ns": "only the namespace and its taxa", "taxa": "only the taxa",
             "shallow": "only the namespace and the members", "self": "everything"}


# --------------------------------------------------------------------------------------------
def cases(tier, seed):
    for name in ("deep-caterpillar", "copy-of-constructed-copy", "untyped-cell-annotation", "extract-unifurcation",
                 "treelist-of-constructed-copy", "matrix-of-constructed-copy", "user-made-alphabet", "derived-classes",
                 "extract-filtered-witnesses", "copy-twice"):
        yield {"kind": "directed", "name": name, "seed": seed}
    for n in range(1, 6):
        nshapes = len(gen.all_shapes(n))
        for idx in range(nshapes):
            for deco in (0, 2):
                if n <= 4 or tier == "thorough":
                    routes = TREE_ROUTES
                else:
                    k = (idx + seed + deco) % len(TREE_ROUTES)
                    routes = (TREE_ROUTES[k], TREE_ROUTES[(k + 5) % len(TREE_ROUTES)])
                for r in routes:
                    yield {"kind": "shape", "n": n, "idx": idx, "deco": deco, "route": r, "seed": seed}
    nrand = 6000 if tier == "quick" else 35000
    for i in range(nrand):
        yield {"kind": "random", "i": i, "seed": seed, "tier": tier}     # sizes depend on the tier; --replay re-runs the descriptor alone


# --------------------------------------------------------------------------------------------
# hooks (in-flight monitors)
# --------------------------------------------------------------------------------------------
def install_hooks(ctx, outer, inner):
    L = U.L.load()

    def pre_memo(ns, args, kw):
        memo = args[0] if args else kw.get("memo")
        return None if memo is None else set(memo.keys())

    def post_memo(snap, ns, args, kw, result, exc):
        memo = args[0] if args else kw.get("memo")
        if exc is not None or memo is None or snap is None:
            return
        ctx.ev("memo-seed-judged")
        want = {id(ns): ns}
        for t in ns._taxa:
            want[id(t)] = t
        added = set(memo.keys()) - snap
        bad = [k for k, v in want.items() if memo.get(k) is not v]
        extra = [k for k in added if k not in want]
        if bad or extra:
            ctx.violation("populate_memo_for_taxon_namespace_scoped_copy|memo-not-exactly-namespace-and-taxa",
                          "memo seeded with %d wrong and %d extra entries" % (len(bad), len(extra)),
                          {"extra_types": sorted(set(type(memo[k]).__name__ for k in extra))})
    inner.install(L.TaxonNamespace, "populate_memo_for_taxon_namespace_scoped_copy", pre=pre_memo, post=post_memo,
                  outermost_only=False)

    def pre_dca(dest, args, kw):
        s = dest.__dict__.get("_annotations")
        return 0 if s is None else len(s._item_list)

    def post_dca(n0, dest, args, kw, result, exc):
        if exc is not None:
            return
        other = args[0] if args else kw.get("other")
        s1 = other.__dict__.get("_annotations")
        if s1 is None or not s1._item_list:
            return
        s2 = dest.__dict__.get("_annotations")
        got = [] if s2 is None else s2._item_list[n0:]
        ctx.ev("rebinding-judged")
        if len(got) != len(s1._item_list):
            ctx.violation("deep_copy_annotations_from|annotation-count",
                          "%d annotations copied for %d on the source %s" % (len(got), len(s1._item_list), type(other).__name__))
            return
        for a1, a2 in zip(s1._item_list, got):
            if a2 is a1:
                ctx.violation("deep_copy_annotations_from|annotation-object-shared", "the source's Annotation object was added to the copy")
                return
            if a1.__dict__.get("is_attribute") and a1._value[0] is other:
                if a2._value[0] is not dest or a2._value[1] != a1._value[1]:
                    ctx.violation("deep_copy_annotations_from|bound-annotation-not-retargeted",
                                  "annotation bound to the source %s is bound to %s on the copy" % (
                                      type(other).__name__, "the source" if a2._value[0] is other else "another object"),
                                  {"attribute": a1._value[1]})
                    return
        if s2.__dict__.get("target") is not dest:
            ctx.violation("deep_copy_annotations_from|annotation-set-target", "the copy's AnnotationSet targets another object")
    inner.install(L.Annotable, "deep_copy_annotations_from", pre=pre_dca, post=post_dca, outermost_only=False)
    for owner, name in ((L.Tree, "_clone_from"), (L.Tree, "taxon_namespace_scoped_copy"), (L.Tree, "extract_tree"),
                        (L.TreeList, "_clone_from"), (L.TreeList, "taxon_namespace_scoped_copy"),
                        (L.CharacterMatrix, "_clone_from"), (L.CharacterMatrix, "taxon_namespace_scoped_copy")):
        outer.install(owner, name)


# --------------------------------------------------------------------------------------------
# sources
# --------------------------------------------------------------------------------------------
def spec_depth(spec):
    best = 0
    stack = [(spec, 1)]
    while stack:
        n, d = stack.pop()
        best = max(best, d)
        for c in n[3]:
            stack.append((c, d + 1))
    return best


def make_tree(rng, spec, deco, rooted, encode, ns=None, extra_taxa=0, internal_taxa=False, extras=True, classes=None,
              boundary=False, dup_taxa=False):
    """classes = (tree class, node class) or None for the library's own; boundary = falsy / unusual scalar values;
    dup_taxa = the namespace holds unused taxa whose labels repeat or are empty."""
    import dendropy
    labels = sorted(set(ref.leaf_taxa(spec)))
    if internal_taxa:
        k = 0
        for n in ref.preorder(spec):
            if n[3] and n[0] is None and rng.random() < 0.3:
                n[0] = "I%d" % k
                k += 1
                labels.append(n[0])
    if ns is None:
        allv = labels + ["X%d" % i for i in range(extra_taxa)]
        if deco:
            rng.shuffle(allv)
        ns = dendropy.TaxonNamespace(allv, label=rng.choice([None, "taxa"]) if deco else None)
        if dup_taxa:
            # after the labels the builder looks up (it takes the first taxon of a label)
            for lb in rng.sample(["X0", "X0", "", "x0"], rng.randint(1, 3)):
                ns.add_taxon(dendropy.Taxon(label=lb))
        U.decorate_namespace(rng, ns, deco)
    lbl = rng.choice([None, "tree%d" % rng.randint(0, 9)]) if deco else None
    if classes is None:
        tree = bridge.build_tree(spec, ns, rooted, label=lbl)
    else:
        from . import _c12_sub as S
        tree = S.build_tree(spec, ns, rooted, lbl, classes[0], classes[1])
        if rng.random() < 0.5:
            tree.sub_extra = {"instance attribute of a derived class": [1, 2]}
    U.decorate_tree(rng, tree, deco, encode=encode, extras=extras)
    if boundary:
        U.decorate_boundary(rng, tree)
    return tree


def random_tree_spec(rng, tier, nmax=None):
    if nmax is None:
        nmax = 30 if tier == "quick" else 150
    n = rng.choice([1, 2, 3, 4, 6, 9, 14, 20, nmax]) if rng.random() < 0.9 else rng.randint(1, nmax)
    n = min(n, nmax)
    shape = rng.choice([None, None, None, "caterpillar", "star", "balanced"])
    if shape == "caterpillar":
        n = min(n, 90)
    spec = gen.random_spec(rng, n, p_poly=rng.choice([0, 0.3, 0.6]), p_unary=rng.choice([0, 0, 0.15, 0.3 if n <= 30 else 0.15]),
                           shape=shape)
    gen.decorate_lengths(spec, rng, rng.choice(gen.LENGTH_PATTERNS), root_length=rng.random() < 0.3)
    if spec_depth(spec) > MAX_DEPTH:
        spec = gen.random_spec(rng, min(n, 40), shape="balanced")
    return spec


def draw_classes(rng, p=0.15):
    if rng.random() >= p:
        return None
    from . import _c12_sub as S
    L = U.L.load()
    return rng.choice([(S.SubTree, S.SubNode), (S.SubTree, L.Node), (L.Tree, S.SubNode), (S.PlainTree, S.PlainNode)])


def make_source(kind, rng, tier, deco, ctx=None):
    """returns (source object, descriptor for the evidence)."""
    import dendropy
    if kind == "tree":
        spec = random_tree_spec(rng, tier)
        rooted = rng.choice([None, True, False])
        encode = rng.choice([None, None, "imm", "mut"])
        classes = draw_classes(rng)
        boundary = rng.random() < 0.2
        dup = rng.random() < 0.1
        src = make_tree(rng, spec, deco, rooted, encode, extra_taxa=rng.choice([0, 0, 2]), internal_taxa=rng.random() < 0.2,
                        classes=classes, boundary=boundary, dup_taxa=dup)
        if ctx is not None:
            if classes:
                ctx.ev("source:derived-classes")
            if boundary:
                ctx.ev("source:boundary-values")
        return src, {"tree": ref.to_newick(spec)[:200], "rooted": rooted, "encode": encode,
                     "classes": None if classes is None else [c.__name__ for c in classes], "boundary": boundary, "dup_taxa": dup}
    if kind == "treelist":
        n = rng.choice([1, 2, 3, 5, 8]) if tier == "quick" else rng.choice([1, 2, 4, 8, 15, 25])
        names = [gen.tname(i) for i in range(n)]
        k = rng.choice([0, 1, 2, 3, 5]) if tier == "quick" else rng.choice([0, 1, 2, 4, 8, 12])
        ns = dendropy.TaxonNamespace(names + ["X0"], label="taxa" if deco else None)
        U.decorate_namespace(rng, ns, deco)
        classes = draw_classes(rng, 0.2)
        if classes is None:
            tl = dendropy.TreeList(taxon_namespace=ns, label=rng.choice([None, "list"]))
        else:
            from . import _c12_sub as S
            lcls = rng.choice([dendropy.TreeList, S.SubList])
            tl = lcls(taxon_namespace=ns, label=rng.choice([None, "list", ""]), tree_type=classes[0])
            if ctx is not None:
                ctx.ev("source:derived-classes")
        for j in range(k):
            spec = gen.random_spec(rng, n, p_poly=0.3, names=names)
            gen.decorate_lengths(spec, rng, rng.choice(gen.LENGTH_PATTERNS))
            tl.append(make_tree(rng, spec, deco if rng.random() < 0.7 else 0, rng.choice([None, True, False]),
                                rng.choice([None, None, "imm"]), ns=ns, classes=classes, boundary=rng.random() < 0.15))
        if deco:
            if rng.random() < 0.6:
                tl.comments.append("list comment")
            if rng.random() < 0.7:
                refs = [tl[0], tl[0].seed_node] if (k and deco > 1) else ()
                U.annotate(rng, tl, bindable=("label",), refs=refs, depth=deco)
            if rng.random() < 0.3:
                tl.xinfo = {"first": tl[0] if k else None, "k": [k]}
        return tl, {"trees": k, "leaves": n, "classes": None if classes is None else [c.__name__ for c in classes]}
    if kind == "matrix":
        mtype = rng.choice(U.MATRIX_TYPES)
        n = rng.choice([1, 2, 3, 5]) if tier == "quick" else rng.choice([1, 2, 4, 8, 16])
        ncols = rng.choice([0, 1, 3, 6]) if tier == "quick" else rng.choice([0, 1, 4, 10, 30])
        untyped = rng.random() < 0.15
        m = U.build_matrix(rng, mtype, [gen.tname(i) for i in range(n)], deco, ncols, untyped_cell_annotations=untyped)
        U.decorate_namespace(rng, m.taxon_namespace, deco)
        if ctx is not None and U.custom_alphabets(m):
            ctx.ev("source:user-made-alphabet")
        return m, {"type": mtype, "taxa": n, "cols": ncols}
    if kind == "ns":
        n = rng.choice([0, 1, 2, 5, 9])
        labels = [gen.tname(i) for i in range(n)]
        if deco and n > 2 and rng.random() < 0.3:
            labels[1] = labels[0].lower()      # case variants of one label
        if deco and n > 2 and rng.random() < 0.2:
            labels[2] = rng.choice(["", labels[0], "0"])      # empty / repeated labels
        ns = dendropy.TaxonNamespace(labels, label=rng.choice([None, "taxa", ""]),
                                     is_case_sensitive=rng.random() < 0.3)
        U.decorate_namespace(rng, ns, deco)
        if deco and rng.random() < 0.4:
            for t in ns:
                ns.taxon_bitmask(t)
        if deco and n and rng.random() < 0.3:
            ns.get_taxon(labels[0])            # fills Taxon._lower_cased_label
        if deco and n and rng.random() < 0.3:
            ns.remove_taxon(ns[0])
        if deco and rng.random() < 0.3:
            ns.xinfo = {"note": ["ns extra"]}
        if deco and rng.random() < 0.2:
            ns.is_mutable = False
        return ns, {"taxa": n}
    raise ValueError(kind)


def preuse(ctx, kind, src, rng):
    """the source is used and edited through the public API before it is copied: lazily filled caches are filled,
    1-3 journal mutations make encodings stale, orphan objects stay reachable through the maps."""
    ctx.ev("source:used-before-copy")
    trees = [src] if kind == "tree" else (list(src) if kind == "treelist" else [])
    for t in trees:
        if t.bipartition_encoding and rng.random() < 0.7:
            try:
                t.bipartition_edge_map
                t.split_bitmask_edge_map
                ctx.ev("source:edge-maps-filled")
            except core.CaseTimeout:
                raise
            except Exception as e:
                ctx.note("preuse-raised:edge-maps:%s" % type(e).__name__)
    ns = src if kind == "ns" else src.taxon_namespace
    if len(ns) and rng.random() < 0.5:
        try:
            ns.get_taxon(ns[0].label)
            ns.taxon_bitmask(ns[0])
        except core.CaseTimeout:
            raise
        except Exception as e:
            ctx.note("preuse-raised:namespace:%s" % type(e).__name__)
    v = U.View(kind, src)
    # re-seeding can double the depth: deep sources keep their shape (see MAX_DEPTH)
    deep_src = max([tree_depth(t) for t in trees] or [0]) > MAX_DEPTH // 2
    j = U.Journal(rng, deep=True, prefix="u", skip=("struct-reseed",) if deep_src else ())
    classes = j.classes(kind)
    rng.shuffle(classes)
    want = rng.randint(1, 3)
    done = 0
    for mclass in classes:
        if done >= want:
            break
        try:
            applied = j.apply(mclass, v)
        except core.CaseTimeout:
            raise
        except Exception as e:
            ctx.note("preuse-raised:%s:%s" % (mclass, type(e).__name__))
            applied = True
        if applied:
            done += 1
            v.take()


NS_MODES = ("empty", "shuffled", "partial", "superset", "case-sensitive", "immutable-superset")


def other_namespace(rng, src_ns):
    """a target namespace for X(src, taxon_namespace=other); taxa are re-created / looked up by label."""
    import dendropy
    labels = [t.label for t in src_ns]
    mode = rng.choice(NS_MODES)
    if mode == "empty":
        return dendropy.TaxonNamespace(), mode
    if mode == "shuffled":
        sh = labels[:]
        rng.shuffle(sh)
        if sh == labels and len(sh) > 1:
            sh.reverse()
        return dendropy.TaxonNamespace(sh), mode
    if mode == "partial":
        sh = [x for x in labels if rng.random() < 0.5]
        sh.reverse()
        return dendropy.TaxonNamespace(["Q0"] + sh), mode
    sh = labels[:]
    rng.shuffle(sh)
    if mode == "case-sensitive":
        return dendropy.TaxonNamespace(["Q0"] + [x for x in sh if rng.random() < 0.7], is_case_sensitive=True), mode
    ns2 = dendropy.TaxonNamespace(["Q0"] + sh + ["Q1"])
    if mode == "immutable-superset":
        if len(set(labels)) != len(labels) or any(not isinstance(x, str) for x in labels):
            return ns2, "superset"
        ns2.is_mutable = False      # every label is present: nothing has to be added
    return ns2, mode


# --------------------------------------------------------------------------------------------
# the call: route + spelling + option vector
# --------------------------------------------------------------------------------------------
class Plan(object):
    """one concrete call of a copy route."""

    def __init__(self, route):
        self.route = route
        self.fn = None              # () -> copy
        self.spelling = route
        self.tag = route            # short id of the spelling (event counter)
        self.labels = None          # acceptable labels of the copy when label= was passed
        self.ns2 = None             # target namespace of ctor-otherns
        self.extract = None         # ExtractPlan


class ExtractPlan(object):
    def __init__(self):
        self.api = "extract_tree"
        self.start = None           # source node the extraction starts from
        self.whole_tree = True      # False: Node.extract_subtree (returns a node)
        self.is_excluded = lambda nd, is_leaf: False      # oracle-side meaning of the filter
        self.filtered = False       # a filter was passed
        self.suppress = True
        self.attr = "extraction_source"
        self.tree_type = None       # product of tree_factory when one was given
        self.node_type = None       # product of node_factory when one was given
        self.plain = None           # expectation without suppression, computed from the source BEFORE the call
        self.gone = 0               # number of source nodes the filter removes
        self.nothing_left = False
        self.nothing_left_errors = ()


def _label_choice(rng, src):
    """label= argument of a copy constructor -> (value, acceptable labels of the copy)."""
    k = rng.randrange(6)
    if k == 0:
        return "", [""]
    if k == 1:
        return src.label, [src.label]
    if k == 2:
        return None, [None, src.label]        # "None" may mean None or "not given": either is accepted
    if k == 3:
        return 0, [0]
    return "given label", ["given label"]


def has_unary(tree):
    return any(len(U.raw_children(n)) == 1 for n in U.raw_preorder(tree))


def plan_extract(route, src, rng):
    from . import _c12_sub as S
    p = Plan(route)
    e = p.extract = ExtractPlan()
    nodes = U.raw_preorder(src)
    e.start = nodes[0]
    if route == "extract":
        p.fn = lambda: src.extract_tree()
        p.spelling = "extract_tree()"
        return p
    if route == "extract-noref":
        e.attr = None
        e.suppress = False
        p.fn = lambda: src.extract_tree(extraction_source_reference_attr_name=None, suppress_unifurcations=False)
        p.spelling = "extract_tree(attr=None, suppress=False)"
        return p
    # ---- extract-filtered: API x filter x option vector ------------------------------------------
    e.filtered = True
    leaves = [n for n in nodes if not U.raw_children(n)]
    all_taxa = all(n.__dict__.get("taxon") is not None for n in leaves)
    str_labels = all(isinstance(n.taxon.label, str) for n in leaves) if all_taxa else False
    apis = ["fn", "fn", "subtree"]
    if all_taxa:
        apis += ["with_taxa", "without_taxa"]
    if str_labels:
        apis += ["with_taxa_labels", "without_taxa_labels"]
    api = rng.choice(apis)
    kw = {}
    sup = rng.choice([True, True, False, None])
    if sup is not None:
        kw["suppress_unifurcations"] = sup
    e.suppress = sup is not False
    attr = rng.choice(["<default>", "<default>", None, "origin"])
    if attr != "<default>":
        kw["extraction_source_reference_attr_name"] = attr
        e.attr = attr
    keep_p = rng.choice([0.0, 0.3, 0.3, 0.5, 0.5, 0.7, 0.7, 0.9, 0.9, 1.0])
    if api in ("fn", "subtree"):
        apply_leaf = rng.choice([True, True, False, None])
        apply_int = rng.choice([False, True, None])
        if apply_leaf is not None:
            kw["is_apply_filter_to_leaf_nodes"] = apply_leaf
        if apply_int is not None:
            kw["is_apply_filter_to_internal_nodes"] = apply_int
        al = apply_leaf is not False
        ai = apply_int is True
        start = nodes[0]
        if api == "subtree":
            inner = [n for n in nodes if U.raw_children(n)]
            start = rng.choice(inner) if inner else nodes[0]
        out = set()
        for n in nodes:
            if n is start:
                continue          # a start node that is filtered out leaves nothing: not an extraction
            pk = keep_p if not U.raw_children(n) else max(keep_p, 0.85)
            if rng.random() >= pk:
                out.add(id(n))
        e.is_excluded = lambda nd, is_leaf: (al if is_leaf else ai) and id(nd) in out
        kw["node_filter_fn"] = lambda nd: id(nd) not in out
        if api == "subtree":
            e.api = "Node.extract_subtree"
            e.start = start
            e.whole_tree = False
            if rng.random() < 0.3:
                kw["node_factory"] = S.PlainNode
                e.node_type = S.PlainNode
            p.fn = lambda: start.extract_subtree(**kw)
        else:
            if rng.random() < 0.25:
                kw["tree_factory"] = lambda taxon_namespace: S.PlainTree(taxon_namespace=taxon_namespace)
                e.tree_type = S.PlainTree
            if rng.random() < 0.25:
                kw["node_factory"] = S.PlainNode
                e.node_type = S.PlainNode
            p.fn = lambda: src.extract_tree(**kw)
        p.spelling = "%s(%s)" % (e.api, ",".join(sorted(k for k in kw)))
        return p
    # taxon aliases: the filter is asked for leaves only; a leaf is kept / dropped by its taxon (object or label)
    taxa = []
    for n in leaves:
        if n.taxon not in taxa:
            taxa.append(n.taxon)
    chosen = [t for t in taxa if rng.random() < keep_p]
    if rng.random() < 0.3:
        chosen += [t for t in src.taxon_namespace if t not in taxa][:2]       # taxa that no leaf carries
    with_ = api.startswith("with_")
    if api.endswith("labels"):
        lbls = [t.label for t in chosen]
        arg = rng.choice([list, set, tuple])(lbls)
        inset = set(lbls)
        e.is_excluded = lambda nd, is_leaf: is_leaf and ((nd.taxon.label in inset) != with_)
    else:
        arg = rng.choice([list, set, tuple])(chosen)
        ids = set(id(t) for t in chosen)
        e.is_excluded = lambda nd, is_leaf: is_leaf and ((id(nd.taxon) in ids) != with_)
    meth = getattr(src, "extract_tree_" + api)
    e.api = "extract_tree_" + api
    p.fn = lambda: meth(arg, **kw)
    p.spelling = "%s(%s)" % (e.api, ",".join(sorted(kw)))
    return p


def make_plan(kind, route, src, rng):
    cls = type(src)
    p = Plan(route)
    if route in EXTRACT_ROUTES:
        return plan_extract(route, src, rng)
    if route == "deepcopy":
        if rng.random() < 0.3:
            p.fn, p.spelling, p.tag = (lambda: copy.deepcopy(src, {})), "copy.deepcopy(x, {})", "deepcopy(x {})"
        else:
            p.fn, p.spelling = (lambda: copy.deepcopy(src)), "copy.deepcopy(x)"
    elif route in ("clone2", "clone1", "clone0"):
        d = int(route[-1])
        if rng.random() < 0.3:
            p.fn, p.spelling, p.tag = (lambda: src.clone(depth=d)), "clone(depth=%d)" % d, "clone(depth=)"
        else:
            p.fn, p.spelling = (lambda: src.clone(d)), "clone(%d)" % d
    elif route == "clone-default":
        p.fn, p.spelling = (lambda: src.clone()), "clone()"
    elif route == "copy":
        p.fn, p.spelling = (lambda: copy.copy(src)), "copy.copy(x)"
    elif route == "nsscoped":
        k = rng.randrange(4)
        if k == 0:
            p.fn, p.spelling, p.tag = (lambda: src.taxon_namespace_scoped_copy(memo={})), "taxon_namespace_scoped_copy(memo={})", "nsscoped(memo={})"
        elif k == 1:
            p.fn, p.spelling, p.tag = (lambda: src.taxon_namespace_scoped_copy(memo=None)), "taxon_namespace_scoped_copy(memo=None)", "nsscoped(memo=None)"
        else:
            p.fn, p.spelling = (lambda: src.taxon_namespace_scoped_copy()), "taxon_namespace_scoped_copy()"
    elif route == "ctor":
        p.fn, p.spelling = (lambda: cls(src)), "X(src)"
    elif route == "ctor-label":
        val, p.labels = _label_choice(rng, src)
        p.fn, p.spelling, p.tag = (lambda: cls(src, label=val)), "X(src, label=%r)" % (val,), "ctor(label=%s)" % ("None" if val is None else "source's" if X._atom(val) == X._atom(src.label) else repr(val))
    elif route in ("ctor-otherns", "ctor-samens"):
        kw = {}
        if route == "ctor-otherns":
            p.ns2, mode = other_namespace(rng, src.taxon_namespace)
            target = p.ns2
        else:
            target, mode = src.taxon_namespace, "own"
        legacy = rng.random() < 0.15
        kw["taxon_set" if legacy else "taxon_namespace"] = target
        if rng.random() < 0.3:
            kw["label"], p.labels = _label_choice(rng, src)

        def call():
            if legacy:
                with warnings.catch_warnings(record=True):      # the legacy keyword announces its deprecation
                    warnings.simplefilter("always")
                    return cls(src, **dict(kw))
            return cls(src, **dict(kw))
        p.fn = call
        p.tag = "%s(%s%s)" % (route, "taxon_set=" if legacy else "", " label=" if "label" in kw else "")
        if route == "ctor-otherns":
            p.tag2 = "target-namespace:%s" % mode
        p.spelling = "X(src, %s=<%s>%s)" % ("taxon_set" if legacy else "taxon_namespace", mode, ", label=%r" % (kw["label"],) if "label" in kw else "")
    else:
        raise ValueError(route)
    return p


# --------------------------------------------------------------------------------------------
# the judge
# --------------------------------------------------------------------------------------------
NS_COMPONENTS = ("ns-labels", "ns-flags", "ns-comments", "ns-annotations", "ns-extras")
SAFE_BOUND = {"label": "vf-sentinel-label", "length": 12345.678, "weight": 12345.678, "age": 12345.678,
              "xnum": 12345.678, "length_type": "vf-sentinel-lt", "datatype_hint": "vf-sentinel-hint"}


def tree_depth(tree):
    best = 0
    seed = tree.__dict__.get("_seed_node")
    if seed is None:
        return 0
    stack = [(seed, 1)]
    while stack:
        n, d = stack.pop()
        best = max(best, d)
        for c in U.raw_children(n):
            stack.append((c, d + 1))
    return best


DEEP_FAMILY = {"tree": ("deepcopy", "clone2", "ctor", "ctor-label", "clone1", "clone-default", "copy", "clone0", "nsscoped",
                        "ctor-otherns", "ctor-samens"),
               "treelist": ("deepcopy", "clone2", "ctor", "ctor-label", "clone1", "clone-default", "nsscoped", "ctor-otherns",
                            "ctor-samens"),
               "matrix": ("deepcopy", "clone2", "ctor", "ctor-label", "clone1", "clone-default", "nsscoped", "ctor-otherns",
                          "ctor-samens"),
               "ns": ("deepcopy", "clone2")}


def exc_op(kind, route, chain):
    """operation name used in the keys of exceptions and of stray bound owners: every route that runs the memo-driven
    deep copy machinery is one operation (one root cause must not spread over a dozen keys); a source that was itself
    made by a copy constructor is marked, because those objects differ from all others."""
    if chain == "ctor":
        return "%s.<any-route>[src=ctor-copy]" % kind
    return "%s.%s" % (kind, "<deep-route>" if route in DEEP_FAMILY[kind] else route)


def attempt_copy(ctx, op, kind, route, src, plan, detail):
    """run the route; classify exceptions.  Returns (ok, copy or exception)."""
    try:
        return True, plan.fn()
    except core.CaseTimeout:
        raise
    except RecursionError as e:
        depth = max([tree_depth(t) for t in ([src] if kind == "tree" else list(src) if kind == "treelist" else [])] or [0])
        if depth >= DEEP_TREE and route in DEEP_FAMILY[kind]:
            # the recursive attribute-wise deep copy; the route is part of the key: a route that is iterative today
            # (extract_tree, the shallow list / matrix copies) never gets this key
            ctx.violation("deep-copy|RecursionError|tree-deeper-than-%d-levels|%s.%s" % (DEEP_TREE, kind, route),
                          "%s of a tree with %d levels raises RecursionError (attribute-wise recursive deep copy)" % (op, depth),
                          dict(detail, depth=depth, recursionlimit=sys.getrecursionlimit()))
        else:
            ctx.unexpected(op, e, detail)
        return False, e
    except Exception as e:
        ep = plan.extract
        if ep is not None and ep.nothing_left and isinstance(e, ep.nothing_left_errors):
            ctx.ev("extract:nothing-left-refused")
            return False, e
        if ep is not None and not ep.whole_tree and ep.suppress and ep.plain is not None and len(ep.plain.children) == 1 \
                and type(e) is ValueError and not e.args:
            # mechanism of its own: the start node is left with one child and would have to be merged away
            ctx.violation("%s.%s|start-node-left-with-one-child-refused|ValueError" % (kind, route),
                          "Node.extract_subtree below a non-seed node raises a bare ValueError when the filter leaves the "
                          "start node with exactly one child (suppress_unifurcations on)", detail)
            return False, e
        if mode_is_shallow_of_derived_list(kind, route, src) and isinstance(e, TypeError):
            # depth 0 is not named by the statement (recorded): TreeList.__copy__ builds a plain TreeList
            ctx.note("shallow-copy-of-derived-list-class-raised-TypeError-not-judged")
            return False, e
        ctx.unexpected(op + (":" + ep.api if ep is not None and ep.filtered else ""), e, detail)
        return False, e


def mode_is_shallow_of_derived_list(kind, route, src):
    return kind == "treelist" and share_mode(kind, route) == "shallow" and type(src) is not U.L.TreeList


def allowed_ids(kind, mode, src):
    ns = src if kind == "ns" else src.taxon_namespace
    if mode == "none":
        return set()
    if mode == "ns":
        return U.Walk(ns).mutable_ids()
    if mode == "taxa":
        out = set()
        for t in ns._taxa:
            out |= U.Walk(t).mutable_ids()
        return out
    out = U.Walk(ns).mutable_ids()      # shallow
    members = list(src._trees) if kind == "treelist" else list(src._taxon_sequence_map.values())
    for mbr in members:
        out |= U.Walk(mbr).mutable_ids()
    if kind == "matrix":
        out |= set(id(a) for a in U.custom_alphabets(src))
    return out


def report_shared(ctx, op, clause, bad, w_rep, w_other, text, detail, names=("copy", "source")):
    reported = set()
    for i in sorted(bad, key=lambda i: len(w_rep.path(i, 1000))):
        cat = w_rep.seen[i][0]
        k = (cat, w_rep.last_attr(i))
        if k in reported:
            continue
        reported.add(k)
        ctx.violation("%s|%s|%s@%s" % (op, clause, cat, k[1]),
                      "%s reachable from %s and %s (%d such objects in all) although %s" % (cat, names[1], names[0], len(bad), text),
                      dict(detail, **{"path_in_" + names[0]: w_rep.path(i), "path_in_" + names[1]: w_other.path(i)}))
        if len(reported) >= 4:
            break


def expected_extraction(ctx, op, ep, cp_seed, detail):
    """the expectation this copy is compared with (None = nothing may be left)."""
    plain, gone = ep.plain, ep.gone
    if plain is None:
        return None
    if not ep.suppress or not X.has_unary(plain):
        return plain
    merged = X.suppressed(plain)
    if gone:
        return merged
    # nothing was excluded: documented as "entire tree structure is cloned" / "only done if some nodes are excluded"
    ctx.ev("extract-unary-judged")
    got = [len(U.raw_children(n)) for n in _raw_pre(cp_seed)]
    if got == X.outdegrees(plain):
        return plain
    if ep.filtered:
        key = "%s|unifurcations-suppressed-without-exclusion" % op
        what = "%s with a filter that excludes no node" % ep.api
    else:
        key = "tree.extract|unifurcations-suppressed-without-filter"
        what = "extract_tree() without a filter"
    ctx.violation(key, "%s dropped %d outdegree-1 node(s) of its source" % (what, len(X.outdegrees(plain)) - len(got)),
                  dict(detail, source_outdegrees=X.outdegrees(plain)[:40], copy_outdegrees=got[:40]))
    return merged


def _raw_pre(seed):
    out, stack, seen = [], [seed], set()
    while stack:
        n = stack.pop()
        if id(n) in seen or not isinstance(getattr(n, "__dict__", None), dict):
            continue
        seen.add(id(n))
        out.append(n)
        stack.extend(reversed(U.raw_children(n)))
    return out


def judge(ctx, kind, route, src, rng, chain=None, detail=None, journal_steps=None, tier=None, sibling=None, recopy=None):
    """sibling = (first copy, its share mode, node attributes to skip in it) when this is the second copy of one source."""
    L = U.L.load()
    detail = dict(detail or {})
    detail.update({"kind": kind, "route": route, "chain": chain})
    op = "%s.%s" % (kind, route)
    opx = exc_op(kind, route, chain)
    mode = share_mode(kind, route)
    extract = route in EXTRACT_ROUTES
    # the source as it is before ANY call of the route
    sv = U.View(kind, src)
    src_before = sv.sig
    plan = make_plan(kind, route, src, rng)
    detail["call"] = plan.spelling
    ep = plan.extract
    if ep is not None:
        ep.plain, ep.gone = X.expected(ep.start, ep.is_excluded)
        ep.nothing_left = ep.plain is None
        from dendropy.utility import error as dperror
        ep.nothing_left_errors = (dperror.SeedNodeDeletionException, ValueError)
    ctx.ev("call:%s" % plan.tag)
    if getattr(plan, "tag2", None):
        ctx.ev(plan.tag2)
    ok, cp = attempt_copy(ctx, opx, kind, route, src, plan, dict(detail, route=route))
    # the route must not change its source, whether it returned or raised
    ctx.ev("source-unchanged-judged")
    moved = U.diff_components(src_before, sv.take())
    if moved:
        ctx.violation("%s|source-changed-by-copying|%s" % (op, U.component_class(moved[0])),
                      "making the copy changed the source's %s" % moved[0],
                      dict(detail, where=U.first_difference(src_before[moved[0]], sv.sig[moved[0]], moved[0])))
        src_before = sv.sig
    if not ok:
        return None
    ctx.ev("copy-made")
    ctx.ev("copy-made:%s.%s" % (kind, route))
    if ep is not None and ep.nothing_left:
        # what an extraction that leaves nothing hands back is not stated anywhere: recorded
        ctx.note("extract-with-nothing-left-returned-%s" % type(cp).__name__)
        return None
    if mode == "self":
        ctx.note("ns.clone1-returns-the-namespace-itself" if cp is src else "ns.clone1-returns-new-object")
        return None
    if cp is src:
        ctx.violation("%s|copy-is-the-source" % op, "the route returned its argument", detail)
        return None
    if sibling is not None and cp is sibling[0]:
        ctx.violation("%s|second-copy-is-the-first-copy" % op,
                      "copying the same source again returned the object of the first call (state kept between calls)", detail)
        return None
    ignore = ()
    if ep is not None:
        ignore = (ep.attr,) if ep.attr else ()
        if not ep.whole_tree:
            if not isinstance(cp, L.Node):
                ctx.violation("%s|malformed-copy|not-a-node" % op, "Node.extract_subtree returned a %s" % type(cp).__name__, detail)
                return None
            if cp.__dict__.get("_parent_node") is not None:
                ctx.violation("%s|signature-differs|structure" % op, "the extracted subtree's top node has a parent", detail)
            # a node: judged inside a tree of our own (rooting / tree label are then not the library's)
            cp = L.Tree(seed_node=cp, taxon_namespace=src.taxon_namespace)
        want_type = ep.tree_type
        if want_type is not None and type(cp) is not want_type:
            ctx.violation("%s|signature-differs|factory-types" % op,
                          "tree_factory's product is not what extract_tree returned (%s)" % type(cp).__name__, detail)
    base_cls = {"tree": L.Tree, "treelist": L.TreeList, "matrix": L.CharacterMatrix, "ns": L.TaxonNamespace}[kind]
    if not isinstance(cp, base_cls):
        ctx.violation("%s|malformed-copy|not-a-%s" % (op, base_cls.__name__),
                      "the route returned a %s" % type(cp).__name__, detail)
        return None
    members = len(sv.nm.objs)
    if members >= 3 or any(src_before.get(k) for k in src_before if k.endswith("annotations")):
        ctx.nontrivial((kind, route, chain, U.idfree(src_before)))

    # ---- the copy as the raw walk sees it ----------------------------------------------------
    ignore_tree = ()
    if extract and type(cp) is not L.Tree:
        # attributes the class's own constructor makes are not "carried over"
        try:
            ignore_tree = tuple(k for k in type(cp)(taxon_namespace=src.taxon_namespace).__dict__ if k not in U.STD["Tree"])
        except core.CaseTimeout:
            raise
        except Exception:
            ignore_tree = ()
    try:
        w_cp = U.Walk(cp, skip_node_attrs=ignore)
        cv = U.View(kind, cp, ignore_node_attrs=ignore, ignore_tree_attrs=ignore_tree)
    except core.CaseTimeout:
        raise
    except Exception as e:
        ctx.violation("%s|malformed-copy|unreadable:%s" % (op, type(e).__name__),
                      "the raw walk over the copy failed: %s" % core.exc_brief(e), detail)
        return None
    if cv.nm.malformed:
        ctx.violation("%s|malformed-copy|%s" % (op, cv.nm.malformed[0]),
                      "the copy is not a well-formed structure: %s" % ", ".join(sorted(set(cv.nm.malformed))), detail)
        return None

    # ---- shared id-sets ------------------------------------------------------------------
    w_src = U.Walk(src)
    ns = src if kind == "ns" else src.taxon_namespace
    allowed = allowed_ids(kind, mode, src)
    shared = w_src.mutable_ids() & w_cp.mutable_ids()
    ctx.ev("shared-set-judged")
    ctx.ev("objects-walked", len(w_src.seen) + len(w_cp.seen))
    bad = shared - allowed
    if bad:
        report_shared(ctx, op, "shared-mutable-object", bad, w_cp, w_src,
                      "the route documents %s as shared" % MODE_TEXT[mode], detail)
    if mode in ("ns", "shallow") and kind != "ns":
        if cp.taxon_namespace is not src.taxon_namespace:
            ctx.violation("%s|namespace-not-shared" % op, "a namespace-scoped copy must refer to the source's TaxonNamespace object", detail)
    if mode == "taxa" and [id(t) for t in cp._taxa] != [id(t) for t in src._taxa]:
        ctx.violation("%s|taxa-not-shared" % op, "TaxonNamespace(ns) documents that the member Taxon objects are the same objects, in order", detail)
    if plan.ns2 is not None and cp.taxon_namespace is not plan.ns2:
        ctx.violation("%s|given-namespace-not-used" % op, "the copy does not refer to the TaxonNamespace passed in", detail)
    if sibling is not None:
        first, mode1, skip1 = sibling
        w_first = U.Walk(first, skip_node_attrs=skip1)
        both = allowed if mode1 == mode else (allowed & allowed_ids(kind, mode1, src))
        ctx.ev("second-copy-judged")
        bad2 = (w_first.mutable_ids() & w_cp.mutable_ids()) - both
        if bad2:
            report_shared(ctx, op, "second-copy-shares-with-first", bad2, w_cp, w_first,
                          "two copies of one source may share only what both routes document as shared", detail,
                          names=("second_copy", "first_copy"))

    # ---- signatures ----------------------------------------------------------------------
    a, b = sv.sig, cv.sig
    if plan.labels is not None:
        got_label = cp.__dict__.get("_label")
        cand = [x for x in plan.labels if X._atom(x) == X._atom(got_label)
                or (x is not None and got_label is not None and str(x) == str(got_label))]     # a label may be normalised to text
        ctx.ev("label-argument-judged")
        if not cand:
            ctx.violation("%s|label-argument-not-used" % op,
                          "the copy's label is %r, the call asked for %s" % (got_label, " or ".join(repr(x) for x in plan.labels)), detail)
        # expectation = the source as it would look with the requested label (bound annotations show it too)
        lab = cand[0] if cand else plan.labels[0]
        old_label = src.label
        src.label = lab
        try:
            a = dict(sv.take())
        finally:
            src.label = old_label
            sv.take()
    bound_failed = judge_bound(ctx, op, opx, sv, cv, detail, mode)
    only, skip = None, set()
    if bound_failed:
        skip.update(["annotations", "list-annotations", "ns-annotations", "sequence-annotations"])
    if extract:
        only = ["rooting", "tree-label"] if ep.whole_tree else []
    if route == "ctor-otherns":
        skip.update(["taxa", "bipartitions", "tree-namespaces"] + list(NS_COMPONENTS))
        for k, v in b.items():
            if U.component_class(k).split(".")[-1] == "taxa" and any(isinstance(x, list) for x in v):
                ctx.violation("%s|taxon-not-in-target-namespace" % op, "a copied node/sequence refers to a Taxon outside the given namespace", detail)
                break
    if mode == "shallow":
        # depth 0 is not named by the statement: member identity, container independence, label, top-level annotations
        only = ["list-meta", "matrix-meta", "taxa", "taxon-labels"]
        top = "list-annotations" if kind == "treelist" else "annotations"
        if '"ref"' in U.json.dumps(a.get(top)):
            # clone(0) documents annotation values as references; the implementation deep-copies them: outside the statement
            ctx.note("shallow-copy-annotation-value-referring-to-a-member-not-judged")
        else:
            only.append(top)
        for comp in ("list-tree-type", "list-comments", "comments", "alphabets"):
            if comp in a and a.get(comp) != b.get(comp):
                ctx.note("shallow-copy-not-judged:%s-differs:%s" % (comp, kind))
        ident_key = "#trees-identity" if kind == "treelist" else None
        if ident_key and a[ident_key] != b[ident_key]:
            ctx.violation("%s|shallow-copy-members-differ" % op, "a shallow copy must hold the same member objects in the same order", detail)
        if kind == "matrix" and [id(s) for s in src._taxon_sequence_map.values()] != [id(s) for s in cp._taxon_sequence_map.values()]:
            ctx.violation("%s|shallow-copy-members-differ" % op, "a shallow copy must hold the same sequence objects in the same order", detail)
    ctx.ev("signature-judged")
    diffs = U.diff_components(a, b, only=only, skip=skip)
    seen_cls = set()
    for k in diffs:
        c = U.component_class(k)
        if c in seen_cls:
            continue
        seen_cls.add(c)
        ctx.violation("%s|signature-differs|%s" % (op, c), "copy differs from its source in %s" % k,
                      dict(detail, where=U.first_difference(a.get(k), b.get(k), k)))
        if len(seen_cls) >= 3:
            break
    if extract:
        want = expected_extraction(ctx, op, ep, cp.__dict__.get("_seed_node"), detail)
        xdiffs, xnotes, njudged = X.compare(cp.__dict__.get("_seed_node"), want, ep.attr, ep.node_type)
        ctx.ev("extract-oracle-judged")
        ctx.ev("extract-nodes-judged", njudged)
        ctx.ev("extract-api:%s" % ep.api)
        if ep.filtered:
            ctx.ev("extract-filtered-judged")
            if ep.suppress and X.has_unary(ep.plain):
                ctx.ev("extract-merge-judged")
        for n_ in xnotes:
            ctx.note(n_)
        for comp, where, got, wanted in xdiffs[:3]:
            ctx.violation("%s|signature-differs|%s" % (op, comp),
                          "the extracted tree differs from what the source and the arguments determine in %s" % comp,
                          dict(detail, where=where, got=got, expected=wanted))
        for comp in ("comments", "annotations", "extras"):
            flat = repr(b.get(comp))
            empty = {"comments": flat.replace("['l', []]", "").strip("[], ") == "",
                     "annotations": flat.strip("[], ") == "", "extras": flat.strip("[], ") == ""}[comp]
            ctx.ev("extract-only-judged")
            if not empty:
                ctx.violation("%s|carries-more-than-structure|%s" % (op, comp),
                              "extract_tree documents that %s are not copied" % comp, dict(detail, got=flat[:300]))
    for k in sorted(set(a) & set(b)):
        if k.startswith("~") and a[k] != b[k]:
            ctx.note("not-judged:%s-differs:%s.%s" % (k[1:], kind, route))

    # ---- mutation journal -------------------------------------------------------------------
    if journal_steps is None:
        journal_steps = 12 if (tier or ctx.tier) == "quick" else 16
    if journal_steps:
        run_journal(ctx, op, kind, mode, sv, cv, rng, detail, journal_steps)

    # ---- the edited source is copied a second time ---------------------------------------------
    if recopy is None:
        recopy = sibling is None and rng.random() < (0.5 if (tier or ctx.tier) == "quick" else 0.35)
    if recopy and sibling is None and kind in ("tree", "treelist") and \
            max([tree_depth(t) for t in ([src] if kind == "tree" else list(src))] or [0]) > MAX_DEPTH:
        ctx.note("second-copy-skipped:the-journal-made-the-source-deeper-than-%d-levels" % MAX_DEPTH)
        recopy = False
    if recopy and sibling is None:
        route2 = route if rng.random() < 0.5 else rng.choice(ROUTES[kind])
        ctx.ev("second-copy:%s" % ("same-route" if route2 == route else "other-route"))
        judge(ctx, kind, route2, src, rng, chain=chain, detail=dict(detail, first_route=route, second_copy=True),
              journal_steps=0, tier=tier, sibling=(cp, mode, ignore))
    return cp


def judge_bound(ctx, op, opx, sv, cv, detail, mode):
    """attribute-bound annotations of the copy follow the copy's attributes (owners: structural objects and annotations)."""
    failed = False
    so = dict(sv.owners())
    for name, obj in cv.owners():
        sobj = so.get(name)
        if sobj is None or not isinstance(obj, U.L.Annotable):
            continue
        la = list(U.iter_annotations(sobj))
        lb = list(U.iter_annotations(obj))
        if len(la) != len(lb):
            continue     # the signature comparison reports it
        for a1, a2 in zip(la, lb):
            if not a1.__dict__.get("is_attribute") or not a2.__dict__.get("is_attribute"):
                continue
            if not (isinstance(a1._value, tuple) and len(a1._value) == 2):
                continue
            sname = sv.nm.get(a1._value[0])
            if sname is None:
                ctx.note("bound-annotation-with-unnamed-owner-not-judged:%s" % type(a1._value[0]).__name__)
                continue
            ctx.ev("bound-follow-judged")
            if "/ann:" in sname:
                ctx.ev("bound-to-annotation-judged")
            if not (isinstance(a2._value, tuple) and len(a2._value) == 2):
                continue     # malformed: the signature comparison reports it
            owner2, attr = a2._value
            cname = cv.nm.get(owner2)
            if cname != sname:
                failed = True
                what = "the source's object" if sv.nm.get(owner2) is not None else (
                    "an object outside the copy (%s)" % type(owner2).__name__ if cname is None else "the copy's %s" % cname)
                ctx.violation("%s|bound-annotation-owner|%s" % (opx, "source-object" if sv.nm.get(owner2) is not None else
                                                                ("stray-object" if cname is None else "wrong-counterpart")),
                              "annotation on %s bound to attribute %r of the source's %s is bound to %s on the copy" % (
                                  name, attr, sname, what), dict(detail, annotation=a1.name))
                continue
            if attr not in SAFE_BOUND:
                continue
            target = cv.nm.lookup(cname)
            try:
                old = getattr(target, attr)
            except Exception:
                ctx.note("bound-attribute-unreadable-not-judged:%s" % attr)
                continue
            sentinel = SAFE_BOUND[attr]
            try:
                setattr(target, attr, sentinel)
                got = a2.value
                src_got = a1.value
            finally:
                setattr(target, attr, old)
            shared_owner = target is sv.nm.lookup(sname)
            if got != sentinel:
                failed = True
                ctx.violation("%s|bound-annotation-does-not-follow-copy" % op,
                              "after setting %s.%s on the copy its bound annotation still shows %r" % (cname, attr, got),
                              dict(detail, annotation=a1.name))
            elif src_got == sentinel and not shared_owner:
                failed = True
                ctx.violation("%s|bound-annotation-of-source-follows-copy" % op,
                              "setting %s.%s on the copy shows through the source's annotation" % (cname, attr),
                              dict(detail, annotation=a1.name))
    return failed


def run_journal(ctx, op, kind, mode, sv, cv, rng, detail, steps=None):
    deep = (mode == "none")
    j = U.Journal(rng, deep=deep, shallow=(mode == "shallow"))
    classes = j.classes(kind)
    rng.shuffle(classes)
    if steps is None:
        steps = 12
    size = len(sv.nm.objs)
    if size > 400:
        steps = min(steps, 6)
    base = {0: sv.take(), 1: cv.take()}
    views = {0: sv, 1: cv}
    done = 0
    for mclass in classes:
        if done >= steps:
            break
        side = rng.randrange(2)
        v = views[side]
        try:
            applied = j.apply(mclass, v)
        except core.CaseTimeout:
            raise
        except Exception as e:
            ctx.note("mutation-raised:%s:%s" % (mclass, type(e).__name__))
            applied = True      # may have changed something before raising
        if not applied:
            continue
        done += 1
        other = views[1 - side]
        now_other = other.take()
        now_self = v.take()
        ctx.ev("mutation-judged")
        ctx.ev("mutation:%s" % mclass)
        if U.diff_components(base[side], now_self) or any(
                base[side].get(k) != now_self.get(k) for k in now_self if k.startswith("#")):
            ctx.ev("mutation-effective")
        moved = U.diff_components(base[1 - side], now_other)
        if moved:
            c = U.component_class(moved[0])
            ctx.violation("%s|mutation-visible-through-other|%s" % (op, mclass),
                          "%s applied to the %s changed the %s's %s" % (
                              mclass, "copy" if side else "source", "source" if side else "copy", moved[0]),
                          dict(detail, component=c, side_mutated="copy" if side else "source",
                               where=U.first_difference(base[1 - side].get(moved[0]), now_other.get(moved[0]), moved[0])))
            base[1 - side] = now_other
        base[side] = now_self


# --------------------------------------------------------------------------------------------
# cases
# --------------------------------------------------------------------------------------------
def apply_chain(src, chain):
    if chain == "ctor":
        return type(src)(src)
    if chain == "clone1":
        return src.clone(1)
    if chain == "deepcopy":
        return copy.deepcopy(src)
    return src


def caterpillar(depth):
    spec = ref.S("T0")
    for i in range(1, depth):
        spec = ref.S(None, [spec, ref.S("T%d" % i)])
    return spec


def run_directed(case, ctx, rng):
    import dendropy
    name = case["name"]
    if name == "deep-caterpillar":
        # smallest failing depth is recorded; the 400-level witness of DESIGN is judged
        ns = dendropy.TaxonNamespace()
        lo, hi = 50, 400
        fails = {}

        def fails_at(d):
            if d not in fails:
                t = bridge.build_tree(caterpillar(d), dendropy.TaxonNamespace(), True)
                try:
                    copy.deepcopy(t)
                    fails[d] = False
                except RecursionError:
                    fails[d] = True
            return fails[d]
        if fails_at(hi) and not fails_at(lo):
            while hi - lo > 1:
                mid = (lo + hi) // 2
                if fails_at(mid):
                    hi = mid
                else:
                    lo = mid
            ctx.sample({"kind": "directed", "name": name, "smallest_failing_depth": hi,
                        "recursionlimit": sys.getrecursionlimit()})
        tree = bridge.build_tree(caterpillar(400), ns, True)
        for route in ("deepcopy", "clone1", "ctor", "extract", "extract-noref"):
            judge(ctx, "tree", route, tree, rng, detail={"tree": "caterpillar, 400 levels"}, journal_steps=3, recopy=False)
        ok = bridge.build_tree(caterpillar(120), dendropy.TaxonNamespace(), True)
        for route in ("deepcopy", "ctor", "clone1", "copy", "extract", "extract-filtered"):
            judge(ctx, "tree", route, ok, rng, detail={"tree": "caterpillar, 120 levels"}, journal_steps=3, recopy=False)
    elif name == "copy-of-constructed-copy":
        # smallest witness: one node, one bound annotation on the tree, Tree(t) and then any deep route
        for route in ("deepcopy", "clone1", "ctor", "copy", "clone2", "extract"):
            t = dendropy.Tree(label="t")
            t.annotations.add_bound_attribute("label")
            judge(ctx, "tree", route, dendropy.Tree(t), rng, chain="ctor", detail={"tree": "single node, tree.annotations.add_bound_attribute('label')"})
        # node annotation bound to the tree's attribute: silent variant
        for route in ("deepcopy", "clone1"):
            t = bridge.build_tree(ref.S(None, [ref.S("A"), ref.S("B")]), dendropy.TaxonNamespace(), True, label="t")
            t.seed_node.annotations.add_bound_attribute("label", annotation_name="treelabel", owner_instance=t)
            judge(ctx, "tree", route, dendropy.Tree(t), rng, chain="ctor", detail={"tree": "(A,B); seed_node annotation bound to tree.label"})
    elif name == "treelist-of-constructed-copy":
        for route in ("deepcopy", "clone1", "ctor"):
            tl = dendropy.TreeList(label="l")
            tl.annotations.add_bound_attribute("label")
            judge(ctx, "treelist", route, dendropy.TreeList(tl), rng, chain="ctor", detail={"list": "empty list with bound annotation on label"})
    elif name == "matrix-of-constructed-copy":
        for route in ("deepcopy", "clone1", "ctor"):
            m = dendropy.DnaCharacterMatrix(label="m")
            m.annotations.add_bound_attribute("label")
            judge(ctx, "matrix", route, dendropy.DnaCharacterMatrix(m), rng, chain="ctor", detail={"matrix": "empty DNA matrix with bound annotation on label"})
    elif name == "untyped-cell-annotation":
        for route in ("deepcopy", "clone1", "ctor", "clone2"):
            for label in ("m", None):
                ns = dendropy.TaxonNamespace(["A"])
                m = dendropy.DnaCharacterMatrix(taxon_namespace=ns, label=label)
                m.new_sequence(ns[0], m.coerce_values("AC"))
                m[ns[0]].annotations_at(1).add_new("quality", 3)
                judge(ctx, "matrix", route, m, rng, detail={"matrix": "1 x 2 DNA, label=%r, annotations_at(1) on a cell without character type" % label})
    elif name == "extract-unifurcation":
        spec = ref.S(None, [ref.S(None, [ref.S(None, [ref.S("A", length=1), ref.S("B", length=2)], length=1)], length=1), ref.S("C", length=3)])
        for route in ("extract", "extract-noref", "extract-filtered", "extract-filtered", "extract-filtered"):
            for rooted in (True, False, None):
                t = bridge.build_tree(spec, dendropy.TaxonNamespace(), rooted, label="T")
                for i, nd in enumerate(U.raw_preorder(t)):
                    nd.label = "n%d" % i
                    nd.edge.label = "e%d" % i
                judge(ctx, "tree", route, t, rng, detail={"tree": ref.to_newick(spec), "rooted": rooted})
    elif name == "extract-filtered-witnesses":
        # every alias, both suppress values, on a tree whose filtered form has chains of outdegree-1 nodes
        for k in range(24):
            spec = gen.random_spec(rng, rng.choice([3, 5, 8]), p_poly=0.3, p_unary=0.25)
            gen.decorate_lengths(spec, rng, rng.choice(("dyadic", "ints", "mixed_missing", "zeros")), root_length=k % 3 == 0)
            t = make_tree(rng, spec, 2 if k % 2 else 0, rng.choice([None, True, False]), None, extra_taxa=1, boundary=k % 4 == 0)
            judge(ctx, "tree", "extract-filtered", t, rng, detail={"tree": ref.to_newick(spec)}, journal_steps=6)
    elif name == "user-made-alphabet":
        # smallest witness of a user-made alphabet: one taxon, three cells
        for route in ("deepcopy", "clone2", "clone1", "ctor", "clone-default"):
            sa = dendropy.new_standard_state_alphabet("abc")
            m = dendropy.StandardCharacterMatrix(default_state_alphabet=sa)
            t = m.taxon_namespace.new_taxon("A")
            m.new_sequence(t, m.coerce_values("abc"))
            judge(ctx, "matrix", route, m, rng, detail={"matrix": "1 x 3 standard matrix over new_standard_state_alphabet('abc')"})
    elif name == "derived-classes":
        from . import _c12_sub as S
        spec = ref.S(None, [ref.S(None, [ref.S("A", length=1), ref.S("B", length=2)], length=1), ref.S("C", length=3)])
        for route in TREE_ROUTES:
            ns = dendropy.TaxonNamespace(["A", "B", "C"])
            t = S.build_tree(spec, ns, True, "t", S.SubTree, S.SubNode)
            judge(ctx, "tree", route, t, rng, detail={"tree": "SubTree of SubNodes " + ref.to_newick(spec)})
        for route in LIST_ROUTES:
            ns = dendropy.TaxonNamespace(["A", "B", "C"])
            tl = S.SubList(taxon_namespace=ns, tree_type=S.SubTree, label="l")
            tl.comments.append("x")
            tl.append(S.build_tree(spec, ns, True, "t", S.SubTree, S.SubNode))
            judge(ctx, "treelist", route, tl, rng, detail={"list": "SubList(tree_type=SubTree) with one SubTree"})
    elif name == "copy-twice":
        # the same object is copied, edited, and copied again by every route (state kept between calls)
        for kind, routes in (("tree", TREE_ROUTES), ("treelist", LIST_ROUTES), ("matrix", MATRIX_ROUTES), ("ns", NS_ROUTES)):
            for route in routes:
                src, desc = make_source(kind, rng, "quick", 1)
                judge(ctx, kind, route, src, rng, detail=desc, journal_steps=4, recopy=True)


def run_case(case, ctx):
    U.L.load()
    rng = random.Random("%s/%s" % (case["seed"], sorted(case.items())))
    with Hooks(ctx) as outer, Hooks(ctx) as inner:
        install_hooks(ctx, outer, inner)
        kind = case["kind"]
        if kind == "directed":
            run_directed(case, ctx, rng)
            return
        if kind == "shape":
            shape = gen.all_shapes(case["n"])[case["idx"]]
            spec = gen.shape_to_spec(shape)
            deco = case["deco"]
            if deco:
                gen.decorate_lengths(spec, rng, rng.choice(("dyadic", "ints", "mixed_missing")), root_length=rng.random() < 0.3)
            src = make_tree(rng, spec, deco, rng.choice([None, True, False]), rng.choice([None, "imm", "mut"]) if deco else None,
                            extra_taxa=1 if deco else 0, boundary=bool(deco) and rng.random() < 0.3)
            detail = {"tree": ref.to_newick(spec), "deco": deco}
            judge(ctx, "tree", case["route"], src, rng, detail=detail)
            if case["idx"] == 0 and case["route"] == "deepcopy":
                ctx.sample(dict(case, tree=detail["tree"]))
            return
        # ---- random ---------------------------------------------------------------------
        k = rng.choice(["tree"] * 5 + ["treelist"] * 2 + ["matrix"] * 2 + ["ns"])
        deco = rng.choice([0, 1, 2, 2])
        tier = case.get("tier") or ctx.tier
        src, desc = make_source(k, rng, tier, deco, ctx)
        routes = ROUTES[k]
        if k == "tree":
            routes = routes + ("extract-filtered", "extract-filtered")      # the route with the largest option vector
        route = rng.choice(routes)
        chain = rng.choice(CHAINS) if k != "ns" else rng.choice((None, None, "ctor", "deepcopy"))
        detail = dict(desc, deco=deco)
        if chain:
            ok = True
            try:
                src = apply_chain(src, chain)
            except core.CaseTimeout:
                raise
            except Exception as e:
                ctx.unexpected(exc_op(k, chain, None), e, dict(detail, route=chain))
                ok = False
            if not ok:
                return
        if rng.random() < 0.3:
            preuse(ctx, k, src, rng)
            detail["used_before_copy"] = True
        judge(ctx, k, route, src, rng, chain=chain, detail=detail, tier=tier)
        if case["i"] < 6:
            ctx.sample({"case": case, "kind": k, "route": route, "chain": chain, "source": detail})
