"""C12  Copies are equal to their source and independent of it at the documented depth.

For every generated source (tree / tree list / character matrix / taxon namespace, plain or hostile-decorated
with comments, plain / attribute-bound / nested annotations, annotation values and extra attributes that point
back into the structure, encoded bipartitions, cell annotations, character types and subsets) and every copy
route of the public API the real copy is made and the monitors judge:

  shared-mutable-object   object-graph walker (raw __dict__ / list / dict / set / tuple contents) from source and from
                          copy; an object of a mutable category (Tree, Node, Edge, Bipartition, Taxon, TaxonNamespace,
                          Annotation, AnnotationSet, TreeList, CharacterMatrix, CharacterDataSequence, CharacterType,
                          CharacterSubset, any list/dict/set, any other instance) reachable from both must be in the
                          route's documented shared set:
                             deepcopy, clone(2), X(src, taxon_namespace=other)            nothing
                             Tree(t), clone(1), copy.copy(tree), taxon_namespace_scoped_copy,
                             TreeList(l)/Matrix(m)/clone(1), extract_tree                 what the namespace reaches
                             TaxonNamespace(ns), copy.copy(ns)                            what its taxa reach
                             copy.copy / clone(0) of TreeList / matrix (documented shallow) namespace + the member trees / sequences
  namespace-not-shared    the namespace-scoped routes must hand back the source's namespace object (taxa are compared by
                          identity through the canonical names of the signature)
  signature-differs       canonical signatures (raw fields; structure with back pointers, node / edge / tree labels, taxa,
                          lengths, rooting, weight, ages, comments, annotations incl. nesting and bound owners, extra
                          attributes, bipartitions and edge maps, namespace labels / comments / annotations, sequences,
                          cell types, cell annotations, character types, subsets) of source and copy are equal component
                          by component; extract_tree is compared on structure / node labels / taxa / lengths only and
                          must carry no comments, annotations or extra attributes
  bound-annotation-*      every attribute-bound annotation of the copy whose source counterpart is bound to a structural
                          object is bound to the copy's counterpart, and setting that attribute on the copy is what the
                          annotation then shows
  mutation-visible        mutation journal: every class of later change (structural edit, length, labels, rooting, weight,
                          annotation add / change / in-place / drop / nest / bind, comment, bipartition encode / edit,
                          extras, taxon label, namespace add / remove, list append / remove / reverse, cell set / append /
                          delete, cell annotation, character type, subset) is applied to one side through the public API
                          and the OTHER side's signature is re-taken: it must not move
  hooks                   populate_memo_for_taxon_namespace_scoped_copy seeds exactly {namespace, its taxa} -> themselves;
                          deep_copy_annotations_from re-targets annotations bound to the source onto the destination
  source-changed          the source's own signature is the same before and after the route ran (returned or raised)
  exceptions              no copy route documents an error for these sources: any exception is a violation.  Keys name the
                          operation as <kind>.<deep-route> for every route that runs the memo-driven deep-copy machinery
                          (one root cause, one key) and mark sources that were themselves made by a copy constructor
                          ([src=ctor-copy]: such objects adopted the __dict__ of a temporary and differ from all others).
                          RecursionError on a tree deeper than 150 levels has its own key (confirmed in DESIGN).
  extract_tree()          with default arguments on a source that has outdegree-1 nodes: the parameter is documented as
                          "only done if some nodes are excluded", so the outdegree sequence must be kept (own key); the
                          remaining clauses are then judged on extract_tree(suppress_unifurcations=False)

Soundness limits: state alphabets / state identities are library-wide singletons (copy returns self) and are not
entered; the bit assignment of a copied namespace is C10's subject (recorded, not judged); changes to shared-by-design
parts (taxa and namespace on namespace-scoped routes, member trees / sequences on shallow routes) are not applied;
X(src, taxon_namespace=other) is compared on taxon labels (taxa are re-created by label; bipartition masks, namespace
decorations not judged); X(src, label=...) is compared with the source as it looks under that label; shallow copies
(copy.copy / clone(0) of tree lists and matrices) are judged on member identity, container independence and the
top-level annotations only, and not at all on annotation values that refer to a member (clone(0) documents them as
references, the implementation deep-copies them); TaxonNamespace.clone(1) returns the namespace itself (recorded);
objects sharing one __dict__ are one object; data sets are excluded (documented non-copyable); trees deeper than
100 levels are only built by the directed recursion-depth case; nodes carry taxa of the tree's namespace only;
a mutation that raises is recorded, not judged."""
import copy
import random
import sys

from .. import ref, gen, bridge, core
from ..mon.hooks import Hooks
from . import _c12_util as U

PROP = "C12"
LEVEL = "exploration"
TECHNIQUE = ("runtime monitoring: object-graph walker (shared id-sets per mutable category), canonical-signature equality and "
             "a mutation journal around every public copy route; hooks on memo seeding and annotation re-targeting")
LEVEL_TEXT = ("The real copy routes are run on generated, hostile-decorated sources; a walker over the raw object graph decides "
              "which mutable objects both sides reach, canonical signatures decide equality, and a journal of later mutations "
              "decides independence. The property held (or not) on the executions listed in the evidence file, nothing more.")
LEVEL_NOTE = ("Trusted: the walker / signature / journal code in vf/props/_c12_util.py and C12.py, CPython's id(). Coverage is what "
              "the workload reached: all shapes n <= 5, random trees <= 30 (quick) / <= 150 (thorough) leaves, every matrix type, "
              "every copy route, every mutation class.")
RULE = ("cases = directed witnesses | all rooted shapes n<=4 x every tree route x {plain, decorated} (n=5: routes rotated by seed) | "
        "random (kind in tree/treelist/matrix/namespace, route, decoration level, bipartition encoding, source-is-itself-a-copy "
        "chain). non-trivial = the source has >= 2 members (nodes / trees / sequences / taxa) or >= 1 decoration and the route "
        "returned a new object; distinct = (kind, route, chain, id-free canonical signature of the source)")
REACH = ["basemodel:Annotable.__deepcopy__", "basemodel:Annotable.deep_copy_annotations_from",
         "basemodel:AnnotationSet.__deepcopy__", "basemodel:DataObject.clone",
         "taxonmodel:TaxonNamespace.populate_memo_for_taxon_namespace_scoped_copy", "taxonmodel:TaxonNamespace.__deepcopy__",
         "taxonmodel:TaxonNamespace.__copy__", "taxonmodel:Taxon.__deepcopy__",
         "_tree:Tree._clone_from", "_tree:Tree.taxon_namespace_scoped_copy", "_tree:Tree.__copy__", "_tree:Tree.__deepcopy__",
         "_tree:Tree.extract_tree", "_node:Node.extract_subtree", "_node:Node.__deepcopy__", "_edge:Edge.__deepcopy__",
         "treecollectionmodel:TreeList._clone_from", "treecollectionmodel:TreeList.__copy__",
         "treecollectionmodel:TreeList.taxon_namespace_scoped_copy",
         "charmatrixmodel:CharacterMatrix._clone_from", "charmatrixmodel:CharacterMatrix.__copy__",
         "charmatrixmodel:CharacterMatrix.taxon_namespace_scoped_copy", "container:OrderedSet.__deepcopy__", "container:OrderedCaselessDict.__deepcopy__"]
MIN_EVENTS = {"copy-made": (2500, 40000), "shared-set-judged": (2500, 40000), "signature-judged": (2500, 40000),
              "mutation-judged": (25000, 400000), "mutation-effective": (20000, 350000), "bound-follow-judged": (5000, 100000),
              "memo-seed-judged": (800, 10000), "rebinding-judged": (20000, 400000), "source-unchanged-judged": (2500, 40000),
              "extract-only-judged": (500, 8000)}
ASSUMPTIONS = ["reachability is computed from raw __dict__ / list / tuple / dict / set contents; state alphabets and state "
               "identities (library-wide singletons whose copy is the object itself) are not entered",
               "objects that share one __dict__ are treated as one object (the copy constructors adopt the __dict__ of a temporary)",
               "mutations go through the public API; a mutation that raises is recorded and not judged (C03's subject)"]
CASE_TIMEOUT = 120

TREE_ROUTES = ("deepcopy", "clone2", "ctor", "ctor-label", "clone1", "copy", "clone0", "nsscoped", "ctor-otherns",
               "extract", "extract-noref")
LIST_ROUTES = ("deepcopy", "clone2", "ctor", "ctor-label", "clone1", "nsscoped", "copy", "clone0", "ctor-otherns")
MATRIX_ROUTES = LIST_ROUTES
NS_ROUTES = ("deepcopy", "clone2", "ctor", "ctor-label", "copy", "clone0", "clone1")
ROUTES = {"tree": TREE_ROUTES, "treelist": LIST_ROUTES, "matrix": MATRIX_ROUTES, "ns": NS_ROUTES}
CHAINS = (None, None, None, "ctor", "clone1", "deepcopy")
DEEP_TREE = 150     # levels; deeper trees are only built by the directed recursion case


def share_mode(kind, route):
    if route in ("deepcopy", "clone2", "ctor-otherns"):
        return "none"
    if kind == "ns":
        return "self" if route == "clone1" else "taxa"
    if kind in ("treelist", "matrix") and route in ("copy", "clone0"):
        return "shallow"
    return "ns"


# --------------------------------------------------------------------------------------------
def cases(tier, seed):
    for name in ("deep-caterpillar", "copy-of-constructed-copy", "untyped-cell-annotation", "extract-unifurcation",
                 "treelist-of-constructed-copy", "matrix-of-constructed-copy"):
        yield {"kind": "directed", "name": name, "seed": seed}
    for n in range(1, 6):
        nshapes = len(gen.all_shapes(n))
        for idx in range(nshapes):
            for deco in (0, 2):
                if n <= 4 or tier == "thorough":
                    routes = TREE_ROUTES
                else:
                    k = (idx + seed + deco) % len(TREE_ROUTES)
                    routes = (TREE_ROUTES[k], TREE_ROUTES[(k + 5) % len(TREE_ROUTES)])
                for r in routes:
                    yield {"kind": "shape", "n": n, "idx": idx, "deco": deco, "route": r, "seed": seed}
    nrand = 6000 if tier == "quick" else 50000
    for i in range(nrand):
        yield {"kind": "random", "i": i, "seed": seed, "tier": tier}     # sizes depend on the tier; --replay re-runs the descriptor alone


# --------------------------------------------------------------------------------------------
# hooks (in-flight monitors)
# --------------------------------------------------------------------------------------------
def install_hooks(ctx, outer, inner):
    L = U.L.load()

    def pre_memo(ns, args, kw):
        memo = args[0] if args else kw.get("memo")
        return None if memo is None else set(memo.keys())

    def post_memo(snap, ns, args, kw, result, exc):
        memo = args[0] if args else kw.get("memo")
        if exc is not None or memo is None or snap is None:
            return
        ctx.ev("memo-seed-judged")
        want = {id(ns): ns}
        for t in ns._taxa:
            want[id(t)] = t
        added = set(memo.keys()) - snap
        bad = [k for k, v in want.items() if memo.get(k) is not v]
        extra = [k for k in added if k not in want]
        if bad or extra:
            ctx.violation("populate_memo_for_taxon_namespace_scoped_copy|memo-not-exactly-namespace-and-taxa",
                          "memo seeded with %d wrong and %d extra entries" % (len(bad), len(extra)),
                          {"extra_types": sorted(set(type(memo[k]).__name__ for k in extra))})
    inner.install(L.TaxonNamespace, "populate_memo_for_taxon_namespace_scoped_copy", pre=pre_memo, post=post_memo,
                  outermost_only=False)

    def pre_dca(dest, args, kw):
        s = dest.__dict__.get("_annotations")
        return 0 if s is None else len(s._item_list)

    def post_dca(n0, dest, args, kw, result, exc):
        if exc is not None:
            return
        other = args[0] if args else kw.get("other")
        s1 = other.__dict__.get("_annotations")
        if s1 is None or not s1._item_list:
            return
        s2 = dest.__dict__.get("_annotations")
        got = [] if s2 is None else s2._item_list[n0:]
        ctx.ev("rebinding-judged")
        if len(got) != len(s1._item_list):
            ctx.violation("deep_copy_annotations_from|annotation-count",
                          "%d annotations copied for %d on the source %s" % (len(got), len(s1._item_list), type(other).__name__))
            return
        for a1, a2 in zip(s1._item_list, got):
            if a2 is a1:
                ctx.violation("deep_copy_annotations_from|annotation-object-shared", "the source's Annotation object was added to the copy")
                return
            if a1.__dict__.get("is_attribute") and a1._value[0] is other:
                if a2._value[0] is not dest or a2._value[1] != a1._value[1]:
                    ctx.violation("deep_copy_annotations_from|bound-annotation-not-retargeted",
                                  "annotation bound to the source %s is bound to %s on the copy" % (
                                      type(other).__name__, "the source" if a2._value[0] is other else "another object"),
                                  {"attribute": a1._value[1]})
                    return
        if s2.__dict__.get("target") is not dest:
            ctx.violation("deep_copy_annotations_from|annotation-set-target", "the copy's AnnotationSet targets another object")
    inner.install(L.Annotable, "deep_copy_annotations_from", pre=pre_dca, post=post_dca, outermost_only=False)
    for owner, name in ((L.Tree, "_clone_from"), (L.Tree, "taxon_namespace_scoped_copy"), (L.Tree, "extract_tree"),
                        (L.TreeList, "_clone_from"), (L.TreeList, "taxon_namespace_scoped_copy"),
                        (L.CharacterMatrix, "_clone_from"), (L.CharacterMatrix, "taxon_namespace_scoped_copy")):
        outer.install(owner, name)


# --------------------------------------------------------------------------------------------
# sources
# --------------------------------------------------------------------------------------------
def spec_depth(spec):
    best = 0
    stack = [(spec, 1)]
    while stack:
        n, d = stack.pop()
        best = max(best, d)
        for c in n[3]:
            stack.append((c, d + 1))
    return best


def make_tree(rng, spec, deco, rooted, encode, ns=None, extra_taxa=0, internal_taxa=False, extras=True):
    import dendropy
    labels = sorted(set(ref.leaf_taxa(spec)))
    if internal_taxa:
        k = 0
        for n in ref.preorder(spec):
            if n[3] and n[0] is None and rng.random() < 0.3:
                n[0] = "I%d" % k
                k += 1
                labels.append(n[0])
    if ns is None:
        allv = labels + ["X%d" % i for i in range(extra_taxa)]
        if deco:
            rng.shuffle(allv)
        ns = dendropy.TaxonNamespace(allv, label=rng.choice([None, "taxa"]) if deco else None)
        U.decorate_namespace(rng, ns, deco)
    tree = bridge.build_tree(spec, ns, rooted, label=rng.choice([None, "tree%d" % rng.randint(0, 9)]) if deco else None)
    U.decorate_tree(rng, tree, deco, encode=encode, extras=extras)
    return tree


def random_tree_spec(rng, tier, nmax=None):
    if nmax is None:
        nmax = 30 if tier == "quick" else 150
    n = rng.choice([1, 2, 3, 4, 6, 9, 14, 20, nmax]) if rng.random() < 0.9 else rng.randint(1, nmax)
    n = min(n, nmax)
    shape = rng.choice([None, None, None, "caterpillar", "star", "balanced"])
    if shape == "caterpillar":
        n = min(n, 90)
    spec = gen.random_spec(rng, n, p_poly=rng.choice([0, 0.3, 0.6]), p_unary=rng.choice([0, 0, 0.15]), shape=shape)
    gen.decorate_lengths(spec, rng, rng.choice(gen.LENGTH_PATTERNS), root_length=rng.random() < 0.3)
    if spec_depth(spec) > 100:
        spec = gen.random_spec(rng, min(n, 40), shape="balanced")
    return spec


def make_source(kind, rng, tier, deco):
    """returns (source object, descriptor for the evidence)."""
    import dendropy
    if kind == "tree":
        spec = random_tree_spec(rng, tier)
        rooted = rng.choice([None, True, False])
        encode = rng.choice([None, None, "imm", "mut"])
        src = make_tree(rng, spec, deco, rooted, encode, extra_taxa=rng.choice([0, 0, 2]), internal_taxa=rng.random() < 0.2)
        return src, {"tree": ref.to_newick(spec)[:200], "rooted": rooted, "encode": encode}
    if kind == "treelist":
        n = rng.choice([1, 2, 3, 5, 8]) if tier == "quick" else rng.choice([1, 2, 4, 8, 15, 25])
        names = [gen.tname(i) for i in range(n)]
        k = rng.choice([0, 1, 2, 3, 5]) if tier == "quick" else rng.choice([0, 1, 2, 4, 8, 12])
        ns = dendropy.TaxonNamespace(names + ["X0"], label="taxa" if deco else None)
        U.decorate_namespace(rng, ns, deco)
        tl = dendropy.TreeList(taxon_namespace=ns, label=rng.choice([None, "list"]))
        for j in range(k):
            spec = gen.random_spec(rng, n, p_poly=0.3, names=names)
            gen.decorate_lengths(spec, rng, rng.choice(gen.LENGTH_PATTERNS))
            tl.append(make_tree(rng, spec, deco if rng.random() < 0.7 else 0, rng.choice([None, True, False]),
                                rng.choice([None, None, "imm"]), ns=ns))
        if deco:
            if rng.random() < 0.6:
                tl.comments.append("list comment")
            if rng.random() < 0.7:
                refs = [tl[0], tl[0].seed_node] if (k and deco > 1) else ()
                U.annotate(rng, tl, bindable=("label",), refs=refs, depth=deco)
            if rng.random() < 0.3:
                tl.xinfo = {"first": tl[0] if k else None, "k": [k]}
        return tl, {"trees": k, "leaves": n}
    if kind == "matrix":
        mtype = rng.choice(U.MATRIX_TYPES)
        n = rng.choice([1, 2, 3, 5]) if tier == "quick" else rng.choice([1, 2, 4, 8, 16])
        ncols = rng.choice([0, 1, 3, 6]) if tier == "quick" else rng.choice([0, 1, 4, 10, 30])
        untyped = rng.random() < 0.15
        m = U.build_matrix(rng, mtype, [gen.tname(i) for i in range(n)], deco, ncols, untyped_cell_annotations=untyped)
        U.decorate_namespace(rng, m.taxon_namespace, deco)
        return m, {"type": mtype, "taxa": n, "cols": ncols}
    if kind == "ns":
        n = rng.choice([0, 1, 2, 5, 9])
        labels = [gen.tname(i) for i in range(n)]
        if deco and n > 2 and rng.random() < 0.3:
            labels[1] = labels[0].lower()      # case variants of one label
        ns = dendropy.TaxonNamespace(labels, label=rng.choice([None, "taxa"]),
                                     is_case_sensitive=rng.random() < 0.3)
        U.decorate_namespace(rng, ns, deco)
        if deco and rng.random() < 0.4:
            for t in ns:
                ns.taxon_bitmask(t)
        if deco and n and rng.random() < 0.3:
            ns.remove_taxon(ns[0])
        if deco and rng.random() < 0.3:
            ns.xinfo = {"note": ["ns extra"]}
        if deco and rng.random() < 0.2:
            ns.is_mutable = False
        return ns, {"taxa": n}
    raise ValueError(kind)


def other_namespace(rng, src_ns):
    import dendropy
    labels = [t.label for t in src_ns]
    mode = rng.choice(["empty", "shuffled", "partial", "superset"])
    if mode == "empty":
        return dendropy.TaxonNamespace(), mode
    if mode == "shuffled":
        sh = labels[:]
        rng.shuffle(sh)
        if sh == labels and len(sh) > 1:
            sh.reverse()
        return dendropy.TaxonNamespace(sh), mode
    if mode == "partial":
        sh = [x for x in labels if rng.random() < 0.5]
        sh.reverse()
        return dendropy.TaxonNamespace(["Q0"] + sh), mode
    sh = labels[:]
    rng.shuffle(sh)
    return dendropy.TaxonNamespace(["Q0"] + sh + ["Q1"]), mode


def make_copy(kind, route, src, rng):
    """returns (copy, expected-label-or-None, target namespace for -otherns)."""
    cls = type(src)
    if route == "deepcopy":
        return copy.deepcopy(src), None, None
    if route == "clone2":
        return src.clone(2), None, None
    if route == "clone1":
        return src.clone(1), None, None
    if route == "clone0":
        return src.clone(0), None, None
    if route == "copy":
        return copy.copy(src), None, None
    if route == "nsscoped":
        return src.taxon_namespace_scoped_copy(), None, None
    if route == "ctor":
        return cls(src), None, None
    if route == "ctor-label":
        return cls(src, label="given label"), "given label", None
    if route == "ctor-otherns":
        ns2, mode = other_namespace(rng, src.taxon_namespace)
        return cls(src, taxon_namespace=ns2), None, ns2
    if route == "extract":
        if has_unary(src):     # the default is judged separately (judge_extract_default_on_unary)
            return src.extract_tree(suppress_unifurcations=False), None, None
        return src.extract_tree(), None, None
    if route == "extract-noref":
        return src.extract_tree(extraction_source_reference_attr_name=None, suppress_unifurcations=False), None, None
    raise ValueError(route)


# --------------------------------------------------------------------------------------------
# the judge
# --------------------------------------------------------------------------------------------
EXTRACT_ONLY = ("structure", "node-labels", "taxa", "taxon-labels", "lengths")
NS_COMPONENTS = ("ns-labels", "ns-flags", "ns-comments", "ns-annotations", "ns-extras")
SAFE_BOUND = {"label": "vf-sentinel-label", "length": 12345.678, "weight": 12345.678, "age": 12345.678,
              "xnum": 12345.678, "length_type": "vf-sentinel-lt"}


def tree_depth(tree):
    best = 0
    seed = tree.__dict__.get("_seed_node")
    if seed is None:
        return 0
    stack = [(seed, 1)]
    while stack:
        n, d = stack.pop()
        best = max(best, d)
        for c in n._child_nodes:
            stack.append((c, d + 1))
    return best


def has_unary(tree):
    return any(len(n._child_nodes) == 1 for n in U.raw_preorder(tree))


DEEP_FAMILY = {"tree": ("deepcopy", "clone2", "ctor", "ctor-label", "clone1", "copy", "clone0", "nsscoped", "ctor-otherns"),
               "treelist": ("deepcopy", "clone2", "ctor", "ctor-label", "clone1", "nsscoped", "ctor-otherns"),
               "matrix": ("deepcopy", "clone2", "ctor", "ctor-label", "clone1", "nsscoped", "ctor-otherns"),
               "ns": ("deepcopy", "clone2")}


def exc_op(kind, route, chain):
    """operation name used in the keys of exceptions and of stray bound owners: every route that runs the memo-driven
    deep copy machinery is one operation (one root cause must not spread over a dozen keys); a source that was itself
    made by a copy constructor is marked, because those objects differ from all others (adopted __dict__)."""
    if chain == "ctor":
        return "%s.<any-route>[src=ctor-copy]" % kind
    return "%s.%s" % (kind, "<deep-route>" if route in DEEP_FAMILY[kind] else route)


def attempt_copy(ctx, op, kind, route, src, rng, detail):
    """run the route; classify exceptions.  Returns (ok, copy, expected_label, ns2)."""
    try:
        cp, lbl, ns2 = make_copy(kind, route, src, rng)
        return True, cp, lbl, ns2
    except core.CaseTimeout:
        raise
    except RecursionError as e:
        depth = max([tree_depth(t) for t in ([src] if kind == "tree" else list(src) if kind == "treelist" else [])] or [0])
        if depth >= DEEP_TREE:
            ctx.violation("deep-copy|RecursionError|tree-deeper-than-%d-levels" % DEEP_TREE,
                          "%s of a tree with %d levels raises RecursionError (attribute-wise recursive deep copy)" % (op, depth),
                          dict(detail, depth=depth, recursionlimit=sys.getrecursionlimit()))
        else:
            ctx.unexpected(op, e, detail)
    except Exception as e:
        ctx.unexpected(op, e, detail)
    return False, None, None, None


def judge(ctx, kind, route, src, rng, chain=None, detail=None, journal_steps=None, tier=None):
    L = U.L.load()
    detail = dict(detail or {})
    detail.update({"kind": kind, "route": route, "chain": chain})
    op = "%s.%s" % (kind, route)
    opx = exc_op(kind, route, chain)
    mode = share_mode(kind, route)
    extract = route.startswith("extract")
    ignore = ("extraction_source",) if route == "extract" else ()
    if route == "extract" and has_unary(src):
        judge_extract_default_on_unary(ctx, src, detail)
    sv = U.View(kind, src)
    src_before = sv.sig
    ok, cp, want_label, ns2 = attempt_copy(ctx, opx, kind, route, src, rng, dict(detail, route=route))
    # the route must not change its source, whether it returned or raised
    ctx.ev("source-unchanged-judged")
    moved = U.diff_components(src_before, sv.take())
    if moved:
        ctx.violation("%s|source-changed-by-copying|%s" % (op, U.component_class(moved[0])),
                      "making the copy changed the source's %s" % moved[0],
                      dict(detail, where=U.first_difference(src_before[moved[0]], sv.sig[moved[0]], moved[0])))
    if not ok:
        return
    ctx.ev("copy-made")
    ctx.ev("copy-made:%s.%s" % (kind, route))
    if mode == "self":
        ctx.note("ns.clone1-returns-the-namespace-itself" if cp is src else "ns.clone1-returns-new-object")
        return
    if cp is src:
        ctx.violation("%s|copy-is-the-source" % op, "the route returned its argument", detail)
        return
    members = len(sv.nm.objs)
    if members >= 3 or any(src_before.get(k) for k in src_before if k.endswith("annotations")):
        ctx.nontrivial((kind, route, chain, U.idfree(src_before)))

    # ---- shared id-sets ------------------------------------------------------------------
    w_src = U.Walk(src)
    w_cp = U.Walk(cp, skip_node_attrs=ignore)
    ns = src if kind == "ns" else src.taxon_namespace
    if mode == "none":
        allowed = set()
    elif mode == "ns":
        allowed = U.Walk(ns).mutable_ids()
    elif mode == "taxa":
        allowed = set()
        for t in ns._taxa:
            allowed |= U.Walk(t).mutable_ids()
    else:   # shallow
        allowed = U.Walk(ns).mutable_ids()
        members_ = list(src._trees) if kind == "treelist" else list(src._taxon_sequence_map.values())
        for mbr in members_:
            allowed |= U.Walk(mbr).mutable_ids()
    shared = w_src.mutable_ids() & w_cp.mutable_ids()
    ctx.ev("shared-set-judged")
    ctx.ev("objects-walked", len(w_src.seen) + len(w_cp.seen))
    bad = sorted(shared - allowed, key=lambda i: len(w_cp.path(i, 1000)))
    reported = set()
    for i in bad:
        cat = w_cp.seen[i][0]
        k = (cat, w_cp.last_attr(i))
        if k in reported:
            continue
        reported.add(k)
        ctx.violation("%s|shared-mutable-object|%s@%s" % (op, cat, k[1]),
                      "%s reachable from source and copy (%d such objects in all) although the route documents %s as shared" % (
                          cat, len(bad), {"none": "nothing", "ns": "only the namespace and its taxa",
                                          "taxa": "only the taxa", "shallow": "only the namespace and the members"}[mode]),
                      dict(detail, path_in_copy=w_cp.path(i), path_in_source=w_src.path(i)))
        if len(reported) >= 4:
            break
    if mode in ("ns", "shallow") and kind != "ns":
        if cp.taxon_namespace is not src.taxon_namespace:
            ctx.violation("%s|namespace-not-shared" % op, "a namespace-scoped copy must refer to the source's TaxonNamespace object", detail)
    if mode == "taxa" and [id(t) for t in cp._taxa] != [id(t) for t in src._taxa]:
        ctx.violation("%s|taxa-not-shared" % op, "TaxonNamespace(ns) documents that the member Taxon objects are the same objects, in order", detail)
    if ns2 is not None and cp.taxon_namespace is not ns2:
        ctx.violation("%s|given-namespace-not-used" % op, "the copy does not refer to the TaxonNamespace passed in", detail)

    # ---- signatures ----------------------------------------------------------------------
    cv = U.View(kind, cp, ignore_node_attrs=ignore)
    a, b = sv.sig, cv.sig
    if want_label is not None:
        # expectation = the source as it would look with the requested label (bound annotations show it too)
        old_label = src.label
        src.label = want_label
        try:
            a = dict(sv.take())
        finally:
            src.label = old_label
            sv.take()
    bound_failed = judge_bound(ctx, op, opx, sv, cv, detail, mode)
    only, skip = None, set()
    if bound_failed:
        skip.update(["annotations", "list-annotations", "ns-annotations", "sequence-annotations"])
    if extract:
        only = EXTRACT_ONLY
    if route == "ctor-otherns":
        skip.update(["taxa", "bipartitions", "tree-namespaces"] + list(NS_COMPONENTS))
        for k, v in b.items():
            if U.component_class(k).split(".")[-1] == "taxa" and any(isinstance(x, list) for x in v):
                ctx.violation("%s|taxon-not-in-target-namespace" % op, "a copied node/sequence refers to a Taxon outside the given namespace", detail)
                break
    if mode == "shallow":
        only = ["list-meta", "matrix-meta", "taxa", "taxon-labels"]
        top = "list-annotations" if kind == "treelist" else "annotations"
        if '"ref"' in U.json.dumps(a.get(top)):
            # clone(0) documents annotation values as references; the implementation deep-copies them: outside the statement
            ctx.note("shallow-copy-annotation-value-referring-to-a-member-not-judged")
        else:
            only.append(top)
        ident_key = "#trees-identity" if kind == "treelist" else None
        if ident_key and a[ident_key] != b[ident_key]:
            ctx.violation("%s|shallow-copy-members-differ" % op, "a shallow copy must hold the same member objects in the same order", detail)
        if kind == "matrix" and [id(s) for s in src._taxon_sequence_map.values()] != [id(s) for s in cp._taxon_sequence_map.values()]:
            ctx.violation("%s|shallow-copy-members-differ" % op, "a shallow copy must hold the same sequence objects in the same order", detail)
    ctx.ev("signature-judged")
    diffs = U.diff_components(a, b, only=only, skip=skip)
    seen_cls = set()
    for k in diffs:
        c = U.component_class(k)
        if c in seen_cls:
            continue
        seen_cls.add(c)
        ctx.violation("%s|signature-differs|%s" % (op, c), "copy differs from its source in %s" % k,
                      dict(detail, where=U.first_difference(a.get(k), b.get(k), k)))
        if len(seen_cls) >= 3:
            break
    if extract:
        for comp in ("comments", "annotations", "extras"):
            flat = repr(b.get(comp))
            empty = {"comments": flat.replace("['l', []]", "").strip("[], ") == "",
                     "annotations": flat.strip("[], ") == "", "extras": flat.strip("[], ") == ""}[comp]
            ctx.ev("extract-only-judged")
            if not empty:
                ctx.violation("%s|carries-more-than-structure|%s" % (op, comp),
                              "extract_tree documents that %s are not copied" % comp, dict(detail, got=flat[:300]))
    for k in sorted(set(a) & set(b)):
        if k.startswith("~") and a[k] != b[k]:
            ctx.note("not-judged:%s-differs:%s.%s" % (k[1:], kind, route))

    # ---- mutation journal -------------------------------------------------------------------
    if journal_steps is None:
        journal_steps = 12 if (tier or ctx.tier) == "quick" else 16
    run_journal(ctx, op, kind, mode, sv, cv, rng, detail, journal_steps)
    return cp


def judge_bound(ctx, op, opx, sv, cv, detail, mode):
    """attribute-bound annotations of the copy follow the copy's attributes."""
    failed = False
    so = dict(sv.owners())
    for name, obj in cv.owners():
        sobj = so.get(name)
        if sobj is None or not isinstance(obj, U.L.Annotable):
            continue
        la = list(U.iter_annotations(sobj))
        lb = list(U.iter_annotations(obj))
        if len(la) != len(lb):
            continue     # the signature comparison reports it
        for a1, a2 in zip(la, lb):
            if not a1.__dict__.get("is_attribute") or not a2.__dict__.get("is_attribute"):
                continue
            sname = sv.nm.get(a1._value[0])
            if sname is None:
                continue
            ctx.ev("bound-follow-judged")
            if not (isinstance(a2._value, tuple) and len(a2._value) == 2):
                continue     # malformed: the signature comparison reports it
            owner2, attr = a2._value
            cname = cv.nm.get(owner2)
            if cname != sname:
                failed = True
                what = "the source's object" if sv.nm.get(owner2) is not None else (
                    "an object outside the copy (%s)" % type(owner2).__name__ if cname is None else "the copy's %s" % cname)
                ctx.violation("%s|bound-annotation-owner|%s" % (opx, "source-object" if sv.nm.get(owner2) is not None else
                                                                ("stray-object" if cname is None else "wrong-counterpart")),
                              "annotation on %s bound to attribute %r of the source's %s is bound to %s on the copy" % (
                                  name, attr, sname, what), dict(detail, annotation=a1.name))
                continue
            if attr not in SAFE_BOUND:
                continue
            target = cv.nm.objs[cname]
            try:
                old = getattr(target, attr)
            except Exception:
                continue
            sentinel = SAFE_BOUND[attr]
            try:
                setattr(target, attr, sentinel)
                got = a2.value
                src_got = a1.value
            finally:
                setattr(target, attr, old)
            shared_owner = target is sv.nm.objs.get(sname)
            if got != sentinel:
                failed = True
                ctx.violation("%s|bound-annotation-does-not-follow-copy" % op,
                              "after setting %s.%s on the copy its bound annotation still shows %r" % (cname, attr, got),
                              dict(detail, annotation=a1.name))
            elif src_got == sentinel and not shared_owner:
                failed = True
                ctx.violation("%s|bound-annotation-of-source-follows-copy" % op,
                              "setting %s.%s on the copy shows through the source's annotation" % (cname, attr),
                              dict(detail, annotation=a1.name))
    return failed


def run_journal(ctx, op, kind, mode, sv, cv, rng, detail, steps=None):
    deep = (mode == "none")
    j = U.Journal(rng, deep=deep, shallow=(mode == "shallow"))
    classes = j.classes(kind)
    rng.shuffle(classes)
    if steps is None:
        steps = 12
    size = len(sv.nm.objs)
    if size > 400:
        steps = min(steps, 6)
    base = {0: sv.take(), 1: cv.take()}
    views = {0: sv, 1: cv}
    done = 0
    for mclass in classes:
        if done >= steps:
            break
        side = rng.randrange(2)
        v = views[side]
        try:
            applied = j.apply(mclass, v)
        except core.CaseTimeout:
            raise
        except Exception as e:
            ctx.note("mutation-raised:%s:%s" % (mclass, type(e).__name__))
            applied = True      # may have changed something before raising
        if not applied:
            continue
        done += 1
        other = views[1 - side]
        now_other = other.take()
        now_self = v.take()
        ctx.ev("mutation-judged")
        ctx.ev("mutation:%s" % mclass)
        if U.diff_components(base[side], now_self) or any(
                base[side].get(k) != now_self.get(k) for k in now_self if k.startswith("#")):
            ctx.ev("mutation-effective")
        moved = U.diff_components(base[1 - side], now_other)
        if moved:
            c = U.component_class(moved[0])
            ctx.violation("%s|mutation-visible-through-other|%s" % (op, mclass),
                          "%s applied to the %s changed the %s's %s" % (
                              mclass, "copy" if side else "source", "source" if side else "copy", moved[0]),
                          dict(detail, component=c, side_mutated="copy" if side else "source",
                               where=U.first_difference(base[1 - side].get(moved[0]), now_other.get(moved[0]), moved[0])))
            base[1 - side] = now_other
        base[side] = now_self


# --------------------------------------------------------------------------------------------
# cases
# --------------------------------------------------------------------------------------------
def apply_chain(src, chain):
    if chain == "ctor":
        return type(src)(src)
    if chain == "clone1":
        return src.clone(1)
    if chain == "deepcopy":
        return copy.deepcopy(src)
    return src


def caterpillar(depth):
    spec = ref.S("T0")
    for i in range(1, depth):
        spec = ref.S(None, [spec, ref.S("T%d" % i)])
    return spec


def run_directed(case, ctx, rng):
    import dendropy
    name = case["name"]
    if name == "deep-caterpillar":
        # smallest failing depth is recorded; the 400-level witness of DESIGN is judged
        ns = dendropy.TaxonNamespace()
        lo, hi = 50, 400
        fails = {}

        def fails_at(d):
            if d not in fails:
                t = bridge.build_tree(caterpillar(d), dendropy.TaxonNamespace(), True)
                try:
                    copy.deepcopy(t)
                    fails[d] = False
                except RecursionError:
                    fails[d] = True
            return fails[d]
        if fails_at(hi) and not fails_at(lo):
            while hi - lo > 1:
                mid = (lo + hi) // 2
                if fails_at(mid):
                    hi = mid
                else:
                    lo = mid
            ctx.sample({"kind": "directed", "name": name, "smallest_failing_depth": hi,
                        "recursionlimit": sys.getrecursionlimit()})
        tree = bridge.build_tree(caterpillar(400), ns, True)
        for route in ("deepcopy", "clone1", "ctor", "extract"):
            judge(ctx, "tree", route, tree, rng, detail={"tree": "caterpillar, 400 levels"}, journal_steps=3)
        ok = bridge.build_tree(caterpillar(120), dendropy.TaxonNamespace(), True)
        for route in ("deepcopy", "ctor"):
            judge(ctx, "tree", route, ok, rng, detail={"tree": "caterpillar, 120 levels"}, journal_steps=3)
    elif name == "copy-of-constructed-copy":
        # smallest witness: one node, one bound annotation on the tree, Tree(t) and then any deep route
        for route in ("deepcopy", "clone1", "ctor", "copy", "clone2", "extract"):
            t = dendropy.Tree(label="t")
            t.annotations.add_bound_attribute("label")
            judge(ctx, "tree", route, dendropy.Tree(t), rng, chain="ctor", detail={"tree": "single node, tree.annotations.add_bound_attribute('label')"})
        # node annotation bound to the tree's attribute: silent variant
        for route in ("deepcopy", "clone1"):
            t = bridge.build_tree(ref.S(None, [ref.S("A"), ref.S("B")]), dendropy.TaxonNamespace(), True, label="t")
            t.seed_node.annotations.add_bound_attribute("label", annotation_name="treelabel", owner_instance=t)
            judge(ctx, "tree", route, dendropy.Tree(t), rng, chain="ctor", detail={"tree": "(A,B); seed_node annotation bound to tree.label"})
    elif name == "treelist-of-constructed-copy":
        for route in ("deepcopy", "clone1", "ctor"):
            tl = dendropy.TreeList(label="l")
            tl.annotations.add_bound_attribute("label")
            judge(ctx, "treelist", route, dendropy.TreeList(tl), rng, chain="ctor", detail={"list": "empty list with bound annotation on label"})
    elif name == "matrix-of-constructed-copy":
        for route in ("deepcopy", "clone1", "ctor"):
            m = dendropy.DnaCharacterMatrix(label="m")
            m.annotations.add_bound_attribute("label")
            judge(ctx, "matrix", route, dendropy.DnaCharacterMatrix(m), rng, chain="ctor", detail={"matrix": "empty DNA matrix with bound annotation on label"})
    elif name == "untyped-cell-annotation":
        for route in ("deepcopy", "clone1", "ctor", "clone2"):
            for label in ("m", None):
                ns = dendropy.TaxonNamespace(["A"])
                m = dendropy.DnaCharacterMatrix(taxon_namespace=ns, label=label)
                m.new_sequence(ns[0], m.coerce_values("AC"))
                m[ns[0]].annotations_at(1).add_new("quality", 3)
                judge(ctx, "matrix", route, m, rng, detail={"matrix": "1 x 2 DNA, label=%r, annotations_at(1) on a cell without character type" % label})
    elif name == "extract-unifurcation":
        spec = ref.S(None, [ref.S(None, [ref.S(None, [ref.S("A", length=1), ref.S("B", length=2)], length=1)], length=1), ref.S("C", length=3)])
        for route in ("extract", "extract-noref"):
            t = bridge.build_tree(spec, dendropy.TaxonNamespace(), True)
            judge(ctx, "tree", route, t, rng, detail={"tree": ref.to_newick(spec)})


def judge_extract_default_on_unary(ctx, src, detail):
    """extract_tree() documents that unifurcations are only suppressed when nodes were filtered out."""
    try:
        cp = src.extract_tree()
    except Exception as e:
        ctx.unexpected("tree.extract", e, detail)
        return
    ctx.ev("extract-unary-judged")
    a = [len(n._child_nodes) for n in U.raw_preorder(src)]
    b = [len(n._child_nodes) for n in U.raw_preorder(cp)]
    if a != b:
        ctx.violation("tree.extract|unifurcations-suppressed-without-filter",
                      "extract_tree() without a filter dropped %d outdegree-1 node(s) of its source" % (len(a) - len(b)),
                      dict(detail, source_outdegrees=a[:40], copy_outdegrees=b[:40]))


def run_case(case, ctx):
    U.L.load()
    rng = random.Random("%s/%s" % (case["seed"], sorted(case.items())))
    with Hooks(ctx) as outer, Hooks(ctx) as inner:
        install_hooks(ctx, outer, inner)
        kind = case["kind"]
        if kind == "directed":
            run_directed(case, ctx, rng)
            return
        if kind == "shape":
            shape = gen.all_shapes(case["n"])[case["idx"]]
            spec = gen.shape_to_spec(shape)
            deco = case["deco"]
            if deco:
                gen.decorate_lengths(spec, rng, rng.choice(("dyadic", "ints", "mixed_missing")), root_length=rng.random() < 0.3)
            src = make_tree(rng, spec, deco, rng.choice([None, True, False]), rng.choice([None, "imm", "mut"]) if deco else None,
                            extra_taxa=1 if deco else 0)
            detail = {"tree": ref.to_newick(spec), "deco": deco}
            judge(ctx, "tree", case["route"], src, rng, detail=detail)
            if case["idx"] == 0 and case["route"] == "deepcopy":
                ctx.sample(dict(case, tree=detail["tree"]))
            return
        # ---- random ---------------------------------------------------------------------
        k = rng.choice(["tree"] * 5 + ["treelist"] * 2 + ["matrix"] * 2 + ["ns"])
        deco = rng.choice([0, 1, 2, 2])
        tier = case.get("tier") or ctx.tier
        src, desc = make_source(k, rng, tier, deco)
        route = rng.choice(ROUTES[k])
        chain = rng.choice(CHAINS) if k != "ns" else rng.choice((None, None, "ctor", "deepcopy"))
        detail = dict(desc, deco=deco)
        if chain:
            ok = True
            try:
                src = apply_chain(src, chain)
            except core.CaseTimeout:
                raise
            except Exception as e:
                ctx.unexpected(exc_op(k, chain, None), e, dict(detail, route=chain))
                ok = False
            if not ok:
                return
        judge(ctx, k, route, src, rng, chain=chain, detail=detail, tier=tier)
        if case["i"] < 6:
            ctx.sample({"case": case, "kind": k, "route": route, "chain": chain, "source": detail})
