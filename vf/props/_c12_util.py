"""Private helpers of the C12 check: object-graph walker, canonical signatures,
source builders and the mutation journal.  Nothing here computes an expected value
with the library's copy machinery: the walker follows raw ``__dict__`` / container
contents, signatures read raw fields, and mutations go through the public API."""
import json
import types

STOP_TYPES = (type(None), bool, int, float, complex, str, bytes, type, types.FunctionType,
              types.BuiltinFunctionType, types.MethodType, types.ModuleType)


class L(object):
    """lazily bound library classes (the module must be importable before /repo/src is on the path)."""
    ready = False

    @classmethod
    def load(cls):
        if cls.ready:
            return cls
        import dendropy
        from dendropy.datamodel import basemodel, charstatemodel, charmatrixmodel
        from dendropy.datamodel.treemodel import _bipartition
        cls.dp = dendropy
        cls.Tree = dendropy.Tree
        cls.Node = dendropy.Node
        cls.Edge = dendropy.Edge
        cls.Bipartition = _bipartition.Bipartition
        cls.Taxon = dendropy.Taxon
        cls.TaxonNamespace = dendropy.TaxonNamespace
        cls.Annotation = basemodel.Annotation
        cls.AnnotationSet = basemodel.AnnotationSet
        cls.Annotable = basemodel.Annotable
        cls.TreeList = dendropy.TreeList
        cls.CharacterMatrix = charmatrixmodel.CharacterMatrix
        cls.CharacterDataSequence = charmatrixmodel.CharacterDataSequence
        cls.CharacterType = charmatrixmodel.CharacterType
        cls.CharacterSubset = charmatrixmodel.CharacterSubset
        cls.StateAlphabet = charstatemodel.StateAlphabet
        cls.StateIdentity = charstatemodel.StateIdentity
        cls.charstatemodel = charstatemodel
        cls.FAMILIES = [(cls.Tree, "Tree"), (cls.Node, "Node"), (cls.Edge, "Edge"), (cls.Bipartition, "Bipartition"),
                        (cls.Taxon, "Taxon"), (cls.TaxonNamespace, "TaxonNamespace"), (cls.Annotation, "Annotation"),
                        (cls.AnnotationSet, "AnnotationSet"), (cls.TreeList, "TreeList"),
                        (cls.CharacterMatrix, "CharacterMatrix"), (cls.CharacterDataSequence, "CharacterDataSequence"),
                        (cls.CharacterType, "CharacterType"), (cls.CharacterSubset, "CharacterSubset")]
        # the module-level alphabets (DNA_STATE_ALPHABET, ...) are library-wide constants whose copy is documented
        # to be the object itself; every OTHER alphabet (new_standard_state_alphabet, StateAlphabet(...)) is a
        # mutable part of the matrix that holds it
        cls.BUILTIN_ALPHABETS = dict((id(v), k) for k, v in vars(charstatemodel).items() if isinstance(v, cls.StateAlphabet))
        cls.ready = True
        return cls


# --------------------------------------------------------------------------------------------
# object-graph walker
# --------------------------------------------------------------------------------------------
def category(obj):
    """None: immutable atom / exempt singleton (not entered).  '~...': immutable container that is
    entered but is not itself a mutable part.  Otherwise the name of the mutable category."""
    if isinstance(obj, STOP_TYPES):
        return None
    if isinstance(obj, L.StateIdentity):
        return None     # documented immutable ("set upon definition/creation, and after that read-only")
    if isinstance(obj, L.StateAlphabet):
        # an atom (not entered: its states and look-up tables belong to it); mutable unless it is a library constant
        return None if id(obj) in L.BUILTIN_ALPHABETS else "StateAlphabet"
    if isinstance(obj, tuple):
        return "~tuple"
    if isinstance(obj, frozenset):
        return "~frozenset"
    for klass, name in L.FAMILIES:
        if isinstance(obj, klass):
            return name
    if isinstance(obj, list):
        return "list"
    if isinstance(obj, dict):
        return "dict"
    if isinstance(obj, set):
        return "set"
    if hasattr(obj, "__dict__"):
        return "object:" + type(obj).__name__
    return None


def _children(obj, skip_node_attrs):
    if isinstance(obj, L.StateAlphabet):
        return
    if isinstance(obj, dict):
        for i, (k, v) in enumerate(obj.items()):
            yield "<key %d>" % i, k
            yield "[%s]" % (repr(k)[:24] if isinstance(k, STOP_TYPES) else "key %d" % i), v
    elif isinstance(obj, (list, tuple)):
        for i, v in enumerate(obj):
            yield "[%d]" % i, v
    elif isinstance(obj, (set, frozenset)):
        for v in obj:
            yield "{}", v
    d = getattr(obj, "__dict__", None)
    if d is not None:
        isnode = bool(skip_node_attrs) and isinstance(obj, L.Node)
        for k, v in list(d.items()):
            if isnode and k in skip_node_attrs:
                continue
            yield "." + str(k), v


class Walk(object):
    """id -> (category, object, parent id, step) of everything reachable from root."""

    def __init__(self, root, skip_node_attrs=()):
        self.seen = {}
        stack = [(root, None, "")]
        while stack:
            obj, pid, via = stack.pop()
            cat = category(obj)
            if cat is None or id(obj) in self.seen:
                continue
            self.seen[id(obj)] = (cat, obj, pid, via)
            for step, ch in _children(obj, skip_node_attrs):
                if not isinstance(ch, STOP_TYPES):
                    stack.append((ch, id(obj), step))

    def mutable_ids(self):
        return set(i for i, e in self.seen.items() if not e[0].startswith("~"))

    def path(self, i, limit=12):
        parts = []
        while i is not None and len(parts) < 400:
            cat, obj, pid, via = self.seen[i]
            parts.append(via)
            i = pid
        parts.reverse()
        if len(parts) > limit:
            parts = parts[:4] + ["..."] + parts[-(limit - 5):]
        return "".join(parts) or "<root>"

    def last_attr(self, i):
        """nearest attribute name on the path (skipping container steps)"""
        while i is not None:
            cat, obj, pid, via = self.seen[i]
            if via.startswith("."):
                return via[1:]
            i = pid
        return "<root>"

    def count(self):
        c = {}
        for cat, _, _, _ in self.seen.values():
            c[cat] = c.get(cat, 0) + 1
        return c


# --------------------------------------------------------------------------------------------
# canonical names and signatures
# --------------------------------------------------------------------------------------------
class Namer(object):
    """canonical names of the structural objects of one side.  Objects are also looked up by the
    identity of their ``__dict__``: an object that shares its attribute dictionary with a named one
    is observationally the same object (the copy constructors adopt the ``__dict__`` of a temporary)."""

    def __init__(self):
        self.names = {}
        self.objs = {}          # structural objects (nodes, edges, trees, taxa, ...)
        self.aux = {}           # auxiliary named objects (annotations, state alphabets): named, but not "members"
        self.malformed = []     # what the raw walk found instead of a node ("<where>: <what>")

    def add(self, obj, name):
        self.names[id(obj)] = name
        d = getattr(obj, "__dict__", None)
        if d is not None:
            self.names[("d", id(d))] = name
        self.objs[name] = obj

    def add_aux(self, obj, name):
        if id(obj) in self.names:
            return
        self.names[id(obj)] = name
        self.aux[name] = obj

    def lookup(self, name):
        o = self.objs.get(name)
        return o if o is not None else self.aux.get(name)

    def get(self, obj):
        n = self.names.get(id(obj))
        if n is None:
            d = getattr(obj, "__dict__", None)
            if d is not None:
                n = self.names.get(("d", id(d)))
        return n


STD = {
    "Tree": {"_bipartition_edge_map", "_is_rooted", "_label", "_seed_node", "_split_bitmask_edge_map", "_taxon_namespace",
             "automigrate_taxon_namespace_on_assignment", "bipartition_encoding", "comments", "length_type", "weight",
             "_annotations"},
    "Node": {"_child_nodes", "_edge", "_label", "_parent_node", "age", "comments", "taxon", "_annotations"},
    "Edge": {"_bipartition", "_head_node", "_label", "comments", "length", "rootedge", "_annotations"},
    "Taxon": {"_label", "_lower_cased_label", "comments", "_annotations"},
    "TaxonNamespace": {"_accession_index_taxon_map", "_current_accession_count", "_label", "_taxa",
                       "_taxon_accession_index_map", "_taxon_bitmask_map", "comments", "is_case_sensitive", "is_mutable",
                       "_annotations"},
    "TreeList": {"_label", "_taxon_namespace", "_trees", "automigrate_taxon_namespace_on_assignment", "comments",
                 "tree_type", "_annotations"},
    "CharacterMatrix": {"_default_state_alphabet", "_label", "_taxon_namespace", "_taxon_sequence_map",
                        "automigrate_taxon_namespace_on_assignment", "character_subsets", "character_types", "comments",
                        "state_alphabets", "_annotations"},
    "CharacterDataSequence": {"_character_annotations", "_character_types", "_character_values", "_annotations"},
    "CharacterType": {"_label", "_state_alphabet", "comments", "_annotations"},
    "CharacterSubset": {"_label", "character_indices", "comments", "_annotations"},
}


def vsig(v, nm, stack=(), done=None):
    """canonical, id-free rendering of an arbitrary value; structural objects by canonical name.
    ``stack`` cuts cycles, ``done`` (per top-level call) renders an unnamed object in full only once."""
    if v is None or isinstance(v, (bool, int, float, str, bytes)):
        return ["a", type(v).__name__, repr(v)]
    n = nm.get(v)
    if n is not None:
        return ["ref", n]
    if id(v) in stack:
        return ["cycle"]
    if len(stack) > 40:
        return ["deep"]
    if done is None:
        done = {}
    if isinstance(v, (type, types.FunctionType, types.BuiltinFunctionType, types.MethodType)):
        return ["callable", getattr(v, "__qualname__", repr(v))]
    if isinstance(v, L.StateIdentity):
        return ["state", str(v)]
    if isinstance(v, L.StateAlphabet):
        return ["alphabet", v.__dict__.get("_label")]
    if id(v) in done:
        return ["again", type(v).__name__, done[id(v)]]
    done[id(v)] = len(done)
    stack = stack + (id(v),)
    if isinstance(v, L.Annotation):
        return ["ann", annsig(v, nm, stack, done)]
    if isinstance(v, L.AnnotationSet):
        return ["annset", _tname(v.__dict__.get("target"), nm), [annsig(a, nm, stack, done) for a in v._item_list]]
    if isinstance(v, (list, tuple)):
        return ["l" if isinstance(v, list) else "t", [vsig(x, nm, stack, done) for x in v]]
    if isinstance(v, dict):
        atoms = all(isinstance(k, STOP_TYPES) for k in v)
        keys = sorted(v, key=repr) if atoms else list(v)
        return ["d", type(v).__name__, [[vsig(k, nm, stack, done), vsig(v[k], nm, stack, done)] for k in keys]]
    if isinstance(v, (set, frozenset)):
        if all(isinstance(x, STOP_TYPES) for x in v):
            return ["s", [vsig(x, nm, stack, done) for x in sorted(v, key=repr)]]
        return ["s", sorted((vsig(x, nm, stack, {}) for x in v), key=json.dumps)]
    d = getattr(v, "__dict__", None)
    if d is not None:
        # the annotation set is created lazily by the first look at .annotations: an empty one is the same as none
        return ["obj", type(v).__name__, [[k, vsig(d[k], nm, stack, done)] for k in sorted(d, key=repr) if k != "_annotations"],
                annotations_sig(v, nm, stack, done)]
    return ["repr", repr(v)]


def _tname(obj, nm):
    if obj is None:
        return None
    n = nm.get(obj)
    return n if n is not None else ["unnamed", type(obj).__name__]


def annsig(a, nm, stack=(), done=None):
    if done is None:
        done = {}
    d = a.__dict__
    val = d.get("_value")
    if d.get("is_attribute") and isinstance(val, tuple) and len(val) == 2:
        owner, attr = val
        try:
            cur = vsig(getattr(owner, attr), nm, stack, done)
        except Exception as e:  # noqa
            cur = ["error", type(e).__name__]
        v = ["bound", _tname(owner, nm), attr, cur]
    else:
        v = ["plain", d.get("is_attribute"), vsig(val, nm, stack, done)]
    return [d.get("name"), v, d.get("datatype_hint"), d.get("_name_prefix"), d.get("_namespace"),
            d.get("annotate_as_reference"), d.get("is_hidden"), d.get("real_value_format_specifier"),
            annotations_sig(a, nm, stack, done)]


def annotations_sig(obj, nm, stack=(), done=None):
    s = obj.__dict__.get("_annotations")
    if s is None or not s._item_list:
        return []
    if done is None:
        done = {}
    return [_tname(s.__dict__.get("target"), nm), [annsig(a, nm, stack, done) for a in s._item_list]]


def extras_sig(obj, fam, nm, ignore=()):
    d = obj.__dict__
    std = STD[fam]
    return [[k, vsig(d[k], nm)] for k in sorted(d) if k not in std and k not in ignore]


def iter_annotations(obj):
    """all Annotation objects hanging (transitively) on obj's annotation set."""
    s = obj.__dict__.get("_annotations")
    if s is None:
        return
    stack = list(s._item_list)
    seen = set()
    while stack:
        a = stack.pop()
        if id(a) in seen:
            continue
        seen.add(id(a))
        yield a
        s2 = a.__dict__.get("_annotations")
        if s2 is not None:
            stack.extend(s2._item_list)


def raw_children(nd):
    """the raw child list of a node, () when the object has none (malformed structure)."""
    d = getattr(nd, "__dict__", None)
    ch = d.get("_child_nodes") if isinstance(d, dict) else None
    return ch if isinstance(ch, (list, tuple)) else ()


def raw_preorder(tree, bad=None):
    """raw pre-order over ``_child_nodes``.  Tolerates malformed structures (a copy route may hand back anything):
    objects without attribute dictionary are left out, nodes without child list count as leaves, a node reached twice
    is listed once; each such defect is described in ``bad`` (when given)."""
    d = getattr(tree, "__dict__", None)
    seed = d.get("_seed_node") if isinstance(d, dict) else None
    out = []
    if not isinstance(d, dict):
        if bad is not None:
            bad.append("tree-without-attributes")
        return out
    if seed is None:
        return out
    stack = [seed]
    seen = set()
    while stack:
        nd = stack.pop()
        if id(nd) in seen:
            if bad is not None:
                bad.append("node-reached-twice")
            continue
        seen.add(id(nd))
        x = getattr(nd, "__dict__", None)
        if not isinstance(x, dict):
            if bad is not None:
                bad.append("child-list-holds-a-non-node")
            continue
        if not isinstance(x.get("_child_nodes"), (list, tuple)):
            if bad is not None:
                bad.append("node-without-child-list")
        out.append(nd)
        stack.extend(reversed(raw_children(nd)))
    return out


def name_annotations(nm):
    """canonical names for every Annotation hanging (transitively) on a named structural object:
    '<owner>/ann:<i>[/ann:<j>...]', so that annotations bound to an attribute of their parent annotation
    have a named owner too."""
    for oname, o in list(nm.objs.items()):
        d = getattr(o, "__dict__", None)
        s = d.get("_annotations") if isinstance(d, dict) else None
        if s is None:
            continue
        stack = [(oname, s)]
        while stack:
            base, aset = stack.pop()
            items = aset.__dict__.get("_item_list") or ()
            for i, a in enumerate(items):
                nme = "%s/ann:%d" % (base, i)
                if id(a) in nm.names:
                    continue
                nm.add_aux(a, nme)
                s2 = a.__dict__.get("_annotations")
                if s2 is not None:
                    stack.append((nme, s2))


def taxon_names(ns, nm, prefix="taxon"):
    counts = {}
    for t in ns._taxa:
        lb = t.__dict__.get("_label")
        k = counts.get(lb, 0)
        counts[lb] = k + 1
        nm.add(t, "%s:%r#%d" % (prefix, lb, k))


def name_tree(tree, nm, prefix="", with_ns=True):
    nm.add(tree, prefix + "tree")
    ns = tree.__dict__.get("_taxon_namespace")
    if with_ns and ns is not None and nm.get(ns) is None:
        nm.add(ns, "ns")
        taxon_names(ns, nm)
    nodes = raw_preorder(tree, nm.malformed)
    for i, nd in enumerate(nodes):
        nm.add(nd, "%snode:%d" % (prefix, i))
    for i, nd in enumerate(nodes):
        e = nd.__dict__.get("_edge")
        if e is not None and nm.get(e) is None:
            nm.add(e, "%sedge:%d" % (prefix, i))
            b = e.__dict__.get("_bipartition")
            if b is not None and nm.get(b) is None:
                nm.add(b, "%sbip:%d" % (prefix, i))
    return nodes


def bipsig(b, nm):
    if b is None:
        return None
    d = b.__dict__
    return [nm.get(b), d.get("_split_bitmask"), d.get("_leafset_bitmask"), d.get("_tree_leafset_bitmask"),
            d.get("_is_rooted"), d.get("is_mutable"), d.get("_lowest_relevant_bit")]


def ns_sig(ns, nm, sig, pfx="ns-"):
    d = ns.__dict__
    sig[pfx + "labels"] = [d.get("_label"), [t.__dict__.get("_label") for t in ns._taxa]]
    sig[pfx + "flags"] = [d.get("is_mutable"), d.get("is_case_sensitive")]
    sig[pfx + "comments"] = [vsig(d.get("comments"), nm), [vsig(t.__dict__.get("comments"), nm) for t in ns._taxa]]
    sig[pfx + "annotations"] = [annotations_sig(ns, nm), [annotations_sig(t, nm) for t in ns._taxa]]
    sig[pfx + "extras"] = [extras_sig(ns, "TaxonNamespace", nm), [extras_sig(t, "Taxon", nm) for t in ns._taxa]]
    # recorded, not judged (bit assignment is C10's subject)
    sig["~" + pfx + "accession"] = [d.get("_current_accession_count"),
                                    sorted([nm.get(t) or "?", m] for t, m in d.get("_taxon_bitmask_map", {}).items())]


def tree_sig(tree, nm, nodes, sig=None, pfx="", ignore_node_attrs=(), ignore_tree_attrs=()):
    """component -> JSON-able value.  ``nodes`` = raw pre-order (from name_tree)."""
    sig = {} if sig is None else sig
    d = tree.__dict__
    sig[pfx + "rooting"] = d.get("_is_rooted")
    sig[pfx + "tree-label"] = vsig(d.get("_label"), nm)
    sig[pfx + "tree-weight"] = [vsig(d.get("weight"), nm), vsig(d.get("length_type"), nm)]
    st, nl, tx, txl, ln, el, ages, com, ann, ext, bip = [], [], [], [], [], [], [], [], [], [], []
    typ = [type(tree).__qualname__]
    com.append(vsig(d.get("comments"), nm))
    ann.append(annotations_sig(tree, nm))
    ext.append(extras_sig(tree, "Tree", nm, ignore_tree_attrs))
    for nd in nodes:
        x = nd.__dict__
        e = x.get("_edge")
        ex = getattr(e, "__dict__", None)
        if not isinstance(ex, dict):
            ex = {}
        par = x.get("_parent_node")
        st.append([len(raw_children(nd)), _tname(par, nm), _tname(e, nm), _tname(ex.get("_head_node"), nm)])
        typ.append([type(nd).__qualname__, type(e).__qualname__])
        nl.append(vsig(x.get("_label"), nm))
        t = x.get("taxon")
        tx.append(_tname(t, nm))
        txl.append(None if t is None else vsig(getattr(t, "__dict__", {}).get("_label"), nm))
        ln.append(vsig(ex.get("length"), nm))
        el.append([vsig(ex.get("_label"), nm), vsig(ex.get("rootedge"), nm)])
        ages.append(vsig(x.get("age"), nm))
        com.append([vsig(x.get("comments"), nm), vsig(ex.get("comments"), nm)])
        ann.append([annotations_sig(nd, nm), annotations_sig(e, nm) if ex else []])
        ext.append([extras_sig(nd, "Node", nm, ignore_node_attrs), extras_sig(e, "Edge", nm) if ex else []])
        bip.append(bipsig(ex.get("_bipartition"), nm))
    enc = d.get("bipartition_encoding")
    if enc is not None:
        enc = [bipsig(b, nm) for b in enc]
    sbem = d.get("_split_bitmask_edge_map")
    if sbem is not None:
        sbem = sorted([[k, _tname(v, nm)] for k, v in sbem.items()], key=json.dumps)
    bem = d.get("_bipartition_edge_map")
    if bem is not None:
        bem = sorted([[bipsig(k, nm), _tname(v, nm)] for k, v in bem.items()], key=json.dumps)
    sig[pfx + "structure"] = st
    sig[pfx + "types"] = typ
    sig[pfx + "node-labels"] = nl
    sig[pfx + "taxa"] = tx
    sig[pfx + "taxon-labels"] = txl
    sig[pfx + "lengths"] = ln
    sig[pfx + "edge-labels"] = el
    sig[pfx + "ages"] = ages
    sig[pfx + "comments"] = com
    sig[pfx + "annotations"] = ann
    sig[pfx + "extras"] = ext
    sig[pfx + "bipartitions"] = [bip, enc, sbem, bem]
    return sig


def state_sig(st):
    x = st.__dict__
    members = x.get("_member_states")
    return [x.get("_symbol"), x.get("_index"), x.get("_state_denomination"),
            None if members is None else [getattr(ms, "__dict__", {}).get("_symbol") for ms in members],
            sorted(x.get("_symbol_synonyms") or (), key=repr)]


def alphabet_sig(a):
    """id-free content of a user-made alphabet (raw fields); a library constant is rendered by its name."""
    if id(a) in L.BUILTIN_ALPHABETS:
        return ["builtin", L.BUILTIN_ALPHABETS[id(a)]]
    x = a.__dict__
    return [type(a).__qualname__, x.get("_label"), x.get("_is_case_sensitive"), x.get("_gap_symbol"), x.get("_no_data_symbol"),
            [state_sig(st) for st in x.get("_fundamental_states") or ()],
            [state_sig(st) for st in x.get("_ambiguous_states") or ()],
            [state_sig(st) for st in x.get("_polymorphic_states") or ()]]


def matrix_alphabets(m):
    """every alphabet the matrix refers to, once each, in a canonical order: the state_alphabets list, the default
    alphabet, the alphabets of the character types."""
    d = m.__dict__
    out, seen = [], set()
    cands = list(d.get("state_alphabets") or ())
    cands.append(d.get("_default_state_alphabet"))
    for c in d.get("character_types") or ():
        cands.append(getattr(c, "__dict__", {}).get("_state_alphabet"))
    for a in cands:
        if a is not None and isinstance(a, L.StateAlphabet) and id(a) not in seen:
            seen.add(id(a))
            out.append(a)
    return out


def custom_alphabets(m):
    return [a for a in matrix_alphabets(m) if id(a) not in L.BUILTIN_ALPHABETS]


def matrix_sig(m, nm, sig=None):
    sig = {} if sig is None else sig
    d = m.__dict__
    sig["matrix-meta"] = [type(m).__name__, vsig(d.get("_label"), nm)]
    sig["comments"] = vsig(d.get("comments"), nm)
    sig["annotations"] = annotations_sig(m, nm)
    sig["extras"] = extras_sig(m, "CharacterMatrix", nm)
    tsm = d.get("_taxon_sequence_map", {})
    sig["taxa"] = [_tname(t, nm) for t in tsm]
    sig["taxon-labels"] = [vsig(t.__dict__.get("_label"), nm) for t in tsm]
    seqs, ctypes, cann, sann, sext, ident = [], [], [], [], [], []
    for t, s in tsm.items():
        x = s.__dict__
        seqs.append([type(s).__name__, vsig(x.get("_character_values"), nm)])
        ident.append([id(v) if isinstance(v, L.StateIdentity) else None for v in x.get("_character_values", [])])
        ctypes.append([_tname(c, nm) for c in x.get("_character_types", [])])
        cann.append([None if a is None else vsig(a, nm) for a in x.get("_character_annotations", [])])
        sann.append(annotations_sig(s, nm))
        sext.append(extras_sig(s, "CharacterDataSequence", nm))
    sig["sequences"] = seqs
    sig["#state-identity"] = ident
    sig["cell-types"] = ctypes
    sig["cell-annotations"] = cann
    sig["sequence-annotations"] = sann
    sig["sequence-extras"] = sext
    sig["character-types"] = [[vsig(c.__dict__.get("_label"), nm), _tname(c.__dict__.get("_state_alphabet"), nm),
                               annotations_sig(c, nm), vsig(c.__dict__.get("comments"), nm)]
                              for c in d.get("character_types", [])]
    sig["alphabets"] = [[[nm.get(a), alphabet_sig(a)] for a in matrix_alphabets(m)],
                        [_tname(a, nm) for a in d.get("state_alphabets", [])] if "state_alphabets" in d else None,
                        _tname(d.get("_default_state_alphabet"), nm)]
    subs = d.get("character_subsets")
    out = []
    if subs is not None:
        for k in list(subs.keys()):
            cs = subs[k]
            out.append([k, vsig(cs.__dict__.get("_label"), nm), sorted(cs.__dict__.get("character_indices", ())),
                        annotations_sig(cs, nm)])
    sig["character-subsets"] = out
    sig["#alphabets"] = [[id(a) for a in d.get("state_alphabets", [])] if "state_alphabets" in d else None,
                         id(d.get("_default_state_alphabet")) if d.get("_default_state_alphabet") is not None else None]
    return sig


class View(object):
    """one side (source or copy): canonical names + signature, re-takable at any time."""

    def __init__(self, kind, root, with_ns=True, ignore_node_attrs=(), ignore_tree_attrs=()):
        self.kind = kind
        self.root = root
        self.with_ns = with_ns
        self.ignore_node_attrs = tuple(ignore_node_attrs)
        self.ignore_tree_attrs = tuple(ignore_tree_attrs)
        self.take()

    def take(self):
        L.load()
        nm = self.nm = Namer()
        sig = self.sig = {}
        root = self.root
        kind = self.kind
        self.trees = []
        self.nodes = []
        if kind == "tree":
            nodes = name_tree(root, nm, "", self.with_ns)
            self.trees = [root]
            self.nodes = [nodes]
            name_annotations(nm)
            tree_sig(root, nm, nodes, sig, "", self.ignore_node_attrs, self.ignore_tree_attrs)
            self.ns = root.__dict__.get("_taxon_namespace")
        elif kind == "treelist":
            nm.add(root, "treelist")
            self.ns = root.__dict__.get("_taxon_namespace")
            if self.with_ns and self.ns is not None:
                nm.add(self.ns, "ns")
                taxon_names(self.ns, nm)
            d = root.__dict__
            trees = list(d.get("_trees", []))
            per = []
            for j, t in enumerate(trees):
                per.append(name_tree(t, nm, "t%d/" % j, False))
            name_annotations(nm)
            sig["list-meta"] = [vsig(d.get("_label"), nm), len(trees)]
            sig["list-tree-type"] = [type(root).__qualname__, vsig(d.get("tree_type"), nm)]
            sig["list-comments"] = vsig(d.get("comments"), nm)
            sig["list-annotations"] = annotations_sig(root, nm)
            sig["list-extras"] = extras_sig(root, "TreeList", nm)
            sig["#trees-identity"] = [id(t) for t in trees]
            sig["tree-namespaces"] = [_tname(t.__dict__.get("_taxon_namespace"), nm) for t in trees]
            for j, t in enumerate(trees):
                tree_sig(t, nm, per[j], sig, "trees[%d]." % j)
            self.trees = trees
            self.nodes = per
        elif kind == "matrix":
            nm.add(root, "matrix")
            self.ns = root.__dict__.get("_taxon_namespace")
            if self.with_ns and self.ns is not None:
                nm.add(self.ns, "ns")
                taxon_names(self.ns, nm)
            for i, c in enumerate(root.__dict__.get("character_types", [])):
                nm.add(c, "ctype:%d" % i)
            for i, s in enumerate(root.__dict__.get("_taxon_sequence_map", {}).values()):
                nm.add(s, "seq:%d" % i)
            for i, a in enumerate(matrix_alphabets(root)):
                nm.add_aux(a, "builtin-alphabet:%s" % L.BUILTIN_ALPHABETS[id(a)] if id(a) in L.BUILTIN_ALPHABETS
                           else "alphabet:%d" % i)
            name_annotations(nm)
            matrix_sig(root, nm, sig)
        elif kind == "ns":
            self.ns = root
            nm.add(root, "ns")
            taxon_names(root, nm)
            name_annotations(nm)
        else:
            raise ValueError(kind)
        if self.ns is not None and self.with_ns:
            ns_sig(self.ns, nm, sig)
        return sig

    def owners(self):
        """every Annotable structural object of this side with its canonical name."""
        return list(self.nm.objs.items())


def component_class(name):
    """'trees[3].lengths' -> 'trees.lengths' (keys must not contain indices)."""
    if name.startswith("trees["):
        return "trees." + name.split(".", 1)[1]
    return name


def diff_components(a, b, only=None, skip=()):
    out = []
    for k in sorted(set(a) | set(b)):
        if k.startswith("~") or k.startswith("#"):
            continue
        c = component_class(k)
        base = c.split(".")[-1]
        if only is not None and base not in only:
            continue
        if base in skip or c in skip:
            continue
        if a.get(k) != b.get(k):
            out.append(k)
    return out


def first_difference(x, y, path=""):
    """human-readable location of the first difference between two signature values."""
    if type(x) is not type(y):
        return "%s: %s != %s" % (path, json.dumps(x, default=repr)[:160], json.dumps(y, default=repr)[:160])
    if isinstance(x, list):
        if len(x) != len(y):
            return "%s: length %d != %d" % (path, len(x), len(y))
        for i, (p, q) in enumerate(zip(x, y)):
            if p != q:
                return first_difference(p, q, "%s[%d]" % (path, i))
        return None
    if x != y:
        return "%s: %s != %s" % (path, json.dumps(x, default=repr)[:160], json.dumps(y, default=repr)[:160])
    return None


def idfree(sig):
    return dict((k, v) for k, v in sig.items() if not k.startswith("#"))


# --------------------------------------------------------------------------------------------
# source builders (hostile decorations)
# --------------------------------------------------------------------------------------------
def fresh_value(rng):
    k = rng.randint(0, 8)
    if k == 0:
        return "s%d" % rng.randint(0, 999)
    if k == 1:
        return rng.randint(-5, 5000)
    if k == 2:
        return rng.randint(1, 64) / 8.0
    if k == 3:
        return [rng.randint(0, 9), "x", [rng.randint(0, 9)]]
    if k == 4:
        return {"k": [rng.randint(0, 9)], "n": rng.randint(0, 9)}
    if k == 5:
        return ("t", rng.randint(0, 9), [1])
    if k == 6:
        return None
    if k == 7:
        return set([rng.randint(0, 9), "e"])
    return True


def annotate(rng, obj, bindable=(), others=(), refs=(), depth=1, nmax=3):
    """add 1..nmax annotations of all kinds to an Annotable object."""
    made = []
    for _ in range(rng.randint(1, nmax)):
        r = rng.random()
        if r < 0.40 or (not bindable and not others and not refs):
            qual = {}
            if rng.random() < 0.25:
                qual = {"name_prefix": "dc", "namespace": "http://purl.org/dc/elements/1.1/"}
            a = obj.annotations.add_new("p%d" % rng.randint(0, 99), fresh_value(rng),
                                        datatype_hint=rng.choice([None, "xsd:string"]),
                                        is_hidden=rng.random() < 0.2,
                                        annotate_as_reference=rng.random() < 0.1,
                                        real_value_format_specifier=rng.choice([None, ".4f"]), **qual)
        elif r < 0.70 and bindable:
            attr = rng.choice(bindable)
            a = obj.annotations.add_bound_attribute(attr, annotation_name=rng.choice([None, "b_" + attr]))
        elif r < 0.88 and others:
            owner, attr = rng.choice(others)
            a = obj.annotations.add_bound_attribute(attr, annotation_name="o_" + attr, owner_instance=owner)
        elif refs:
            a = obj.annotations.add_new("ref%d" % rng.randint(0, 9), rng.choice(refs))
        else:
            a = obj.annotations.add_new("q%d" % rng.randint(0, 99), fresh_value(rng))
        made.append(a)
        if depth > 0 and rng.random() < 0.35:
            annotate(rng, a, bindable=("name", "datatype_hint"), depth=depth - 1, nmax=2)
    return made


def decorate_namespace(rng, ns, level):
    if level <= 0:
        return
    if rng.random() < 0.6:
        ns.comments.append("ns comment %d" % rng.randint(0, 99))
    if rng.random() < 0.6:
        annotate(rng, ns, bindable=("label",), depth=1)
    for t in ns:
        if rng.random() < 0.3:
            t.comments.append("taxon comment")
        if rng.random() < 0.3:
            annotate(rng, t, bindable=("label",), depth=1 if level > 1 else 0, nmax=2)


def decorate_tree(rng, tree, level, encode=None, extras=True):
    """level 0: nothing; 1: labels/comments/annotations sparsely; 2: everything, densely."""
    L.load()
    nodes = raw_preorder(tree)
    if level <= 0:
        if encode:
            tree.encode_bipartitions(is_bipartitions_mutable=(encode == "mut"))
        return
    p = 0.25 if level == 1 else 0.6
    tree.weight = rng.choice([None, 1, 0.5, 2.0])
    tree.length_type = rng.choice([None, "float", "int"])
    if rng.random() < p:
        tree.comments.append("tree comment %d" % rng.randint(0, 99))
        if rng.random() < 0.5:
            tree.comments.append("&R")
    for i, nd in enumerate(nodes):
        if nd._child_nodes and rng.random() < p:
            nd.label = "n%d" % i
        if rng.random() < p:
            nd.edge.label = "e%d" % i
        if rng.random() < p:
            nd.age = rng.randint(0, 40) / 4.0
        if rng.random() < p:
            nd.comments.append("nc%d" % i)
        if rng.random() < p:
            nd.edge.comments.append("ec%d" % i)
        if extras and rng.random() < p:
            nd.xlist = [i, "x", [i]]
            nd.xnum = i * 1.5
        if extras and rng.random() < p / 2:
            nd.xdict = {"k": [i], "node": rng.choice(nodes)}
        if extras and rng.random() < p / 2:
            nd.edge.xset = set([i, "e"])
        if extras and rng.random() < p / 3:
            nd.buddy = rng.choice(nodes)
    if extras and rng.random() < p:
        from dendropy.utility import container
        tree.xoset = container.OrderedSet([rng.choice(nodes), rng.choice(nodes).edge, "s", 3])
    if extras and rng.random() < p:
        tree.xinfo = {"nodes": [rng.choice(nodes) for _ in range(2)], "edge": rng.choice(nodes).edge, "n": len(nodes)}
    # bipartitions before annotations so that annotation values may refer to them
    if encode:
        tree.encode_bipartitions(is_bipartitions_mutable=(encode == "mut"))
        nodes = raw_preorder(tree)
    if rng.random() < p + 0.2:
        annotate(rng, tree, bindable=("label", "weight", "length_type"),
                 others=[(nodes[0], "label"), (nodes[0].edge, "length")],
                 refs=[rng.choice(nodes), tree] if level > 1 else (), depth=level)
    for i, nd in enumerate(nodes):
        if rng.random() < p:
            bind = ["label", "age"] + (["xnum"] if "xnum" in nd.__dict__ else [])
            others = [(nd.edge, "length"), (tree, "label")]
            if nd._parent_node is not None:
                others.append((nd._parent_node, "label"))
            annotate(rng, nd, bindable=bind, others=others,
                     refs=[rng.choice(nodes), nd.edge] if level > 1 else (), depth=level)
        if rng.random() < p:
            annotate(rng, nd.edge, bindable=("length", "label"), others=[(nd, "label")], depth=level - 1)


BOUNDARY_LABELS = ("", "0", 0, "None", " ")


def decorate_boundary(rng, tree, p=0.25):
    """falsy / unusual values of every copied scalar attribute (a truthiness test in a copy route loses them):
    labels "" / "0" / 0, weight 0 / 0.0, length 0.0 / 0, age 0.0."""
    nodes = raw_preorder(tree)
    if rng.random() < p:
        tree.label = rng.choice(BOUNDARY_LABELS)
    if rng.random() < p:
        tree.weight = rng.choice([0, 0.0])
    if rng.random() < p:
        tree.length_type = rng.choice(["", 0])
    for nd in nodes:
        if rng.random() < p:
            nd.label = rng.choice(BOUNDARY_LABELS)
        if rng.random() < p:
            nd.edge.label = rng.choice(BOUNDARY_LABELS)
        if rng.random() < p:
            nd.edge.length = rng.choice([0.0, 0, -0.0])
        if rng.random() < p:
            nd.age = rng.choice([0.0, 0])


def symbols_of(alphabet):
    out = []
    for s in alphabet.state_iter():
        sym = s.symbol
        if sym:
            out.append(sym)
    return out


MATRIX_TYPES = ("dna", "rna", "nucleotide", "protein", "restriction", "infinite", "standard", "standard-custom",
                "continuous")


def build_matrix(rng, mtype, labels, level, ncols, untyped_cell_annotations=False, ns=None):
    L.load()
    dp = L.dp
    if ns is None:
        ns = dp.TaxonNamespace(labels, label=rng.choice([None, "taxa"]))
    kw = {}
    if mtype == "standard-custom":
        kw["default_state_alphabet"] = dp.new_standard_state_alphabet("abc")
    cls = {"dna": dp.DnaCharacterMatrix, "rna": dp.RnaCharacterMatrix, "nucleotide": dp.NucleotideCharacterMatrix,
           "protein": dp.ProteinCharacterMatrix, "restriction": dp.RestrictionSitesCharacterMatrix,
           "infinite": dp.InfiniteSitesCharacterMatrix, "standard": dp.StandardCharacterMatrix,
           "standard-custom": dp.StandardCharacterMatrix, "continuous": dp.ContinuousCharacterMatrix}[mtype]
    m = cls(taxon_namespace=ns, label=rng.choice([None, "m%d" % rng.randint(0, 9)]), **kw)
    alphabet = None if mtype == "continuous" else m.default_state_alphabet
    syms = symbols_of(alphabet) if alphabet is not None else None
    taxa = list(ns)
    if level > 0 and len(taxa) > 1 and rng.random() < 0.3:
        taxa = taxa[:-1]             # a taxon without sequence
    if level > 0 and rng.random() < 0.3:
        rng.shuffle(taxa)
    for t in taxa:
        n = ncols if rng.random() < 0.8 else max(0, ncols - rng.randint(0, 2))
        if syms is None:
            vals = [rng.randint(-40, 40) / 8.0 for _ in range(n)]
        else:
            vals = m.coerce_values("".join(rng.choice(syms) for _ in range(n)))
        m.new_sequence(t, vals)
    if level <= 0:
        return m
    p = 0.3 if level == 1 else 0.6
    if rng.random() < p:
        m.comments.append("matrix comment")
    if rng.random() < p:
        annotate(rng, m, bindable=("label",), depth=level)
    ctypes = []
    if rng.random() < p:
        for i in range(rng.randint(1, 3)):
            ct = L.CharacterType(label="ct%d" % i, state_alphabet=alphabet)
            if rng.random() < 0.5:
                annotate(rng, ct, bindable=("label",), depth=0, nmax=2)
            m.character_types.append(ct)
            ctypes.append(ct)
    for t in taxa:
        s = m._taxon_sequence_map[t]
        for i in range(len(s)):
            if ctypes and rng.random() < 0.5:
                s.set_character_type_at(i, rng.choice(ctypes))
            if rng.random() < p / 3 and (s.character_type_at(i) is not None or untyped_cell_annotations):
                s.annotations_at(i).add_new("cell%d" % i, fresh_value(rng))
        if rng.random() < p:
            annotate(rng, s, depth=0, nmax=2)
        if rng.random() < p / 2:
            s.xnote = ["seq extra"]
    if ncols and rng.random() < p:
        for j in range(rng.randint(1, 2)):
            cs = m.new_character_subset("CodonPos%d" % j, [c for c in range(ncols) if rng.random() < 0.5])
            if rng.random() < 0.4:
                annotate(rng, cs, bindable=("label",), depth=0, nmax=1)
    if rng.random() < p / 2:
        m.xinfo = {"cols": [ncols]}
    return m


# --------------------------------------------------------------------------------------------
# mutation journal
# --------------------------------------------------------------------------------------------
def _pick_annotation(rng, objs, pred=lambda a: True):
    cands = []
    for o in objs:
        for a in iter_annotations(o):
            if pred(a):
                cands.append((o, a))
    return rng.choice(cands) if cands else (None, None)


def _holders(view, include_taxa):
    """annotable/commentable structural objects of this side that are NOT shared by design."""
    out = []
    for name, o in view.nm.objs.items():
        fam = category(o)
        if fam in ("Bipartition",):
            continue
        if not include_taxa and fam in ("Taxon", "TaxonNamespace"):
            continue
        out.append(o)
    return out


class Journal(object):
    """mutation classes; each returns True when it changed something on ``view``'s side.
    ``deep`` = namespace and taxa belong to this side alone (deep routes)."""

    def __init__(self, rng, deep, shallow=False, prefix="", skip=()):
        self.rng = rng
        self.deep = deep
        self.shallow = shallow
        self.prefix = prefix        # two journals over one object must not invent the same fresh labels
        self.skip = tuple(skip)
        self.k = 0

    def classes(self, kind):
        common = ["annotation-add", "annotation-change", "annotation-inplace", "annotation-drop", "annotation-nested-add",
                  "annotation-bind-new", "comment-append", "top-label"]
        tree = ["edge-length", "node-label", "edge-label", "tree-meta", "struct-add-child", "struct-remove-child",
                "struct-reseed", "struct-collapse-edge", "struct-ladderize", "bipartition-encode", "bipartition-edit",
                "extra-inplace", "node-age"]
        deep = ["taxon-label", "ns-add-taxon", "ns-remove-taxon", "ns-meta"]
        if kind == "tree":
            out = common + tree
        elif kind == "treelist":
            out = common + ["list-append", "list-remove", "list-reverse"]
            if not self.shallow:
                out += tree
        elif kind == "matrix":
            out = common + ["matrix-new-sequence", "matrix-remove-sequence", "subset-new"]
            if not self.shallow:
                out += ["cell-set", "cell-append", "cell-delete", "cell-annotation-add", "ctype-label", "subset-edit",
                        "extra-inplace", "alphabet-add-state"]
        elif kind == "ns":
            out = ["annotation-add", "annotation-change", "annotation-drop", "comment-append", "top-label",
                   "ns-add-taxon", "ns-remove-taxon", "ns-reorder"]
            if self.deep:
                out += ["taxon-label", "annotation-inplace", "annotation-nested-add"]
            return out
        if self.deep:
            out = out + deep
        return [c for c in out if c not in self.skip]

    def fresh(self, tag):
        self.k += 1
        return "%s-%s%d" % (tag, self.prefix, self.k)

    def apply(self, mclass, view):
        rng = self.rng
        dp = L.dp
        root = view.root
        kind = view.kind
        include_taxa = self.deep
        if self.shallow:
            holders = [root]
        else:
            holders = _holders(view, include_taxa)
        if kind == "ns" and not self.deep:
            holders = [root]
        trees = [] if self.shallow else view.trees
        tnodes = [] if self.shallow else view.nodes

        def pick_tree():
            if not trees:
                return None, None
            j = rng.randrange(len(trees))
            return trees[j], tnodes[j]
        if mclass == "annotation-add":
            o = rng.choice(holders)
            o.annotations.add_new(self.fresh("added"), fresh_value(rng))
            return True
        if mclass == "annotation-change":
            o, a = _pick_annotation(rng, holders, lambda a: not a.is_attribute)
            if a is None:
                return False
            if rng.random() < 0.5:
                a.value = self.fresh("changed")
            else:
                a.name = self.fresh("renamed")
                a.is_hidden = not a.is_hidden
            return True
        if mclass == "annotation-inplace":
            o, a = _pick_annotation(rng, holders, lambda a: not a.is_attribute and isinstance(a._value, (list, dict, set)))
            if a is None:
                return False
            v = a._value
            if isinstance(v, list):
                v.append(self.fresh("inplace"))
            elif isinstance(v, dict):
                v[self.fresh("inplace")] = 1
            else:
                v.add(self.fresh("inplace"))
            return True
        if mclass == "annotation-drop":
            cands = [o for o in holders if o.__dict__.get("_annotations") is not None and len(o._annotations)]
            if not cands:
                return False
            o = rng.choice(cands)
            a = rng.choice(list(o._annotations))
            if rng.random() < 0.5:
                o.annotations.remove(a)
            else:
                o.annotations.drop(name=a.name)
            return True
        if mclass == "annotation-nested-add":
            o, a = _pick_annotation(rng, holders)
            if a is None:
                return False
            a.annotations.add_new(self.fresh("nested"), fresh_value(rng))
            return True
        if mclass == "annotation-bind-new":
            cands = [o for o in holders if hasattr(o, "label")]
            if not cands:
                return False
            o = rng.choice(cands)
            o.annotations.add_bound_attribute("label", annotation_name=self.fresh("bound"))
            o.label = self.fresh("lbl")
            return True
        if mclass == "comment-append":
            cands = [o for o in holders if isinstance(o.__dict__.get("comments"), list)]
            if not cands:
                return False
            rng.choice(cands).comments.append(self.fresh("comment"))
            return True
        if mclass == "top-label":
            root.label = self.fresh("top")
            return True
        # ---- trees ------------------------------------------------------------------------
        if mclass in ("edge-length", "node-label", "edge-label", "node-age", "extra-inplace", "struct-add-child",
                      "struct-remove-child", "struct-reseed", "struct-collapse-edge", "struct-ladderize", "tree-meta",
                      "bipartition-encode", "bipartition-edit") and kind in ("tree", "treelist"):
            tree, nodes = pick_tree()
            if tree is None or not nodes:
                return False
            nd = rng.choice(nodes)
            if mclass == "edge-length":
                nd.edge.length = (nd.edge.length or 0) + rng.randint(1, 9) / 4.0
                return True
            if mclass == "node-label":
                nd.label = self.fresh("nl")
                return True
            if mclass == "edge-label":
                nd.edge.label = self.fresh("el")
                return True
            if mclass == "node-age":
                nd.age = (nd.age or 0) + 1.25
                return True
            if mclass == "tree-meta":
                tree.weight = (tree.weight or 0) + 1.5
                tree.is_rooted = not bool(tree.is_rooted)
                tree.length_type = self.fresh("lt")
                return True
            if mclass == "extra-inplace":
                c = [n for n in nodes if "xlist" in n.__dict__ or "xdict" in n.__dict__]
                if "xinfo" in tree.__dict__ and rng.random() < 0.3:
                    tree.xinfo["nodes"].append(self.fresh("xi"))
                    tree.xinfo[self.fresh("k")] = 1
                    return True
                if not c:
                    return False
                n = rng.choice(c)
                if "xlist" in n.__dict__:
                    n.xlist.append(self.fresh("xl"))
                    n.xlist[2].append(9)
                if "xdict" in n.__dict__:
                    n.xdict["k"].append(self.fresh("xd"))
                return True
            if mclass == "struct-add-child":
                nd.add_child(dp.Node(label=self.fresh("new"), edge_length=1.0))
                return True
            if mclass == "struct-remove-child":
                c = [n for n in nodes if n._parent_node is not None]
                if not c:
                    return False
                ch = rng.choice(c)
                ch._parent_node.remove_child(ch)
                return True
            if mclass == "struct-reseed":
                c = [n for n in nodes if n._parent_node is not None and n._child_nodes]
                if not c:
                    return False
                tree.reseed_at(rng.choice(c), update_bipartitions=False, suppress_unifurcations=False)
                return True
            if mclass == "struct-collapse-edge":
                c = [n for n in nodes if n._parent_node is not None and n._child_nodes]
                if not c:
                    return False
                rng.choice(c).edge.collapse()
                return True
            if mclass == "struct-ladderize":
                c = [n for n in nodes if len(n._child_nodes) >= 2]
                if not c:
                    return False
                n = rng.choice(c)
                n.set_child_nodes(list(reversed(n._child_nodes)))
                return True
            if mclass == "bipartition-encode":
                tree.encode_bipartitions(suppress_unifurcations=False, collapse_unrooted_basal_bifurcation=False,
                                         is_bipartitions_mutable=rng.random() < 0.5)
                return True
            if mclass == "bipartition-edit":
                c = [n.edge for n in nodes if n.edge is not None and n.edge._bipartition is not None]
                if not c or tree.__dict__.get("_bipartition_edge_map"):
                    # a bipartition that is a key of the (filled) edge map must stay immutable: making it mutable there
                    # is a misuse of the API, not a later change of one side
                    return False
                b = rng.choice(c)._bipartition
                b.is_mutable = True
                b.split_bitmask = (b.split_bitmask or 0) ^ (1 << 40)
                b.leafset_bitmask = (b.leafset_bitmask or 0) | (1 << 41)
                if isinstance(tree.bipartition_encoding, list) and tree.bipartition_encoding:
                    tree.bipartition_encoding.pop()
                return True
        if mclass == "taxon-label":
            ns = view.ns
            if ns is None or not len(ns):
                return False
            rng.choice(list(ns)).label = self.fresh("taxon")
            return True
        if mclass == "ns-add-taxon":
            if view.ns is None:
                return False
            view.ns.new_taxon(self.fresh("addedtaxon"))
            return True
        if mclass == "ns-remove-taxon":
            ns = view.ns
            if ns is None or not len(ns):
                return False
            used = set()
            for nodes in (view.nodes if not self.shallow else []):
                for n in nodes:
                    if n.taxon is not None:
                        used.add(id(n.taxon))
            if kind == "matrix":
                used.update(id(t) for t in root._taxon_sequence_map)
            c = [t for t in ns if id(t) not in used]
            if not c:
                return False
            ns.remove_taxon(rng.choice(c))
            return True
        if mclass == "ns-meta":
            ns = view.ns
            if ns is None:
                return False
            ns.label = self.fresh("nslabel")
            ns.comments.append(self.fresh("nscomment"))
            ns.annotations.add_new(self.fresh("nsann"), 1)
            return True
        if mclass == "ns-reorder":
            if len(root) < 2:
                return False
            root.reverse()
            return True
        # ---- tree lists -------------------------------------------------------------------
        if mclass == "list-append":
            root.append(dp.Tree(taxon_namespace=root.taxon_namespace, label=self.fresh("appended")))
            return True
        if mclass == "list-remove":
            if not len(root):
                return False
            del root[rng.randrange(len(root))]
            return True
        if mclass == "list-reverse":
            if len(root) < 2:
                return False
            root.reverse()
            return True
        # ---- matrices ---------------------------------------------------------------------
        if kind == "matrix":
            tsm = root._taxon_sequence_map
            seqs = list(tsm.values())
            if mclass == "matrix-new-sequence":
                c = [t for t in root.taxon_namespace if t not in tsm]
                if not c:
                    if not self.deep:
                        return False
                    c = [root.taxon_namespace.new_taxon(self.fresh("seqtaxon"))]
                root.new_sequence(c[0], seqs[0]._character_values[:2] if seqs else None)
                return True
            if mclass == "matrix-remove-sequence":
                if not tsm:
                    return False
                del root[rng.choice(list(tsm))]
                return True
            if mclass == "subset-new":
                root.new_character_subset(self.fresh("subset"), [0, 1])
                return True
            nonempty = [s for s in seqs if len(s)]
            if mclass == "cell-set":
                if not nonempty:
                    return False
                s = rng.choice(nonempty)
                i = rng.randrange(len(s))
                others = [x._character_values[j] for x in nonempty for j in range(len(x)) if x._character_values[j] is not s[i]
                          and x._character_values[j] != s[i]]
                s[i] = rng.choice(others) if others else 99.5
                return True
            if mclass == "cell-append":
                if not nonempty:
                    return False
                s = rng.choice(seqs)
                s.append(rng.choice(nonempty)[0])
                return True
            if mclass == "cell-delete":
                if not nonempty:
                    return False
                s = rng.choice(nonempty)
                del s[rng.randrange(len(s))]
                return True
            if mclass == "cell-annotation-add":
                if not nonempty:
                    return False
                s = rng.choice(nonempty)
                s.annotations_at(rng.randrange(len(s))).add_new(self.fresh("cellann"), 1)
                return True
            if mclass == "ctype-label":
                if not root.character_types:
                    return False
                rng.choice(root.character_types).label = self.fresh("ctype")
                return True
            if mclass == "subset-edit":
                if not len(root.character_subsets):
                    return False
                cs = root.character_subsets[rng.choice(list(root.character_subsets.keys()))]
                cs.character_indices.add(1000 + self.k)
                cs.label = self.fresh("cs")
                return True
            if mclass == "alphabet-add-state":
                # only alphabets the user made: the module-level alphabets are library constants and are never touched
                c = custom_alphabets(root)
                if not c:
                    return False
                a = rng.choice(c)
                used = set()
                for st in list(a.__dict__.get("_fundamental_states") or ()) + list(a.__dict__.get("_ambiguous_states") or ()) \
                        + list(a.__dict__.get("_polymorphic_states") or ()):
                    sym = st.__dict__.get("_symbol")
                    if isinstance(sym, str):
                        used.add(sym.lower())
                        used.update(x.lower() for x in st.__dict__.get("_symbol_synonyms") or () if isinstance(x, str))
                free = [ch for ch in "zyxwvutsrqponmlkjihgfed" if ch not in used]
                if not free:
                    return False
                a.new_fundamental_state(free[0])
                return True
            if mclass == "extra-inplace":
                c = [s for s in seqs if "xnote" in s.__dict__]
                if "xinfo" in root.__dict__:
                    root.xinfo["cols"].append(self.fresh("x"))
                    return True
                if not c:
                    return False
                rng.choice(c).xnote.append(self.fresh("x"))
                return True
        return False
