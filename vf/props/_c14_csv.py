"""CSV side of C14 (DendroPy-free): label classes that stress a delimited text table, the oracle table,
a judge for the text write_csv produced (parsed with CPython's csv module: header, row names and EVERY cell,
diagonal and both triangles), and a table written by the harness itself so that from_csv is judged on input
that did not come from write_csv."""
import csv
import io

from .. import ref, gen
from . import _c14_util as U

# one representative per class of label that a hand-rolled join / split gets wrong
FORCED = ['a,b', 'c;d', 'e\tf', 'g"h', '"q', 'i\nj', '007', "k'l", 'm n', 'éßα', '1e3', 'x,y;z\t"w"\n!',
          'r""s', ',', ';', 'u\n\nv', '-1.5', 'n/a']
RESERVED = frozenset(["x0", "x1", "x2", "x3"])


def _keys(label):
    return (label.lower(), label.casefold(), label.upper())


def odd_labels(rng, n):
    """n labels, pairwise distinct under lower() / casefold() / upper(), without leading or trailing white space
    (from_csv trims blanks by documentation), without a carriage return (text-mode files translate it), never
    empty; between one and four of them come from FORCED (delimiters, quotes, line feed, digits only, unicode),
    the rest from gen.random_label or the plain T<i> form."""
    out = []
    seen = set()

    def take(lbl):
        ks = _keys(lbl)
        if not lbl or lbl.strip() != lbl or "\r" in lbl or any(k in seen for k in ks) or lbl.lower() in RESERVED:
            return False
        seen.update(ks)
        out.append(lbl)
        return True
    for lbl in rng.sample(FORCED, min(n, rng.randint(1, 4))):
        take(lbl)
    i = 0
    while len(out) < n:
        if rng.random() < 0.5:
            take(gen.random_label(rng))
        else:
            take("T%d" % i)
            i += 1
    rng.shuffle(out)
    return out


def relabel(spec, rng):
    """copy of spec whose leaf taxa carry odd labels; returns (spec, {old: new})."""
    s = ref.copy(spec)
    lv = [n for n in ref.leaves(s) if n[0] is not None]
    new = odd_labels(rng, len(lv))
    mp = {}
    for n, lbl in zip(lv, new):
        mp[n[0]] = lbl
        n[0] = lbl
    return s, mp


def oracle_table(paths, labels, weighted, factor):
    """{(a, b): value} for every ORDERED pair, diagonal included (0)."""
    t = {}
    for a in labels:
        for b in labels:
            t[(a, b)] = 0 if a == b else paths[(a, b)][0 if weighted else 1] / factor
    return t


def parse(text, delimiter):
    return [r for r in csv.reader(io.StringIO(text, newline=""), delimiter=delimiter) if r]


def judge_text(ctx, text, labels, table, header, rownames, delimiter, delimiter_requested, exact, scale, tag, det):
    """The text must be the labelled table of the oracle entries.  Returns True when it is."""
    rows = parse(text, delimiter)
    ctx.ev("csv-text-judged")
    n = len(labels)
    nrows = n + (1 if header else 0)
    ncols = n + (1 if rownames else 0)
    if len(rows) != nrows or any(len(r) != ncols for r in rows):
        if delimiter_requested and all(len(r) == 1 for r in rows):
            ctx.violation("write_csv|requested-delimiter-not-used",
                          "write_csv(delimiter=%r) wrote %r..." % (delimiter, text[:40]), det)
        else:
            ctx.violation("write_csv|text-is-not-a-square-table", "%d rows of lengths %s for %d taxa (parsed with the csv module): %r..." % (
                len(rows), sorted(set(len(r) for r in rows)), n, text[:60]), det)
        return False
    body = rows[1:] if header else rows
    off = 1 if rownames else 0
    hdr = rows[0][off:] if header else None
    rn = [r[0] for r in body] if rownames else None
    for what, names in (("header", hdr), ("row-names", rn)):
        if names is not None and sorted(names) != sorted(labels):
            ctx.violation("write_csv|labels-in-text-are-not-the-taxon-labels|%s" % what,
                          "%s of the table read %r, the taxa are labelled %r" % (what, sorted(names)[:8], sorted(labels)[:8]), det)
            return False
    cols = hdr if hdr is not None else rn
    rws = rn if rn is not None else hdr
    for i, r in enumerate(body):
        for j, cell in enumerate(r[off:]):
            a, b = rws[i], cols[j]
            region = "diagonal" if a == b else ("upper" if j > i else "lower")
            ctx.ev("csv-text-cell-judged")
            try:
                v = float(cell)
            except ValueError:
                ctx.violation("write_csv|cell-is-not-a-number", "cell %r" % (cell,), dict(det, pair=[a, b]))
                return False
            if not U.same(v, table[(a, b)], exact, scale):
                ctx.violation("write_csv|cell-is-not-the-entry|%s|%s" % (region, tag),
                              "cell (%r, %r) reads %r, the entry is %r" % (a, b, v, table[(a, b)]), dict(det, pair=[a, b]))
                return False
    return True


def harness_table(order, table, delimiter, header, rownames):
    """the oracle table as delimited text, written with CPython's csv.writer (full matrix, zero diagonal)."""
    buf = io.StringIO(newline="")
    w = csv.writer(buf, delimiter=delimiter)
    if header:
        w.writerow(([""] if rownames else []) + list(order))
    for a in order:
        w.writerow(([a] if rownames else []) + [repr(float(table[(a, b)])) for b in order])
    return buf.getvalue()
