"""Workload material for C20: a corpus of VALID documents of every supported block structure
(hand written + seeded generated), edit operators, and random token strings per format.
Nothing here imports the library under test.

A document is a dict  {"id", "fmt", "text", "kw" (reader keyword arguments), "dtype" (matrix data type or None)}."""
import re

KEYWORDS = {
    "nexus": ["BEGIN", "END", "ENDBLOCK", ";", "LINK", "MATRIX", "TITLE", "DIMENSIONS", "FORMAT", "TREE", "TREES",
              "TAXA", "CHARACTERS", "DATA", "SETS", "CHARSET", "TRANSLATE", "TAXLABELS", "NTAX", "NCHAR", "=",
              "INTERLEAVE", "DATATYPE", "SYMBOLS", "\"", "MISSING", "GAP", "MATCHCHAR", "(", ")", "{", "}", ",",
              "[", "]", "'", ":", "#NEXUS", "*", "DNA", "CONTINUOUS", "STANDARD", "NTAX=2", "NCHAR=3", "-", ".", "ALL",
              "\\", "[&R]", "ASSUMPTIONS", "CODONS", "PAUP", "1", "0", "A",
              # boundary values: work must not grow with the VALUE of a number, only with the length of the text
              "99999999999", "1-99999999999", "1-.\\99999999999", "NCHAR=99999999999", "NTAX=99999999999", "NTAX=0", "NCHAR=0",
              "1-3\\99999999999", "00", "\u00b2", "\u0663", "NCHAR=\u00b2", "\r", "\r\n"],
    "newick": ["(", ")", ",", ":", ";", "[", "]", "'", "[&R]", "[&U]", "[x]", "A", "B", "1.5", "0", "-1e-3", "{", "}", "=",
               "\n", " ", "((", "))", ",,", "::", "[&W 1/2]", "_",
               ":1e400", ":-0", ":1e-400", "[&W 1/99999999999]", "[&W 99999999999/1]", ":99999999999", "\r", "\r\n", ":\u00b2", "{99999999999}"],
    "phylip": ["\n", " ", "  ", "2", "3", "10", "0", "A", "C", "G", "T", "-", "?", "N", "x", "taxon", "\t", "\n\n", "4 4", "Z",
               "99999999999 4", "2 99999999999", "99999999999", "\r", "\r\n", "\u0663", "1.5", "-2e1", "U", "R"],
    "fasta": ["\n", ">", "> ", ">a", "A", "C", "G", "T", "-", "?", "N", " ", "\n\n", "Z", "*", ">a\n", "1",
              "99999999999", "\r", "\r\n", "0.5", "-2e1", "U", "R", "\u00e9"],
}
# control characters, a BOM, non-ASCII letters and non-ASCII digits (str.isdigit() accepts more than int() does)
EXOTIC = "\r\r\x00\ufeff\u00e9\u00b2\u0663\x0b\x0c\x1c\u2028"
ALPHABET = {
    "nexus": ";=,()[]{}'\":-_ \n#?.*\\/&" + "ABCTGabcn0123456789" + EXOTIC,
    "newick": "(),:;[]' \n_&.-" + "ABCabc0123456789eE" + EXOTIC,
    "phylip": " \n\t-?" + "ACGTNacgtxyz_0123456789." + EXOTIC,
    "fasta": ">\n -?*" + "ACGTNacgtxyz0123456789." + EXOTIC,
}

# ------------------------------------------------------------------------------------------------
# fixed corpus
NEXUS_FIXED = [
    # 0: TAXA + CHARACTERS (dna, sequential) + TREES with TITLE / LINK / TRANSLATE
    ("dna", """#NEXUS
BEGIN TAXA;
  TITLE tx;
  DIMENSIONS NTAX=3;
  TAXLABELS A B C;
END;
BEGIN CHARACTERS;
  TITLE ch;
  LINK TAXA = tx;
  DIMENSIONS NCHAR=4;
  FORMAT DATATYPE=DNA MISSING=? GAP=-;
  MATRIX
    A ACGT
    B AC-T
    C A?GT
  ;
END;
BEGIN TREES;
  TITLE tr;
  LINK TAXA = tx;
  TRANSLATE 1 A, 2 B, 3 C;
  TREE t1 = [&R] ((1:1,2:2):1,3:3);
END;
"""),
    # 1: DATA block, interleaved, no TAXA block; TREES without TRANSLATE, two trees, comments
    ("dna", """#NEXUS
[a file comment]
begin data;
  dimensions ntax=3 nchar=6;
  format datatype=dna interleave=yes gap=- missing=? matchchar=.;
  matrix
    t1 ACG
    t2 .C-
    t3 .?.

    t1 TTA
    t2 ..C
    t3 T.G
  ;
end;
begin trees;
  tree one = [&U] (t1,t2,t3);
  tree * two = [&R] [&W 1/2] ((t1:0.1,t2:0.2)x:0.05,t3:1e-1)r;
end;
"""),
    # 2: continuous characters
    ("continuous", """#NEXUS
BEGIN TAXA;
  DIMENSIONS NTAX=2;
  TAXLABELS 'sp one' sp_two;
END;
BEGIN CHARACTERS;
  DIMENSIONS NCHAR=3;
  FORMAT DATATYPE=CONTINUOUS;
  MATRIX
    'sp one' 0.1 -2.5 3e2
    sp_two   1 2 3
  ;
END;
"""),
    # 2b: continuous characters, interleaved in three pages (short rows after a cut are only caught by the closing row-length check)
    ("continuous-interleaved", """#NEXUS
BEGIN TAXA;
  DIMENSIONS NTAX=3;
  TAXLABELS alpha beta gamma;
END;
BEGIN CHARACTERS;
  DIMENSIONS NCHAR=6;
  FORMAT DATATYPE=CONTINUOUS INTERLEAVE;
  MATRIX
    alpha 0.1 -2.5
    beta  1 2
    gamma 3.5 4e1

    alpha 3e2 7
    beta  3 4
    gamma 0.25 -1

    alpha 1.5 2.5
    beta  5 6
    gamma 8 9
  ;
END;
"""),
    # 3: standard data type, symbols, polymorphism / ambiguity, matchchar; SETS block; unknown block
    ("standard", """#NEXUS
BEGIN TAXA;
  DIMENSIONS NTAX=3;
  TAXLABELS a b c;
END;
BEGIN CHARACTERS;
  DIMENSIONS NCHAR=5;
  FORMAT DATATYPE=STANDARD SYMBOLS="0 1 2" MISSING=? GAP=- MATCHCHAR=.;
  MATRIX
    a 0120?
    b .(01){12}.-
    c 2..10
  ;
END;
BEGIN SETS;
  CHARSET first = 1-3;
  CHARSET rest = 4 5;
  CHARSET odd = 1-.\\2;
END;
BEGIN PAUP;
  SET criterion=likelihood;
  LSET nst=2 [inner; comment];
END;
"""),
    # 4: two TAXA blocks, two CHARACTERS blocks and two TREES blocks tied together by TITLE / LINK
    ("dna", """#NEXUS
BEGIN TAXA; TITLE first; DIMENSIONS NTAX=2; TAXLABELS a b; END;
BEGIN TAXA; TITLE second; DIMENSIONS NTAX=3; TAXLABELS x y z; END;
BEGIN CHARACTERS; TITLE c1; LINK TAXA = first; DIMENSIONS NCHAR=2; FORMAT DATATYPE=DNA; MATRIX a AC b GT; END;
BEGIN CHARACTERS; TITLE c2; LINK TAXA = second; DIMENSIONS NCHAR=3; FORMAT DATATYPE=DNA; MATRIX x ACG y TTT z G-A; END;
BEGIN TREES; TITLE t1; LINK TAXA = first; TREE q = (a,b); END;
BEGIN TREES; TITLE t2; LINK TAXA = second; TREE r = (x,(y,z)); TREE s = ((x,y),z); END;
"""),
    # 5: protein interleaved without '=yes', comments everywhere, ENDBLOCK, quoted labels, internal labels
    ("protein", """#NEXUS
begin taxa [tc]; dimensions [dc] ntax = 3; taxlabels 'it''s' [lc] B_2 c; endblock;
begin characters;
  dimensions nchar=4;
  format datatype=protein interleave;
  matrix
   'it''s' AR
   B_2 N-
   c   ?X
   'it''s' ND
   B_2 CQ
   c   EG
  ;
endblock;
begin trees;
  translate 1 'it''s', 2 B_2, 3 c;
  tree [tc] t = [&R] (1[&k=1,hpd={0.00123456789012345,0.00987654321098765}]:1,(2:2,3:3)in[&p=0.9,range={1.5,22.75}]:4)root;
endblock;
"""),
    # 6: trees only, several trees, single-node tree, blank nodes, unifurcation
    (None, """#NEXUS
BEGIN TREES;
  TREE a = ((A,B),(C,D));
  TREE b = (A,(B,(C,D)))R:0;
  TREE c = A;
  TREE d = (,(,));
  TREE e = ((A));
END;
"""),
    # 7: ASSUMPTIONS / CODONS blocks and a DATA block of RNA, charset with LINK
    ("rna", """#NEXUS
BEGIN DATA;
  TITLE d;
  DIMENSIONS NTAX=2 NCHAR=4;
  FORMAT DATATYPE=RNA;
  MATRIX
    u1 ACGU
    u2 UUGA
  ;
END;
BEGIN ASSUMPTIONS;
  TITLE a;
  LINK CHARACTERS = d;
  CHARSET all4 = ALL;
END;
BEGIN CODONS;
  CHARSET p = 1 - 4 \\ 3;
END;
"""),
]

NEWICK_FIXED = [
    "(A:1,(B:2,C:3)D:4)E;\n((A,B),C);\n",
    "[&R] ((a,b)[&support=0.9]:1e-2,'c d':3,e_f)root:0.0;",
    "A;\n(,(,));\n((A));\n(A,B,C,D);",
    "[&U] [&W 1/3] (('x''y':0.5,z:1.5):2,(w,v)):0; [trailing comment]\n",
    # BEAST / FigTree style annotations with brace lists, and NHX comments (metadata comments are parsed by default)
    "((A[&height_95%_HPD={0.00123456789012345,0.00987654321098765},rate=1.0]:1.5,"
    "B[&height_range={0.1,0.25},posterior=0.99]:2)[&!name=\"clade one\",cols={red,green,blue}]:0.5,C[&&NHX:S=human:E=1.1.1.1:D=N]:3);",
]

PHYLIP_FIXED = [
    ("dna", {"strict": True, "interleaved": False}, "3 6\nalpha     ACGTAC\nbeta      AC-TAC\ngamma_long?CGTAA\n"),
    ("dna", {"strict": False, "interleaved": False}, " 3 8\nalpha ACGT\nACGT\nbeta_2   AC-T AC-T\ngamma ACGTACG\nT\n"),
    ("dna", {"strict": True, "interleaved": True}, "3 8\nalpha     ACGT\nbeta      AC-T\ngamma     A?GT\n\nTTAA\nTTCC\nTTGG\n"),
    ("dna", {"strict": False, "interleaved": True, "multispace_delimiter": True},
     "3 6\nsp one  ACG\nsp two  AC-\nsp three  A?G\n\nTTA\nTTC\nTTG\n"),
    # the other documented data types: continuous (values separated by blanks), protein, standard, rna
    ("continuous", {"strict": False, "interleaved": False}, "3 4\nalpha 0.5 -1 2e1 3\nbeta_2 1 2 3 4\ngamma 0.25 0.5\n0.75 1.0\n"),
    ("continuous", {"strict": True, "interleaved": True}, "2 4\nalpha     0.5 -1\nbeta      1 2\n\n2e1 3\n3 4\n"),
    ("protein", {"strict": False, "interleaved": False, "underscores_to_spaces": True}, "2 5\nsp_one ARNDC\nsp_two QEG-X\n"),
    ("standard", {"strict": False, "interleaved": True}, "3 4\na 01\nb 1?\nc -0\n\n10\n01\n11\n"),
    ("rna", {"strict": True, "interleaved": False}, "2 4\nu1        ACGU\nu2        UU-A\n"),
]

FASTA_FIXED = [
    ("dna", ">alpha\nACGT\nAC\n\n>beta desc\nAC-TNN\n>gamma\nA?GTAC\n"),
    ("protein", ">p1\nARND\n>p2\nCQEG\n"),
    ("rna", ">r1 x\nACGU\nUU\n>r2\nA-GUNN\n"),
    ("standard", ">s1\n0101\n>s2\n1?0-\n"),
]


def _doc(i, fmt, text, kw=None, dtype=None):
    return {"id": "%s-%s" % (fmt, i), "fmt": fmt, "text": text, "kw": kw or {}, "dtype": dtype}


NEWLINE_VARIANTS = (("crlf", "\r\n"), ("cr", "\r"))


def newline_variant(d, name):
    """the same document with the line ends of another platform (still a valid document of its format)."""
    nl = dict(NEWLINE_VARIANTS)[name]
    return dict(d, id="%s-%s" % (d["id"], name), text=d["text"].replace("\n", nl), variant=name)


def fixed_corpus():
    out = []
    for i, (dt, t) in enumerate(NEXUS_FIXED):
        out.append(_doc("f%d" % i, "nexus", t, None, dt))
    for i, t in enumerate(NEWICK_FIXED):
        out.append(_doc("f%d" % i, "newick", t))
    for i, (dt, kw, t) in enumerate(PHYLIP_FIXED):
        out.append(_doc("f%d" % i, "phylip", t, kw, dt))
    for i, (dt, t) in enumerate(FASTA_FIXED):
        out.append(_doc("f%d" % i, "fasta", t, None, dt))
    return out


# ------------------------------------------------------------------------------------------------
# generated corpus
SYMS = {"dna": "ACGT", "rna": "ACGU", "protein": "ARNDCQEGHILKMFPSTWYV", "standard": "01"}


def _labels(rng, n):
    pool = ["A", "b", "Cc", "t%d", "sp_%d", "'q %d'", "X%dy", "'it''s%d'"]
    out = []
    for i in range(n):
        p = rng.choice(pool)
        out.append(p % i if "%d" in p else p + str(i))
    return out


def _rand_newick(rng, labels, lengths, internal, comments):
    items = list(labels)
    rng.shuffle(items)

    def deco(s, inner):
        if inner and internal and rng.random() < 0.4:
            s += "n%d" % rng.randint(0, 9)
        if comments and rng.random() < 0.2:
            s += "[&p=%d]" % rng.randint(0, 9)
        if lengths and rng.random() < 0.9:
            s += ":" + rng.choice(["1", "0.5", "2.25", "1e-2", "0", "3.0E1"])
        return s
    nodes = [deco(x, False) for x in items]
    while len(nodes) > 1:
        k = min(len(nodes), rng.choice([2, 2, 2, 3]))
        pick = [nodes.pop(rng.randrange(len(nodes))) for _ in range(k)]
        s = "(" + ",".join(pick) + ")"
        nodes.append(deco(s, True) if nodes else s)
    return nodes[0]


def _rows(rng, labels, nchar, dtype):
    rows = []
    for l in labels:
        if dtype == "continuous":
            rows.append([rng.choice(["0.5", "-1", "2e1", "3", "0.25"]) for _ in range(nchar)])
        else:
            rows.append([rng.choice(SYMS[dtype] + "-?") for _ in range(nchar)])
    return rows


def gen_nexus(rng):
    ntax = rng.randint(2, 5)
    nchar = rng.randint(2, 8)
    labels = _labels(rng, ntax)
    dtype = rng.choice(["dna", "dna", "rna", "protein", "standard", "continuous"])
    kwcase = rng.choice([str.upper, str.lower, str.title])
    nl = rng.choice(["\n", "\n", " ", "\n  "])
    K = lambda s: kwcase(s)
    parts = ["#NEXUS" + nl]
    has_taxa = rng.random() < 0.7
    titled = has_taxa and rng.random() < 0.4
    if rng.random() < 0.3:
        parts.append("[generated file]" + nl)
    if has_taxa:
        parts.append(K("begin taxa;") + nl)
        if titled:
            parts.append(K("title") + " TX;" + nl)
        parts.append(K("dimensions ntax=") + "%d;" % ntax + nl)
        parts.append(K("taxlabels ") + " ".join(labels) + ";" + nl + K("end;") + nl)
    has_chars = rng.random() < 0.75
    if has_chars:
        block = "characters" if has_taxa and rng.random() < 0.7 else "data"
        parts.append(K("begin %s;" % block) + nl)
        if rng.random() < 0.3:
            parts.append(K("title") + " CH;" + nl)
        if titled:
            parts.append(K("link taxa = ") + "TX;" + nl)
        if block == "data" or rng.random() < 0.3:
            parts.append(K("dimensions ntax=") + "%d " % ntax + K("nchar=") + "%d;" % nchar + nl)
        else:
            parts.append(K("dimensions nchar=") + "%d;" % nchar + nl)
        inter = nchar >= 4 and rng.random() < 0.4
        fmt = K("format datatype=") + K(dtype)
        if dtype == "standard":
            fmt += K(" symbols=") + "\"01\""
        if rng.random() < 0.5:
            fmt += K(" missing=") + "? " + K("gap=") + "-"
        if inter:
            fmt += K(" interleave") + rng.choice(["", "=yes"])
        parts.append(fmt + ";" + nl)
        rows = _rows(rng, labels, nchar, dtype)
        sep = " " if dtype == "continuous" else ""
        m = [K("matrix") + "\n"]
        if inter:
            cut = rng.randint(1, nchar - 1)
            for l, r in zip(labels, rows):
                m.append("  %s %s\n" % (l, sep.join(r[:cut])))
            m.append("\n")
            for l, r in zip(labels, rows):
                m.append("  %s %s\n" % (l, sep.join(r[cut:])))
        else:
            for l, r in zip(labels, rows):
                m.append("  %s %s\n" % (l, sep.join(r)))
        m.append(";" + nl + K("end;") + nl)
        parts.append("".join(m))
        if rng.random() < 0.3 and dtype != "continuous":
            parts.append(K("begin sets;") + nl + K("charset") + " cs1 = 1-%d;" % max(1, nchar - 1) + nl + K("end;") + nl)
    if rng.random() < 0.25:
        parts.append(K("begin") + " mrbayes;" + nl + "set autoclose=yes; mcmc ngen=10;" + nl + K("end;") + nl)
    if not has_chars or rng.random() < 0.7:
        parts.append(K("begin trees;") + nl)
        if titled:
            parts.append(K("link taxa = ") + "TX;" + nl)
        tl = labels
        if rng.random() < 0.5:
            parts.append(K("translate ") + ", ".join("%d %s" % (i + 1, l) for i, l in enumerate(labels)) + ";" + nl)
            if rng.random() < 0.2:
                # a TRANSLATE statement given twice (legal, seen in concatenated files); a label the table does not list follows
                # now and then: the reader must treat it as after a single TRANSLATE
                parts.append(K("translate ") + ", ".join("%d %s" % (i + 1, l) for i, l in enumerate(labels)) + ";" + nl)
            tl = [str(i + 1) for i in range(ntax)]
            if rng.random() < 0.15:
                tl = tl[:-1] + ["newlabel%d" % ntax]
        for k in range(rng.randint(1, 3)):
            parts.append(K("tree") + " g%d = %s%s;" % (k, rng.choice(["", "[&R] ", "[&U] "]),
                                                     _rand_newick(rng, tl, rng.random() < 0.6, rng.random() < 0.3, rng.random() < 0.3)) + nl)
        parts.append(K("end;") + nl)
    return _doc("g", "nexus", "".join(parts), None, dtype if has_chars else None)


def gen_newick(rng):
    n = rng.randint(1, 7)
    labels = _labels(rng, n)
    out = []
    for k in range(rng.randint(1, 3)):
        out.append(rng.choice(["", "", "[&R] ", "[&U] "]) +
                   _rand_newick(rng, labels, rng.random() < 0.6, rng.random() < 0.4, rng.random() < 0.3) + ";")
    return _doc("g", "newick", rng.choice(["\n", " ", ""]).join(out) + rng.choice(["", "\n"]))


def gen_phylip(rng):
    ntax = rng.randint(2, 5)
    nchar = rng.randint(3, 12)
    strict = rng.random() < 0.5
    inter = rng.random() < 0.5
    labels = ["tx%d" % i + "abcdefgh"[:rng.randint(0, 5)] for i in range(ntax)]
    dtype = rng.choice(["dna", "dna", "rna", "protein", "standard", "continuous"])
    rows = _rows(rng, labels, nchar, dtype)
    if dtype == "continuous":
        rows = [[v + " " for v in r] for r in rows]

    def lab(l):
        return (l[:10].ljust(10)) if strict else l + " " * rng.randint(1, 3)
    lines = ["%s%d %d" % (rng.choice(["", " "]), ntax, nchar)]
    if inter:
        cut = rng.randint(1, nchar - 1)
        for l, r in zip(labels, rows):
            lines.append(lab(l) + "".join(r[:cut]))
        lines.append("")
        for l, r in zip(labels, rows):
            lines.append("".join(r[cut:]))
    else:
        for l, r in zip(labels, rows):
            if rng.random() < 0.3 and nchar > 4:
                cut = rng.randint(1, nchar - 1)
                lines.append(lab(l) + "".join(r[:cut]))
                lines.append("".join(r[cut:]))
            else:
                lines.append(lab(l) + "".join(r))
    return _doc("g", "phylip", "\n".join(lines) + "\n", {"strict": strict, "interleaved": inter}, dtype)


def gen_fasta(rng):
    ntax = rng.randint(1, 5)
    dtype = rng.choice(["dna", "dna", "protein", "rna", "standard"])
    lines = []
    for i in range(ntax):
        lines.append(">s%d%s" % (i, rng.choice(["", " description", "|x|y"])))
        seq = "".join(rng.choice(SYMS[dtype] + "-") for _ in range(rng.randint(1, 14)))
        while seq:
            k = rng.randint(1, len(seq))
            lines.append(seq[:k])
            seq = seq[k:]
        if rng.random() < 0.2:
            lines.append("")
    return _doc("g", "fasta", "\n".join(lines) + "\n", None, dtype)


GENERATORS = {"nexus": gen_nexus, "newick": gen_newick, "phylip": gen_phylip, "fasta": gen_fasta}


def generated_doc(rng, fmt, idx):
    d = GENERATORS[fmt](rng)
    d["id"] = "%s-g%d" % (fmt, idx)
    return d


# ------------------------------------------------------------------------------------------------
# edits
_TOK = re.compile(r"[A-Za-z0-9_.#+\-]+|\s+|.", re.S)


def split_tokens(text):
    return _TOK.findall(text)


EDIT_OPS = ("del_char", "ins_char", "rep_char", "del_token", "dup_token", "rep_token", "swap_tokens", "drop_span",
            "drop_line", "ins_keyword", "ins_keyword", "rep_number", "newlines", "add_row")

# boundary values a number of the document is replaced by (rep_number): zero, leading zeros, a negative, a value whose
# MAGNITUDE is far beyond anything the document holds (a reader's work may grow with the length of the text, not with
# the value of a number in it), a float overflow / underflow, characters that str.isdigit() accepts but int() refuses
NUMBERS = ("0", "00", "-1", "99999999999", "99999999999", "1e400", "1e-400", "\u00b2", "\u0663", "1.5", "4294967296", "")
_NUM = re.compile(r"[0-9]+")


def edit(text, fmt, rng, op=None):
    """one local corruption; returns (new text, short description)."""
    op = op or rng.choice(EDIT_OPS)
    n = len(text)
    if n == 0:
        op = "ins_keyword"
    if op in ("del_char", "rep_char", "ins_char"):
        i = rng.randrange(n + (1 if op == "ins_char" else 0))
        c = rng.choice(ALPHABET[fmt])
        if op == "del_char":
            return text[:i] + text[i + 1:], "del_char@%d" % i
        if op == "rep_char":
            return text[:i] + c + text[i + 1:], "rep_char@%d:%r" % (i, c)
        return text[:i] + c + text[i:], "ins_char@%d:%r" % (i, c)
    if op == "drop_span":
        i = rng.randrange(n)
        k = rng.randint(2, max(2, min(60, n // 3)))
        return text[:i] + text[i + k:], "drop_span@%d+%d" % (i, k)
    if op == "rep_number":
        ms = list(_NUM.finditer(text))
        if not ms:
            op = "ins_keyword"
        else:
            m = rng.choice(ms)
            r = rng.choice(NUMBERS)
            return text[:m.start()] + r + text[m.end():], "rep_number@%d:%r->%r" % (m.start(), m.group(), r)
    if op == "newlines":
        # line ends of another convention, in the whole document or from one point on (a file patched on another system)
        nl = rng.choice(["\r\n", "\r", "\n\r", "\r\n"])
        i = rng.choice([0, 0, rng.randrange(n)])
        return text[:i] + text[i:].replace("\n", nl), "newlines@%d:%r" % (i, nl)
    if op == "add_row":
        # one more row than the document declares: a line repeated under a label no other row has
        lines = text.split("\n")
        cand = [k for k, l in enumerate(lines) if len(l.split()) >= 2 or l.startswith(">")]
        if not cand:
            op = "ins_keyword"
        else:
            i = rng.choice(cand)
            l = lines[i]
            lead = l[:len(l) - len(l.lstrip())]
            body = l.lstrip()
            new = rng.choice(["zq9", "'new row'", "A", "zq_9"])
            if body.startswith(">"):
                row = ">" + new
                extra = [row] + lines[i + 1:i + 2]
            else:
                first = body.split()[0]
                row = lead + (new.ljust(len(first)) if fmt == "phylip" else new) + body[len(first):]
                extra = [row]
            j = rng.choice([i + 1, i + 1, len(lines)])
            return "\n".join(lines[:j] + extra + lines[j:]), "add_row@%d:%r" % (i, new)
    if op == "drop_line":
        lines = text.split("\n")
        i = rng.randrange(len(lines))
        return "\n".join(lines[:i] + lines[i + 1:]), "drop_line@%d" % i
    toks = split_tokens(text)
    sig = [i for i, t in enumerate(toks) if not t.isspace()] or [0]
    if op == "ins_keyword":
        i = rng.choice(sig + [len(toks)])
        kw = rng.choice(KEYWORDS[fmt])
        pad = "" if fmt in ("phylip", "fasta") else " "
        return "".join(toks[:i]) + pad + kw + pad + "".join(toks[i:]), "ins_keyword@%d:%r" % (i, kw)
    i = rng.choice(sig)
    if op == "del_token":
        return "".join(toks[:i] + toks[i + 1:]), "del_token@%d:%r" % (i, toks[i])
    if op == "dup_token":
        return "".join(toks[:i + 1] + [" "] + toks[i:]), "dup_token@%d:%r" % (i, toks[i])
    if op == "rep_token":
        r = rng.choice(KEYWORDS[fmt]) if rng.random() < 0.5 else toks[rng.choice(sig)]
        return "".join(toks[:i] + [r] + toks[i + 1:]), "rep_token@%d:%r->%r" % (i, toks[i], r)
    if op == "swap_tokens":
        j = rng.choice(sig)
        toks[i], toks[j] = toks[j], toks[i]
        return "".join(toks), "swap_tokens@%d,%d" % (i, j)
    raise ValueError(op)


# ------------------------------------------------------------------------------------------------
# random token strings (nesting depth and comment runs stay far below the interpreter's recursion limit:
# at most MAXTOK tokens; deep nesting is a separate directed class)
MAXTOK = 120


def random_tokens(fmt, rng):
    n = rng.choice([1, 2, 3, 5, 8, 13, 21, 40, 80, MAXTOK])
    if fmt == "nexus":
        voc = KEYWORDS["nexus"] + ["t1", "t2", "ACGT", "0101", "'a b'", "[c]", "2", "3", "4", "1-3", "x=y", "\n"]
        heavy = rng.choice([None, None, "chars", "trees", "sets", "taxa"])
        if heavy == "chars":
            voc = voc + ["MATRIX", "DIMENSIONS", "FORMAT", "NTAX=2", "NCHAR=3", "ACG", "t1", ";", "\n", "INTERLEAVE"] * 3
        elif heavy == "trees":
            voc = voc + ["TREE", "=", "(", ")", ",", ";", "t1", "TRANSLATE", ":", "1"] * 3
        elif heavy == "sets":
            voc = voc + ["CHARSET", "=", "-", "1", "3", ".", "\\", ";", "ALL", ","] * 3
        elif heavy == "taxa":
            voc = voc + ["TAXLABELS", "DIMENSIONS", "NTAX", "=", "2", ";", "TITLE", "LINK"] * 3
        toks = [rng.choice(voc) for _ in range(n)]
        head = rng.choice(["#NEXUS", "#NEXUS", "#NEXUS", "#nexus", ""])
        pre = rng.choice(["", "", "BEGIN TAXA; DIMENSIONS NTAX=2; TAXLABELS t1 t2; END;",
                          "BEGIN DATA; DIMENSIONS NTAX=2 NCHAR=3; FORMAT DATATYPE=DNA; MATRIX t1 ACG t2 ACG; END;",
                          "BEGIN " + rng.choice(["TAXA", "CHARACTERS", "DATA", "TREES", "SETS", "FOO"]) + ";"])
        return head + "\n" + pre + " " + " ".join(toks)
    if fmt == "newick":
        voc = KEYWORDS["newick"] + ["(", ")", ",", "A", "B", "C", ":", "1"] * 2
        sep = rng.choice(["", "", " "])
        return sep.join(rng.choice(voc) for _ in range(n))
    if fmt == "phylip":
        voc = KEYWORDS["phylip"] + ["ACGT", "AC", "\n", "\n", "t1 ", "t2 ", "t1        ", " "]
        head = rng.choice(["2 4\n", "2 4\n", "3 2\n", "1 1\n", "0 4\n", "2 0\n", "x y\n", "2\n", "", "  2   4  \n", "2 4 5\n"])
        return head + "".join(rng.choice(voc) for _ in range(n))
    if fmt == "fasta":
        voc = KEYWORDS["fasta"] + ["ACGT", "\n", "\n", ">b\n", ">a\n"]
        return "".join(rng.choice(voc) for _ in range(n))
    raise ValueError(fmt)


# ------------------------------------------------------------------------------------------------
# spin locator: names the function whose loop does not terminate.  Used only AFTER vf.mon.budget has given the
# verdict, on a second run of the same read.  In the steady state of an endless loop the callers of the spinning
# function are blocked in a call and execute no jump at all, the spinning function and its callees do; so the
# spinning function is the shallowest frame on the stack whose code object jumped during the last half of the run.
import os
import sys

_LOC_TOOL = 5


class _LocatorStop(BaseException):
    pass


class SpinLocator(object):
    def __init__(self, repo_src):
        self.prefix = os.path.abspath(repo_src) + os.sep
        self.known = {}
        self.registered = False
        self.total = 0
        self.limit = 0
        self.counts = {}

    def _cb(self, code, src, dst):
        k = self.known.get(code)
        if k is None:
            k = self.known[code] = code.co_filename.startswith(self.prefix)
        if not k:
            return sys.monitoring.DISABLE
        self.total += 1
        if self.total * 2 > self.limit:
            self.counts[code] = self.counts.get(code, 0) + 1
            if self.total > self.limit:
                raise _LocatorStop()

    def locate(self, fn, limit):
        """run fn() for ``limit`` jumps; returns the qualname of the spinning function or None."""
        m = sys.monitoring
        if not self.registered:
            m.use_tool_id(_LOC_TOOL, "vf-c20-spin")
            m.register_callback(_LOC_TOOL, m.events.JUMP, self._cb)
            self.registered = True
        self.total, self.limit, self.counts = 0, limit, {}
        m.set_events(_LOC_TOOL, m.events.JUMP)
        try:
            try:
                fn()
            finally:
                m.set_events(_LOC_TOOL, 0)
        except _LocatorStop as e:
            tb = e.__traceback__
            while tb is not None:
                code = tb.tb_frame.f_code
                if code.co_filename.startswith(self.prefix) and self.counts.get(code, 0) >= 2:
                    return getattr(code, "co_qualname", code.co_name)
                tb = tb.tb_next
            return None
        except Exception:
            return None
        return None
