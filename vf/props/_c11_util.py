"""Private helpers of C11: label universes, tree/text builders, the tracked "world" of live
containers with its DendroPy-free snapshots, and the monitor (hooks + closure/frame/provenance
oracles).  Nothing here computes an expected value with the library under test: snapshots read
raw fields (``_seed_node``/``_child_nodes``/``node.taxon``/``_taxon_sequence_map``), membership
and identity are decided with ``is`` / id-sets, labels are compared as plain strings."""
from .. import ref, gen, bridge, core

BASES = ["ant", "bee", "cat", "dog", "eel", "fox", "gnu", "hen", "ibis", "jay", "koi", "lynx"]
SEQ_ALPHABET = "ACGT"


# ----------------------------------------------------------------------------------------------
# workload material
# letters whose casefold() differs from lower(): used in ONE spelling only (no case variants are generated for them, the
# three normalisations disagree about those), so "equal labels -> one taxon" is unambiguous for them
NONASCII = ["wei\u00dfstorch", "\ufb01nch", "\u03c3\u03bf\u03c6\u03cc\u03c2", "stra\u00dfe"]


def universe(rng):
    """label universe of one history: bases, some with case variants (ant / Ant / ANT)."""
    out = []
    if rng.random() < 0.4:
        out.extend(rng.sample(NONASCII, rng.randint(1, 2)))
    for b in rng.sample(BASES, rng.randint(4, 8)):
        out.append(b)
        r = rng.random()
        if r < 0.4:
            out.append(b.capitalize())
        if r < 0.15:
            out.append(b.upper())
    return out


def canon_distinct(labels):
    seen = set()
    out = []
    for x in labels:
        if x.lower() not in seen:
            seen.add(x.lower())
            out.append(x)
    return out


def tree_desc(rng, uni, ns, nmax=5, distinct=False, leaves_only=False, nmin=1):
    k = rng.randint(min(nmin, len(uni)), min(nmax, len(uni)))
    labels = rng.sample(uni, k)
    if distinct:
        labels = canon_distinct(labels)
        while len(labels) < nmin:
            labels.append("zz%d" % len(labels))
    elif k >= 2 and rng.random() < 0.12:
        labels[-1] = labels[0]           # one taxon on two leaves
    itax = []
    if not leaves_only and rng.random() < 0.2:
        itax = [rng.choice(uni)]
    td = {"ns": ns, "labels": labels, "itax": itax, "shape": rng.randrange(10 ** 6)}
    if not leaves_only and k >= 2 and rng.random() < 0.08:
        td["bare"] = rng.randrange(k)       # one tip carries no taxon
    return td


def doc_trees(rng, uni, k, nmin=2, spelling=()):
    """tree descriptors of ONE document: leaves only, every label spelled one way throughout the document
    and no two labels of a tree equal up to case (readers refuse a taxon twice on a tree)."""
    spell = dict((x.lower(), x) for x in spelling)
    out = []
    for _ in range(k):
        td = tree_desc(rng, uni, None, nmax=5, distinct=True, leaves_only=True, nmin=nmin)
        td["labels"] = [spell.setdefault(x.lower(), x) for x in td["labels"]]
        out.append(td)
    return out


def spec_of(desc, text=False):
    import random
    labels = desc["labels"]
    r = random.Random(desc["shape"])
    spec = gen.random_spec(r, len(labels), p_poly=0.3, p_unary=0.0 if text else 0.1, names=labels)
    if not text:
        inner = [n for n in ref.preorder(spec) if n[3] and n is not spec]
        for lbl, n in zip(desc.get("itax", ()), inner):
            n[0] = lbl
        if desc.get("bare") is not None:
            tips = [n for n in ref.preorder(spec) if not n[3]]
            if len(tips) >= 2:
                tips[desc["bare"] % len(tips)][0] = None
    return spec


def seq_for(k, dtype="dna"):
    """a distinct sequence per integer (row provenance)."""
    from . import _c11_docs
    return _c11_docs.seq_for(k, dtype)


# ---- texts (hand written; only letters in labels, so no quoting questions arise) ---------------
def newick_of(spec):
    def f(n):
        s = ("(" + ",".join(f(c) for c in n[3]) + ")") if n[3] else ""
        if not n[3] and n[0] is not None:
            s += n[0]
        return s
    return f(spec) + ";"


def newick_text(specs):
    return "\n".join("[&R] " + newick_of(s) for s in specs) + "\n"


def nexus_text(specs, taxa_block=False, translate=False, rows=None):
    labels = []
    for s in specs:
        for x in ref.leaf_taxa(s):
            if x not in labels:
                labels.append(x)
    for lbl, _ in (rows or ()):
        if lbl not in labels:
            labels.append(lbl)
    out = ["#NEXUS", ""]
    if taxa_block:
        out += ["BEGIN TAXA;", "  DIMENSIONS NTAX=%d;" % len(labels), "  TAXLABELS " + " ".join(labels) + ";", "END;", ""]
    if rows:
        out += ["BEGIN CHARACTERS;", "  DIMENSIONS NCHAR=%d;" % len(rows[0][1]),
                "  FORMAT DATATYPE=DNA GAP=- MISSING=?;", "  MATRIX"]
        out += ["    %s  %s" % (lbl, sq) for lbl, sq in rows]
        out += ["  ;", "END;", ""]
    if specs:
        out.append("BEGIN TREES;")
        if translate:
            out.append("  TRANSLATE " + ", ".join("%d %s" % (i + 1, l) for i, l in enumerate(labels)) + ";")
        for i, s in enumerate(specs):
            txt = newick_of(s)
            if translate:
                num = dict((l, str(i + 1)) for i, l in enumerate(labels))

                def f(n):
                    t = ("(" + ",".join(f(c) for c in n[3]) + ")") if n[3] else ""
                    if not n[3] and n[0] is not None:
                        t += num[n[0]]
                    return t
                txt = f(s) + ";"
            out.append("  TREE t%d = [&R] %s" % (i, txt))
        out += ["END;", ""]
    return "\n".join(out)


def nexml_text(specs):
    labels = []
    for s in specs:
        for x in ref.leaf_taxa(s):
            if x not in labels:
                labels.append(x)
    oid = dict((l, "otu%d" % i) for i, l in enumerate(labels))
    out = ['<?xml version="1.0" encoding="ISO-8859-1"?>',
           '<nex:nexml version="0.9" xmlns="http://www.nexml.org/2009" '
           'xmlns:xsi="http://www.w3.org/2001/XMLSchema-instance" xmlns:nex="http://www.nexml.org/2009">',
           '  <otus id="taxa0">']
    out += ['    <otu id="%s" label="%s" />' % (oid[l], l) for l in labels]
    out += ['  </otus>', '  <trees id="trees0" otus="taxa0">']
    for ti, s in enumerate(specs):
        out.append('    <tree id="tree%d" xsi:type="nex:FloatTree">' % ti)
        ids = {}
        nodes = list(ref.preorder(s))
        for k, n in enumerate(nodes):
            ids[id(n)] = "t%dn%d" % (ti, k)
            attrs = ' root="true"' if n is s else ""
            if not n[3] and n[0] is not None:
                attrs += ' otu="%s"' % oid[n[0]]
            out.append('      <node id="%s"%s />' % (ids[id(n)], attrs))
        e = 0
        for n in nodes:
            for c in n[3]:
                out.append('      <edge id="t%de%d" source="%s" target="%s" />' % (ti, e, ids[id(n)], ids[id(c)]))
                e += 1
        out.append('    </tree>')
    out += ['  </trees>', '</nex:nexml>', '']
    return "\n".join(out)


def fasta_text(rows):
    return "".join(">%s\n%s\n" % (l, s) for l, s in rows)


# ----------------------------------------------------------------------------------------------
# snapshots
class Snap(object):
    __slots__ = ("ns", "trees", "lists", "mats", "ds", "arrays")


def walk(tree):
    """[(node, taxon|None, label|None)] in pre-order from the raw child lists."""
    out = []
    seed = tree._seed_node
    if seed is None:
        return out
    seen = set()
    stack = [seed]
    while stack:
        nd = stack.pop()
        if id(nd) in seen:
            raise bridge.ExtractError("node reached twice")
        seen.add(id(nd))
        tx = nd.taxon
        out.append((nd, tx, tx.label if tx is not None else None, not nd._child_nodes))
        stack.extend(reversed(nd._child_nodes))
    return out


def seq_sig(seq):
    try:
        return "".join(str(v) for v in seq)
    except Exception:
        return repr(seq)


class World(object):
    """the live objects of one history, tracked by identity."""

    def __init__(self):
        self.namespaces = []
        self.lists = []
        self.free = []       # trees not in any list: [tree, kind]  kind in free|removed
        self.mats = []
        self.datasets = []
        self.arrays = []     # [TreeArray, [label list per accessioned tree]]
        self.model = {}      # id(list) -> expected members (tree objects, by identity)
        self.rowno = 0

    # -- tracking ------------------------------------------------------------------
    @staticmethod
    def _has(seq, x):
        return any(y is x for y in seq)

    def track_ns(self, ns):
        if ns is not None and not self._has(self.namespaces, ns):
            self.namespaces.append(ns)
        return ns

    def track_list(self, lst, members=None):
        if not self._has(self.lists, lst):
            self.lists.append(lst)
            self.model[id(lst)] = list(lst._trees) if members is None else list(members)
        return lst

    def track_mat(self, m):
        if not self._has(self.mats, m):
            self.mats.append(m)
        return m

    def forget_list(self, lst):
        self.lists = [x for x in self.lists if x is not lst]      # identity: TreeList.__eq__ compares content
        self.model.pop(id(lst), None)

    def add_free(self, tree, kind="free"):
        for e in self.free:
            if e[0] is tree:
                e[1] = kind
                return
        self.free.append([tree, kind])

    def drop_free(self, tree):
        self.free = [e for e in self.free if e[0] is not tree]

    def ns_index(self, ns):
        for i, x in enumerate(self.namespaces):
            if x is ns:
                return i
        return None

    def in_attached_dataset(self, obj):
        for d in self.datasets:
            if d.attached_taxon_namespace is not None:
                if any(x is obj for x in d.tree_lists) or any(x is obj for x in d.char_matrices):
                    return True
        return False

    def dataset_of(self, obj):
        for d in self.datasets:
            if any(x is obj for x in d.tree_lists) or any(x is obj for x in d.char_matrices):
                return d
        return None

    def discover(self):
        for d in self.datasets:
            for ns in d.taxon_namespaces:
                self.track_ns(ns)
            if d.attached_taxon_namespace is not None:
                self.track_ns(d.attached_taxon_namespace)
            for lst in d.tree_lists:
                self.track_list(lst)
            for m in d.char_matrices:
                self.track_mat(m)
        for lst in self.lists:
            self.track_ns(lst.taxon_namespace)
            for t in lst._trees:
                self.track_ns(t.taxon_namespace)
        for t, _ in self.free:
            self.track_ns(t.taxon_namespace)
        for m in self.mats:
            self.track_ns(m.taxon_namespace)
        for a, _ in self.arrays:
            self.track_ns(a.taxon_namespace)

    # -- snapshot --------------------------------------------------------------------
    def snapshot(self):
        self.discover()
        s = Snap()
        s.ns = {}
        for ns in self.namespaces:
            taxa = list(ns)
            s.ns[id(ns)] = (ns, bool(ns.is_case_sensitive), taxa, [t.label for t in taxa])
        s.trees = {}
        s.lists = {}
        for lst in self.lists:
            members = list(lst._trees)
            s.lists[id(lst)] = (lst, lst.taxon_namespace, members)
            for t in members:
                if id(t) not in s.trees:
                    s.trees[id(t)] = (t, t.taxon_namespace, walk(t))
        for t, kind in self.free:
            if id(t) not in s.trees:
                s.trees[id(t)] = (t, t.taxon_namespace, walk(t))
        s.mats = {}
        for m in self.mats:
            rows = [(tx, tx.label, sq, seq_sig(sq)) for tx, sq in m._taxon_sequence_map.items()]
            s.mats[id(m)] = (m, m.taxon_namespace, rows)
        s.ds = {}
        for d in self.datasets:
            s.ds[id(d)] = (d, d.attached_taxon_namespace, list(d.taxon_namespaces), list(d.tree_lists), list(d.char_matrices))
        s.arrays = {}
        for a, model in self.arrays:
            s.arrays[id(a)] = (a, a.taxon_namespace, a._split_distribution.taxon_namespace,
                               list(a._tree_leafset_bitmasks), [list(x) for x in model],
                               (len(a._tree_split_bitmasks), len(a._tree_edge_lengths), len(a._tree_weights)),
                               list(a._tree_split_bitmasks))
        return s

    def array_entry(self, a):
        for e in self.arrays:
            if e[0] is a:
                return e
        return None

    def describe(self):
        """small JSON-able picture for witnesses."""
        self.discover()
        nsi = dict((id(ns), i) for i, ns in enumerate(self.namespaces))
        out = {"namespaces": [{"i": i, "cs": bool(ns.is_case_sensitive), "labels": [t.label for t in ns]}
                              for i, ns in enumerate(self.namespaces)],
               "lists": [{"ns": nsi.get(id(l.taxon_namespace)),
                          "trees": [{"ns": nsi.get(id(t.taxon_namespace)),
                                     "taxa": [x[2] for x in walk(t) if x[2] is not None]} for t in l._trees[:40]]}
                         for l in self.lists],
               "matrices": [{"ns": nsi.get(id(m.taxon_namespace)), "rows": [t.label for t in m._taxon_sequence_map]}
                            for m in self.mats],
               "datasets": [{"attached": nsi.get(id(d.attached_taxon_namespace)) if d.attached_taxon_namespace is not None else None,
                             "n_ns": len(d.taxon_namespaces), "n_lists": len(d.tree_lists), "n_mats": len(d.char_matrices)}
                            for d in self.datasets],
               "arrays": [{"ns": nsi.get(id(a.taxon_namespace)), "trees": [list(x) for x in model][:6]} for a, model in self.arrays]}
        for e in out["namespaces"]:
            if not self.namespaces[e["i"]].is_mutable:
                e["immutable"] = True
        for e, l in zip(out["lists"], self.lists):
            if len(l._trees) > 8:
                e["n_trees"] = len(l._trees)
                e["trees"] = e["trees"][:8]
        return out


# ----------------------------------------------------------------------------------------------
class Expect(object):
    """what the driver announces about the hooked call it is about to make."""

    def __init__(self, op, disc=""):
        self.op = op              # key prefix = hooked method
        self.disc = disc          # discriminator: strategy / schema / source kind
        self.allowed = ()         # documented exception classes that MAY be raised
        self.inplace = []         # [(tree, mode, want)]   trees whose nodes are re-mapped in place
        self.lists = {}           # id(list) -> (list, [slot,...])  expected members after a normal return
        self.newlist = None       # ("result"|"self", [slot,...])   a list created by the call
        self.reads = None         # {"trees":[[labels]..], "mats":[[labels]..]|None, "dataset": D|None, "ns": namespace|None}
        self.mats = []            # [(matrix, mode, want)]  rows re-keyed in place
        self.newmat = None        # "result"|"self": a matrix created by the call
        self.matclone = None      # (src matrix, mode) for newmat
        self.collision = False    # a label collision between rows is predicted (refusal is then legitimate)
        self.unify = None         # (dataset, target namespace|None)
        self.displaced = []       # trees that leave a list through this call (become "removed" trees)
        self.consumed = []        # free trees that become members (or garbage when the call raises)
        self.array = None         # {"a": array|None (None: created by the call), "model": [[labels]..] after a normal return,
                                  #  "args": [argument trees], "partial": [[..model..], ..] states accepted after a refusal}
        self.assign = None        # (matrix, [(str label | Taxon, sequence signature)]) rows assigned by the call
        self.newrows = None       # labels of the rows a newly created matrix is filled with
        self.newrows_ci = False   # ... compared up to case (the constructor matches keys case-insensitively)
        self.newds = None         # "result": a data set created by the call
        self.touched_mats = []    # matrices the call may write to (frame)
        self.multi_taxa_refusal = False
        self.refusal_clause = None  # own clause name for an undocumented refusal of this input class (instead of unexpected-exception)


def canon_fn(cs):
    if cs:
        return lambda s: s
    return lambda s: s.lower()


_SUB = {}


def treelist_subclass():
    """a user-defined TreeList subclass (``isinstance`` routes must treat it like a TreeList)."""
    if "c" not in _SUB:
        import dendropy

        class MyTreeList(dendropy.TreeList):
            pass
        _SUB["c"] = MyTreeList
    return _SUB["c"]


class Monitor(object):
    """pre = snapshot of the whole world; post = closure invariant over every tracked container,
    frame condition for everything the call was not asked to touch, provenance/one-to-one clauses
    for what it was asked to move.  Judged after every hooked call, returned or raised."""

    TREELIST = ("__init__", "append", "insert", "extend", "__iadd__", "__add__", "__setitem__", "__getitem__",
                "__delitem__", "read", "get", "new_tree", "pop", "remove", "clear", "migrate_taxon_namespace",
                "reconstruct_taxon_namespace", "update_taxon_namespace", "as_tree_array")
    TREEARRAY = ("add_tree", "read", "append", "insert", "add_trees", "from_tree_list", "read_from_files",
                 "extend", "__iadd__", "__add__", "update")
    MATRIX = ("__init__", "get", "new_sequence", "__setitem__", "__getitem__", "from_dict", "migrate_taxon_namespace",
              "reconstruct_taxon_namespace", "update_taxon_namespace")
    DATASET = ("__init__", "read", "get", "new_tree_list", "new_char_matrix", "unify_taxon_namespaces", "unify_taxa", "add",
               "attach_taxon_namespace", "detach_taxon_namespace")

    def __init__(self, ctx):
        self.ctx = ctx
        self.world = None
        self.expect = None
        self.history = None
        self.last_ok = True
        self.fired = False
        self.judge_error = None
        self._raise_disc = ""
        self._raise_sfx = "-after-raise"
        self.consistent = True

    def install(self, hooks):
        import dendropy
        for cls, names in ((dendropy.TreeList, self.TREELIST), (dendropy.TreeArray, self.TREEARRAY),
                           (dendropy.CharacterMatrix, self.MATRIX), (dendropy.DataSet, self.DATASET)):
            for name in names:
                tag = "%s.%s" % (cls.__name__, name)
                hooks.install(cls, name, pre=self._pre, post=self._mk_post(tag), tag=tag)

    def _pre(self, obj, args, kw):
        if self.world is None or self.expect is None:
            # calls the driver did not announce (objects built by the harness itself) are not judged
            return None
        return self.world.snapshot()

    def _mk_post(self, tag):
        def post(snap, obj, args, kw, result, exc):
            if self.world is None or snap is None:
                return
            E = self.expect
            self.expect = None
            self.fired = True
            if E is None:
                return
            try:
                self.last_ok = self.judge(E, snap, obj, result, exc)
            except core.CaseTimeout:
                raise
            except Exception as e:      # a bug of the monitor itself must not look like a library exception
                self.judge_error = e
                raise
        return post

    # ------------------------------------------------------------------------------
    def _detail(self, extra=None, world=True):
        d = {"history": (self.history or [])[-12:], "n_ops": len(self.history or [])}
        if world:
            try:
                d["world"] = self.world.describe()
            except Exception as e:   # pragma: no cover
                d["world"] = "unavailable: %r" % (e,)
        if extra:
            d.update(extra)
        return d

    def viol(self, E, clause, what, raised=False, disc=None, extra=None, world=True):
        key = "%s|%s%s" % (E.op, clause, self._raise_sfx if raised else "")
        dsc = disc if disc is not None else E.disc
        if raised:
            dsc = self._raise_disc     # which refusal left the state behind: exception class @ innermost library function
        if dsc:
            key += "|" + dsc
        self.ctx.violation(key, what, self._detail(extra, world))
        return False

    # ------------------------------------------------------------------------------
    def judge(self, E, pre, obj, result, exc):
        ctx, w = self.ctx, self.world
        raised = exc is not None
        ok = True
        if raised:
            from dendropy.utility import error
            fr = core.innermost_repo_frame(exc)
            self._raise_disc = "%s@%s" % (type(exc).__name__, fr[0] if fr else "?")
            # the state a *label-collision* refusal leaves behind keeps the historical clause suffix; any other exception
            # class names itself in the clause, so that a recorded finding about one refusal cannot hide another one
            if isinstance(exc, error.TaxonNamespaceReconstructionError):
                self._raise_sfx = "-after-raise"
            else:
                self._raise_sfx = "-after-%s" % type(exc).__name__
        # ---- objects created by the call join the world before the closure is evaluated
        newlist = newmat = None
        if not raised:
            if E.newlist is not None:
                newlist = result if E.newlist[0] == "result" else obj
                w.track_list(newlist)
            if E.newmat is not None:
                newmat = result if E.newmat == "result" else obj
                w.track_mat(newmat)
            if E.newds is not None:
                nd = result if E.newds == "result" else obj
                if nd is not None and not any(x is nd for x in w.datasets):
                    w.datasets.append(nd)
                if E.reads is not None:
                    E.reads["dataset"] = nd
            if E.array is not None:
                a = E.array["a"] if E.array["a"] is not None else result
                ent = w.array_entry(a)
                if ent is None:
                    w.arrays.append([a, [list(x) for x in E.array["model"]]])
                else:
                    ent[1] = [list(x) for x in E.array["model"]]
                E.array["a"] = a
            for t in E.displaced:
                w.add_free(t, "removed")
            for t in E.consumed:
                w.drop_free(t)
        else:
            if E.array is not None and E.array["a"] is not None:
                # a refusal in the middle of a multi-tree accession legitimately leaves a prefix behind
                ent = w.array_entry(E.array["a"])
                n = len(E.array["a"]._tree_leafset_bitmasks)
                for cand in E.array.get("partial", ()):
                    if len(cand) == n and ent is not None:
                        ent[1] = [list(x) for x in cand]
                        break
            # a call that raised may have half-imported its argument trees: they are members of nothing, the STATEMENT
            # says nothing about them (recorded, not judged), unless they did end up in a list, which the closure then sees
            for t in E.consumed:
                if self._argument_left_inconsistent(t):
                    ctx.note("argument-tree-left-half-imported-by-a-refusal:%s" % E.op)
                w.drop_free(t)
        post = w.snapshot()
        # ---- exception classification
        if raised:
            from dendropy.utility import error
            if isinstance(exc, error.TaxonNamespaceReconstructionError) and not E.collision and (E.mats or E.unify):
                ok = self._spurious_refusal(E, pre, exc)
            elif E.allowed and isinstance(exc, E.allowed):
                ctx.ev("documented-error-seen")
                ctx.ev("documented-error:%s:%s" % (E.op, type(exc).__name__))
            elif E.refusal_clause is not None:
                self.viol(E, E.refusal_clause, "%s refused a valid input with %s" % (E.op, core.exc_brief(exc)), disc=E.disc)
                ok = False
            else:
                ctx.unexpected(E.op, exc, self._detail())
                ok = False
        # ---- closure invariant over every tracked container
        ok = self.closure(E, post, raised) and ok
        # ---- frame: whatever the call was not asked to touch is unchanged
        ok = self.frame(E, pre, post, raised) and ok
        self.consistent = ok        # closure + frame + documented exception: the world can be used further
        if raised or not ok:
            self._adopt(post)
            return ok
        # ---- what the call was asked to do
        items = []
        ok = self.check_lists(E, pre, post, items, newlist) and ok
        ok = self.check_inplace(E, pre, post, items) and ok
        ok = self.check_mats(E, pre, post, items, newmat) and ok
        ok = self.check_reads(E, pre, post, items, newlist, newmat) and ok
        ok = self.check_array(E, pre, post) and ok
        ok = self.check_unify(E, pre, post) and ok
        ok = self.check_items(E, pre, post, items) and ok
        self._adopt(post)
        return ok

    def _argument_left_inconsistent(self, t):
        for lst in self.world.lists:
            if any(x is t for x in lst._trees):
                return False
        ns = t.taxon_namespace
        if ns is None:
            return True
        mem = set(id(x) for x in ns)
        try:
            return any(x[1] is not None and id(x[1]) not in mem for x in walk(t))
        except Exception:
            return True

    def _adopt(self, post):
        for lid, (lst, ns, members) in post.lists.items():
            self.world.model[lid] = list(members)

    def _spurious_refusal(self, E, pre, exc):
        disc = "no-label-collision"
        mats = [e[0] for e in E.mats]
        tgt = None
        if E.unify:
            mats = list(E.unify[0].char_matrices)
            tgt = E.unify[1]
        for m in mats:
            ent = pre.mats.get(id(m))
            if ent is None:
                continue
            ns = tgt if tgt is not None else m.taxon_namespace
            if ns is None or id(ns) not in pre.ns:
                continue
            members = set(id(t) for t in pre.ns[id(ns)][2])
            if any(id(r[0]) in members for r in ent[2]):
                disc = "row-taxon-already-member"
        return self.viol(E, "spurious-refusal", "refused with %s although no two rows have equal labels "
                         "under the target namespace's case rule" % core.exc_brief(exc), disc=disc)

    # ------------------------------------------------------------------------------
    def closure(self, E, post, raised):
        ctx = self.ctx
        ok = True
        members = dict((nid, set(id(t) for t in ent[2])) for nid, ent in post.ns.items())

        def mem(ns):
            if id(ns) in members:
                return members[id(ns)]
            return set(id(t) for t in ns)
        for lid, (lst, ns, trees) in post.lists.items():
            ctx.ev("closure:list-judged")
            if ns is None:
                ok = self.viol(E, "list-without-namespace", "tree list has no taxon namespace", raised)
                continue
            m = mem(ns)
            for k, t in enumerate(trees):
                tns = post.trees[id(t)][1]
                if tns is not ns:
                    ok = self.viol(E, "member-namespace-not-containers",
                                   "tree %d of a list refers to a namespace object that is not the list's" % k, raised,
                                   extra={"list": self._li(lst), "tree": k})
                    continue
                for nd, tx, lbl, leaf in post.trees[id(t)][2]:
                    if tx is not None and id(tx) not in m:
                        ok = self.viol(E, "member-taxon-not-in-namespace",
                                       "a node of tree %d refers to taxon %r which is not a member of the list's namespace" % (k, lbl),
                                       raised, extra={"list": self._li(lst), "tree": k, "label": lbl})
                        break
        for t, kind in self.world.free:
            if kind != "removed":
                continue
            ctx.ev("closure:removed-tree-judged")
            ent = post.trees.get(id(t))
            if ent is None:
                continue
            tns = ent[1]
            if tns is None:
                ok = self.viol(E, "removed-tree-without-namespace", "a removed tree lost its namespace", raised)
                continue
            m = mem(tns)
            for nd, tx, lbl, leaf in ent[2]:
                if tx is not None and id(tx) not in m:
                    ok = self.viol(E, "removed-tree-taxon-not-in-own-namespace",
                                   "removed tree refers to taxon %r which is not in the tree's own namespace" % lbl, raised)
                    break
        for mid, (mat, ns, rows) in post.mats.items():
            ctx.ev("closure:matrix-judged")
            if ns is None:
                ok = self.viol(E, "matrix-without-namespace", "matrix has no namespace", raised)
                continue
            m = mem(ns)
            for tx, lbl, sq, sig in rows:
                if id(tx) not in m:
                    ok = self.viol(E, "sequence-taxon-not-in-namespace",
                                   "a sequence is keyed by taxon %r which is not a member of the matrix's namespace" % lbl, raised,
                                   extra={"matrix": self._mi(mat), "label": lbl})
                    break
        for did, (d, att, nss, lists, mats) in post.ds.items():
            if att is None:
                continue
            ctx.ev("closure:dataset-judged")
            if not any(x is att for x in nss):
                ok = self.viol(E, "attached-namespace-not-listed", "attached namespace is not in dataset.taxon_namespaces", raised)
            for comp in lists + mats:
                if comp.taxon_namespace is not att:
                    ok = self.viol(E, "dataset-component-namespace-not-attached",
                                   "a %s of a data set in attached mode refers to another namespace" % type(comp).__name__, raised)
                    break
        for aid, (a, ns, sdns, masks, model, lens, splits) in post.arrays.items():
            ctx.ev("closure:array-judged")
            if sdns is not ns:
                ok = self.viol(E, "array-split-distribution-namespace", "TreeArray and its split distribution refer to different namespaces", raised)
                continue
            if len(masks) != len(model):
                ok = self.viol(E, "array-tree-count", "TreeArray holds %d trees, %d were accessioned" % (len(masks), len(model)), raised)
                continue
            if any(x != len(masks) for x in lens):
                ok = self.viol(E, "array-parallel-stores-differ-in-length",
                               "TreeArray stores %d leaf sets but %s split sets / edge-length sets / weights" % (len(masks), lens), raised)
                continue
            cf = canon_fn(bool(ns.is_case_sensitive))
            bit = [(ns.taxon_bitmask(t), t) for t in post.ns[id(ns)][2]] if id(ns) in post.ns else []
            for k, (mk, labels) in enumerate(zip(masks, model)):
                got = sorted(cf(t.label) for b, t in bit if b & mk)
                rest = mk
                for b, t in bit:
                    rest &= ~b
                want = sorted(set(cf(x) for x in labels))
                if rest or got != want:
                    ok = self.viol(E, "array-leafset-not-in-namespace",
                                   "stored leaf set of tree %d maps to members %s (+ stray bits %s), accessioned labels %s" % (k, got, bin(rest), want), raised)
                    break
                if any(sp & ~mk for sp in splits[k]):
                    ok = self.viol(E, "array-split-outside-leafset",
                                   "a stored split of tree %d has bits outside the leaf set stored for that tree" % k, raised)
                    break
        return ok

    def _li(self, lst):
        for i, x in enumerate(self.world.lists):
            if x is lst:
                return i
        return None

    def _mi(self, m):
        for i, x in enumerate(self.world.mats):
            if x is m:
                return i
        return None

    # ------------------------------------------------------------------------------
    def frame(self, E, pre, post, raised):
        ctx = self.ctx
        ok = True
        touched = set(id(t) for t, _, _ in E.inplace)
        touched.update(id(t) for t in E.consumed)
        tarrays = set()
        if E.array is not None:
            for t in E.array.get("args", ()):
                touched.add(id(t))
            if E.array["a"] is not None:
                tarrays.add(id(E.array["a"]))
        tlists = set(E.lists.keys())
        tmats = set(id(e[0]) for e in E.mats)
        tmats.update(id(m) for m in E.touched_mats)
        if E.assign is not None:
            tmats.add(id(E.assign[0]))
        if E.unify is not None:
            d = E.unify[0]
            for lst in pre.ds[id(d)][3]:
                tlists.add(id(lst))
                for t in pre.lists[id(lst)][2]:
                    touched.add(id(t))
            for m in pre.ds[id(d)][4]:
                tmats.add(id(m))
        for lid in tlists:
            if lid in pre.lists and E.op.endswith(("migrate_taxon_namespace", "reconstruct_taxon_namespace", "update_taxon_namespace")):
                for t in pre.lists[lid][2]:
                    touched.add(id(t))
        # namespaces never lose or relabel a member
        for nid, (ns, cs, taxa, labels) in pre.ns.items():
            ent = post.ns.get(nid)
            if ent is None:
                continue
            now = set(id(t) for t in ent[2])
            for t, lbl in zip(taxa, labels):
                if id(t) not in now:
                    ok = self.viol(E, "taxon-removed-from-namespace", "taxon %r is no longer a member of its namespace" % lbl, raised)
                    break
                if t.label != lbl:
                    ok = self.viol(E, "taxon-relabelled", "taxon %r now carries label %r" % (lbl, t.label), raised)
                    break
        # untouched trees keep namespace and node->taxon assignment
        for tid, (t, tns, nodes) in pre.trees.items():
            if tid in touched:
                continue
            ent = post.trees.get(tid)
            if ent is None:
                continue
            ctx.ev("frame:tree-judged")
            if ent[1] is not tns:
                ok = self.viol(E, "bystander-tree-namespace-changed", "a tree that was not part of the call changed its namespace", raised)
                continue
            if len(ent[2]) != len(nodes) or any(a[0] is not b[0] or a[1] is not b[1] for a, b in zip(nodes, ent[2])):
                ok = self.viol(E, "bystander-tree-taxa-changed", "a tree that was not part of the call had its node taxa changed", raised)
        for lid, (lst, ns, members) in pre.lists.items():
            if lid in tlists or lid not in post.lists:
                continue
            ent = post.lists[lid]
            if ent[1] is not ns or len(ent[2]) != len(members) or any(a is not b for a, b in zip(members, ent[2])):
                ok = self.viol(E, "bystander-list-changed", "a list that was not part of the call changed", raised)
        for mid, (m, ns, rows) in pre.mats.items():
            if mid in tmats or mid not in post.mats:
                continue
            ent = post.mats[mid]
            if ent[1] is not ns or len(ent[2]) != len(rows) or any(a[0] is not b[0] or a[2] is not b[2] for a, b in zip(rows, ent[2])):
                ok = self.viol(E, "bystander-matrix-changed", "a matrix that was not part of the call changed", raised)
        for aid, ent in pre.arrays.items():
            if aid in tarrays or aid not in post.arrays:
                continue
            ctx.ev("frame:array-judged")
            now = post.arrays[aid]
            if now[1] is not ent[1] or now[3] != ent[3]:
                ok = self.viol(E, "bystander-array-changed", "a tree array that was not the target of the call changed", raised)
        return ok

    # ------------------------------------------------------------------------------
    def _pair_inplace(self, E, pre, post, t, mode, want, items, ns):
        a = pre.trees[id(t)][2]
        b = post.trees[id(t)][2]
        if len(a) != len(b) or any(x[0] is not y[0] for x, y in zip(a, b)):
            return self.viol(E, "tree-structure-changed", "importing a tree changed its node set")
        for x, y in zip(a, b):
            items.append((ns, x[2], x[1], y[1], mode, want))
        return True

    def _pair_clone(self, E, pre, post, src, t, mode, items, ns):
        a = pre.trees[id(src)][2]
        b = post.trees[id(t)][2]
        if len(a) != len(b):
            return self.viol(E, "clone-node-count", "copy of a tree has %d nodes, the source %d" % (len(b), len(a)))
        for x, y in zip(a, b):
            items.append((ns, x[2], x[1], y[1], mode, None))
        return True

    def _check_slots(self, E, pre, post, lst, slots, items, readbag):
        ok = True
        ent = post.lists.get(id(lst))
        if ent is None:
            return self.viol(E, "list-untracked", "internal: list not in snapshot")
        ns, actual = ent[1], ent[2]
        self.ctx.ev("list-content-judged")
        if len(actual) != len(slots):
            return self.viol(E, "member-count", "list holds %d trees, %d expected" % (len(actual), len(slots)))
        for k, (slot, t) in enumerate(zip(slots, actual)):
            kind = slot[0]
            if kind == "obj":
                if t is not slot[1]:
                    ok = self.viol(E, "member-identity", "position %d of the list holds another tree than expected" % k)
            elif kind == "clone":
                src, mode = slot[1], slot[2]
                if t is src:
                    ok = self._pair_inplace(E, pre, post, t, mode, None, items, ns) and ok
                elif id(t) in pre.trees:
                    ok = self.viol(E, "member-identity", "position %d holds a pre-existing tree instead of a copy" % k)
                else:
                    ok = self._pair_clone(E, pre, post, src, t, mode, items, ns) and ok
            elif kind == "read":
                if id(t) in pre.trees:
                    ok = self.viol(E, "member-identity", "position %d holds a pre-existing tree instead of a newly read one" % k)
                else:
                    readbag.append((t, ns))
            elif kind == "new":
                if id(t) in pre.trees:
                    ok = self.viol(E, "member-identity", "position %d holds a pre-existing tree instead of a new one" % k)
        return ok

    def check_lists(self, E, pre, post, items, newlist):
        ok = True
        self._readbag = []
        for lid, (lst, slots) in E.lists.items():
            ok = self._check_slots(E, pre, post, lst, slots, items, self._readbag) and ok
        if E.newlist is not None and newlist is not None and E.newlist[1] is not None:
            ok = self._check_slots(E, pre, post, newlist, E.newlist[1], items, self._readbag) and ok
        return ok

    def check_inplace(self, E, pre, post, items):
        ok = True
        for t, mode, want in E.inplace:
            if id(t) not in pre.trees or id(t) not in post.trees:
                continue
            ns = post.trees[id(t)][1]
            ok = self._pair_inplace(E, pre, post, t, mode, want, items, ns) and ok
        return ok

    def check_mats(self, E, pre, post, items, newmat):
        ok = True
        for e in E.mats:
            m, mode = e[0], e[1]
            want = e[2] if len(e) > 2 else None
            a = pre.mats[id(m)][2]
            ent = post.mats[id(m)]
            byseq = dict((id(r[2]), r) for r in ent[2])
            self.ctx.ev("matrix-rows-judged")
            if len(ent[2]) != len(a):
                ok = self.viol(E, "row-count", "matrix holds %d sequences, %d before the call" % (len(ent[2]), len(a)))
            for tx, lbl, sq, sig in a:
                r = byseq.get(id(sq))
                if r is None:
                    ok = self.viol(E, "row-dropped", "the sequence of %r is gone" % lbl)
                    continue
                items.append((ent[1], lbl, tx, r[0], mode, want))
        if newmat is not None and E.matclone is not None:
            src, mode = E.matclone
            a = pre.mats[id(src)][2]
            ent = post.mats[id(newmat)]
            cf = canon_fn(bool(ent[1].is_case_sensitive))
            bysig = {}
            for r in ent[2]:
                bysig.setdefault(r[3], []).append(r)
            lost = 0
            for tx, lbl, sq, sig in a:
                rs = bysig.get(sig) or []
                hit = [r for r in rs if cf(r[1]) == cf(lbl)]
                if not hit:
                    lost += 1
                    continue
                items.append((ent[1], lbl, tx, hit[0][0], mode, None))
            if lost:
                if E.collision:
                    self.ctx.note("matrix-copy-merged-rows-with-equal-labels")
                else:
                    ok = self.viol(E, "row-dropped", "%d sequences of the source are missing in the copy" % lost)
        if E.assign is not None:
            m, assigned = E.assign
            if m is None:
                m = newmat
            a = pre.mats[id(m)][2] if id(m) in pre.mats else []
            ent = post.mats[id(m)]
            now = set(id(r[0]) for r in ent[2])
            self.ctx.ev("matrix-rows-judged")
            for tx, lbl, sq, sig in a:
                if id(tx) not in now:
                    ok = self.viol(E, "row-dropped", "the sequence of %r is gone" % lbl)
            bysig = dict((r[3], r) for r in ent[2])
            for key, sig in assigned:
                r = bysig.get(sig)
                if r is None:
                    ok = self.viol(E, "assigned-row-missing", "the assigned sequence is not in the matrix")
                    continue
                if isinstance(key, str):
                    items.append((ent[1], key, None, r[0], "unify", None))
                else:
                    items.append((ent[1], key.label, key, r[0], "same", None))
        if newmat is not None and E.newrows is not None:
            ent = post.mats[id(newmat)]
            cf = canon_fn(bool(ent[1].is_case_sensitive) and not E.newrows_ci)
            got = sorted(cf(r[1]) for r in ent[2])
            want = sorted(cf(x) for x in E.newrows)
            self.ctx.ev("matrix-rows-judged")
            if got != want:
                ok = self.viol(E, "new-matrix-row-labels", "row labels %s, source has %s" % (got, want))
            else:
                for r in ent[2]:
                    items.append((ent[1], r[1], None, r[0], "unify", None))
        return ok

    def check_reads(self, E, pre, post, items, newlist=None, newmat=None):
        if E.reads is None:
            return True
        ok = True
        R = E.reads
        trees = list(self._readbag)
        rows = []
        d = R.get("dataset")
        if d is not None:
            before_l = set(id(x) for x in pre.ds[id(d)][3]) if id(d) in pre.ds else set()
            before_m = set(id(x) for x in pre.ds[id(d)][4]) if id(d) in pre.ds else set()
            for lst in post.ds[id(d)][3]:
                if id(lst) not in before_l:
                    for t in post.lists[id(lst)][2]:
                        trees.append((t, post.lists[id(lst)][1]))
            for m in post.ds[id(d)][4]:
                if id(m) not in before_m:
                    rows.append(post.mats[id(m)])
        if newmat is not None:
            rows.append(post.mats[id(newmat)])
        self.ctx.ev("read-judged")
        want_ns = R.get("ns")
        if want_ns is not None:
            self.ctx.ev("read-into-given-namespace-judged")
            if newlist is not None and post.lists[id(newlist)][1] is not want_ns:
                return self.viol(E, "read-not-into-the-namespace-passed-in",
                                 "the new list refers to another namespace than the one given as taxon_namespace= (%d members)" % len(want_ns))
            for t, ns in trees:
                if ns is not want_ns:
                    return self.viol(E, "read-not-into-the-namespace-passed-in",
                                     "trees arrived in another namespace than the one given as taxon_namespace= (%d members)" % len(want_ns))
            for m, ns, rr in rows:
                if ns is not want_ns:
                    return self.viol(E, "read-not-into-the-namespace-passed-in",
                                     "the matrix arrived in another namespace than the one given as taxon_namespace=")
        want_trees = R.get("trees")
        if want_trees is not None:
            if len(trees) != len(want_trees):
                return self.viol(E, "read-tree-count", "%d trees arrived, the source selection holds %d" % (len(trees), len(want_trees)))
            for (t, ns), labels in zip(trees, want_trees):
                cf = canon_fn(bool(ns.is_case_sensitive))
                nodes = post.trees[id(t)][2]
                got = sorted(cf(x[2]) if x[2] is not None else "<none>" for x in nodes if x[3])
                want = sorted(cf(x) for x in labels)
                if got != want:
                    ok = self.viol(E, "read-label-multiset", "leaf labels %s, source has %s" % (got, want))
                    continue
                for x in nodes:
                    if x[1] is not None:
                        items.append((ns, x[2], None, x[1], "unify", None))
        want_mats = R.get("mats")
        if want_mats is not None:
            if len(rows) != len(want_mats):
                return self.viol(E, "read-matrix-count", "%d matrices arrived, the source selection holds %d" % (len(rows), len(want_mats)))
            for (m, ns, rr), want_rows in zip(rows, want_mats):
                cf = canon_fn(bool(ns.is_case_sensitive))
                got = sorted(cf(r[1]) for r in rr)
                want = sorted(cf(x) for x in want_rows)
                self.ctx.ev("read-matrix-judged")
                if got != want:
                    ok = self.viol(E, "read-row-labels", "row labels %s, source has %s" % (got, want))
                else:
                    for r in rr:
                        items.append((ns, r[1], None, r[0], "unify", None))
        return ok

    def check_array(self, E, pre, post):
        # content of arrays is part of the closure (model vs stored leaf sets); here: re-use of existing members
        if E.array is None or not E.array.get("reads"):
            return True
        a = E.array["a"]
        ent = post.arrays[id(a)]
        ns = ent[1]
        if id(ns) not in pre.ns:
            return True
        cf = canon_fn(bool(ns.is_case_sensitive))
        pre_ids = set(id(t) for t in pre.ns[id(ns)][2])
        pre_canon = set(cf(x) for x in pre.ns[id(ns)][3])
        seen = {}
        ok = True
        self.ctx.ev("array-read-judged")
        for t in post.ns[id(ns)][2]:
            if id(t) in pre_ids:
                continue
            c = cf(t.label)
            if c in pre_canon or c in seen:
                ok = self.viol(E, "duplicate-taxon-created", "reading created a second taxon for label %r" % t.label)
                break
            seen[c] = t
        return ok

    def check_unify(self, E, pre, post):
        if E.unify is None:
            return True
        d, tgt = E.unify
        ent = post.ds[id(d)]
        comps = ent[3] + ent[4]
        nss = []
        for c in comps:
            if not any(c.taxon_namespace is x for x in nss):
                nss.append(c.taxon_namespace)
        self.ctx.ev("unify-judged")
        if len(nss) > 1:
            return self.viol(E, "components-on-several-namespaces", "after unification the components refer to %d namespaces" % len(nss))
        if tgt is not None and nss and nss[0] is not tgt:
            return self.viol(E, "components-not-on-given-namespace", "components were not moved to the namespace passed in")
        # "items with equal labels end up on one and the same taxon": after a unification every label that the data set's
        # components refer to sits on ONE taxon object - also when the target namespace itself held several members with
        # that label, and also for components that lived in the target already (seeded change C11d: those were skipped).
        if nss:
            cf = canon_fn(bool(nss[0].is_case_sensitive))
            seen = {}
            for c in comps:
                pairs = []
                if id(c) in post.lists:
                    for t in post.lists[id(c)][2]:
                        ent_t = post.trees.get(id(t))
                        if ent_t is not None:
                            pairs.extend((x[2], x[1]) for x in ent_t[2] if x[1] is not None)
                elif id(c) in post.mats:
                    pairs.extend((r[1], r[0]) for r in post.mats[id(c)][2])
                for label, taxon in pairs:
                    if label is None:
                        continue
                    k = cf(label)
                    prev = seen.setdefault(k, taxon)
                    if prev is not taxon:
                        return self.viol(E, "one-label-on-several-taxa-after-unification",
                                         "label %r is referred to through %d different taxon objects by the data set's components"
                                         % (label, 2))
            self.ctx.ev("unify-one-taxon-per-label-judged")
        return True

    def check_items(self, E, pre, post, items):
        ctx = self.ctx
        ok = True
        by = {}
        for it in items:
            by.setdefault(id(it[0]), []).append(it)
        for nid, its in by.items():
            ns = its[0][0]
            cf = canon_fn(bool(ns.is_case_sensitive))
            pre_taxa = pre.ns[nid][2] if nid in pre.ns else []
            pre_ids = set(id(t) for t in pre_taxa)
            pre_canon = set()
            pre_multi = set()        # labels that several members carry already (by design after "add" etc.): which one
            for t in pre_taxa:       # is re-used is documented as unspecified, so "one taxon" is not demanded for them
                c = cf(t.label)
                if c in pre_canon:
                    pre_multi.add(c)
                pre_canon.add(c)
            groups, fmap, inv = {}, {}, {}
            exempt = set()
            bad = set()

            def v(clause, what, disc=None):
                if clause in bad:
                    return
                bad.add(clause)
                self.viol(E, clause, what, disc=disc)
            for ns_, l, p, q, mode, want in its:
                ctx.ev("item-judged")
                if l is None:
                    if q is not None:
                        v("taxon-invented", "a node without taxon now has taxon %r" % q.label)
                    else:
                        ctx.ev("item:taxonless-judged")
                    continue
                if q is None:
                    v("taxon-dropped", "the item labelled %r has no taxon any more" % l)
                    continue
                if want is not None and p is not None and id(p) in want and (mode == "unify" or id(p) not in pre_ids):
                    ctx.ev("item:memo-judged")
                    if q is not want[id(p)][1]:
                        v("mapping-memo-ignored", "taxon %r was not replaced by the taxon given in taxon_mapping_memo" % l)
                    exempt.add(id(q))
                    continue
                if mode in ("same", "add"):
                    ctx.ev("item:%s-judged" % mode)
                    if q is not p:
                        # own discriminator when the namespace holds that label several times (legal after the "add"
                        # strategy): a copy route that re-maps by label then picks the first of them - recorded defect
                        multi = "/label-carried-by-several-members" if cf(l) in pre_multi and q.label is not None and cf(q.label) == cf(l) else ""
                        v("taxon-replaced", "item labelled %r should keep its taxon object (%s) but got another one (label %r)" % (l, mode, q.label),
                          disc=(E.disc + "/" if E.disc else "") + mode + multi)
                    exempt.add(id(q))
                elif mode == "distinct":
                    ctx.ev("item:distinct-judged")
                    if q.label != l:
                        v("label-changed", "label %r became %r" % (l, q.label))
                    prev = fmap.get(id(p))
                    if prev is not None and prev is not q:
                        v("one-taxon-split", "two items that shared taxon %r now refer to two taxa" % l)
                    fmap[id(p)] = q
                    o = inv.get(id(q))
                    if o is not None and o is not p:
                        v("distinct-taxa-merged", "two distinct taxa labelled %r were merged although unify_taxa_by_label=False" % l)
                    inv[id(q)] = p
                    exempt.add(id(q))
                else:
                    ctx.ev("item:unify-judged")
                    c = cf(l)
                    if cf(q.label) != c:
                        v("label-changed", "label %r became %r" % (l, q.label))
                        continue
                    g = groups.get(c)
                    if c in pre_multi:
                        ctx.ev("item:ambiguous-label-not-judged-for-identity")
                    elif g is not None and g is not q:
                        v("equal-labels-on-distinct-taxa", "two items labelled %r ended up on two taxon objects" % l)
                    groups[c] = q
                    if c in pre_canon and id(q) not in pre_ids:
                        v("existing-taxon-duplicated", "label %r already had a taxon in the namespace, the item got a new one" % l)
            if nid in post.ns and not (bad & set(["existing-taxon-duplicated", "equal-labels-on-distinct-taxa"])):
                seen = {}
                for t in post.ns[nid][2]:
                    if id(t) in pre_ids or id(t) in exempt:
                        continue
                    c = cf(t.label)
                    if c in pre_canon or c in seen:
                        v("duplicate-taxon-created", "the namespace gained a second taxon for label %r" % t.label)
                        break
                    seen[c] = t
            ok = ok and not bad
        return ok
