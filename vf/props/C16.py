"""C16  Parsimony scores are minimal change counts and pure functions of tree and matrix.

Oracle (independent of DendroPy's Fitch pass and of its alphabets): Sankoff dynamic programming with unit costs on the
spec of the tree; leaf cost 0 inside its state set and infinite outside; symbol -> state-set tables (IUPAC etc.) are
written here.  For <= 5 leaves and <= 4 observed states the DP itself is cross-checked by brute force over all
assignments of states to internal nodes.  Clauses judged per scoring call (hook on parsimony_score):
  minimal        score == sum_c w_c * min #changes(c)
  per-character  score_by_character_list[c] == w_c * min #changes(c), and the list sums to the total
  root/order     the same value after child shuffling and re-rooting (unrooted re-drawing of the same tree)
  pure           scoring the SAME tree object again / after scoring it with other matrices or options (history journal)
                 gives the value of a fresh copy; so does scoring a clone of a tree that was scored before
Soundness limits: fully bifurcating trees only (root of an unrooted tree may be a trifurcation); gaps_as_missing=False
follows the documented convention ('-' extra state, '?' = all states + gap, N/X = all residues without gap); the protein
stop symbol '*' is not generated (whether X covers it is a convention, not part of the statement)."""
import itertools
import random

from .. import ref, gen, bridge, core
from ..mon.hooks import Hooks

PROP = "C16"
LEVEL_TEXT = 'parsimony_score is hooked (history journal per tree object) and every result is compared with an independent Sankoff DP (cross-checked by brute force on small cases) on the same tree/matrix, for DNA/RNA/protein/standard matrices over the full symbol set, weights, both gap treatments, after 0-3 earlier scoring calls on the same object, on clones of scored trees, and after re-rooting/child shuffling.'
LEVEL_NOTE = 'Trusted: the Sankoff oracle and the symbol tables written in the module; bifurcating trees only.'
LEVEL = "exploration"
TECHNIQUE = "runtime monitoring: hook on parsimony_score with history journal per tree object; independent Sankoff/brute-force oracle"
RULE = ("(bifurcating tree shape x rooting) x (data type, matrix over the full symbol set incl. ambiguity codes, gaps, missing) x weights x "
        "gaps_as_missing x history of earlier scoring calls on the same tree object; non-trivial = true score > 0; distinct = (canonical tree, "
        "matrix content, options, history length)")
REACH = ["parsimony:parsimony_score", "parsimony:fitch_down_pass", "charmatrixmodel:DiscreteCharacterMatrix.taxon_state_sets_map",
         "parsimony:fitch_up_pass"]
MIN_EVENTS = {"score-compared-with-oracle": (2000, 20000), "repeat-call-compared": (1500, 15000), "bruteforce-crosscheck": (100, 1000),
              "rerooted-compared": (300, 3000)}
CASE_TIMEOUT = 600
ASSUMPTIONS = ["Sankoff oracle with unit costs equals the Fitch count on bifurcating trees (cross-checked by brute force on small cases)",
               "symbol tables for DNA/RNA/protein/standard are written in the oracle"]

DNA = {"A": "A", "C": "C", "G": "G", "T": "T", "R": "AG", "Y": "CT", "M": "AC", "K": "GT", "S": "CG", "W": "AT",
       "H": "ACT", "B": "CGT", "V": "ACG", "D": "AGT", "N": "ACGT", "X": "ACGT"}
RNA = dict((k.replace("T", "U"), v.replace("T", "U")) for k, v in DNA.items())
AA = "ACDEFGHIKLMNPQRSTVWY"
PROT = dict((a, a) for a in AA)
PROT.update({"B": "DN", "Z": "EQ", "X": AA})
STD = dict((d, d) for d in "0123456789")
TYPES = {"dna": (DNA, "ACGT", "DnaCharacterMatrix"), "rna": (RNA, "ACGU", "RnaCharacterMatrix"),
         "protein": (PROT, AA, "ProteinCharacterMatrix"), "standard": (STD, "0123456789", "StandardCharacterMatrix")}
GAP = "<gap>"


def state_set(sym, table, fundamentals, gaps_as_missing):
    sym = sym.upper()
    if sym == "-":
        return frozenset(fundamentals) if gaps_as_missing else frozenset([GAP])
    if sym == "?":
        return frozenset(fundamentals) if gaps_as_missing else frozenset(list(fundamentals) + [GAP])
    return frozenset(table[sym])


def sankoff(spec, leafsets):
    """min number of changes for one character; leafsets: taxon label -> frozenset of states."""
    states = sorted(set().union(*leafsets.values()), key=str)
    INF = float("inf")
    memo = {}
    for n in ref.postorder(spec):
        if not n[3]:
            ss = leafsets[n[0]]
            memo[id(n)] = [0 if s in ss else INF for s in states]
        else:
            cost = []
            for i, s in enumerate(states):
                tot = 0
                for c in n[3]:
                    cc = memo[id(c)]
                    tot += min(cc[j] + (0 if j == i else 1) for j in range(len(states)))
                cost.append(tot)
            memo[id(n)] = cost
    return min(memo[id(spec)])


def brute(spec, leafsets):
    states = sorted(set().union(*leafsets.values()), key=str)
    nodes = list(ref.preorder(spec))
    pm = ref.parent_map(spec)
    choices = []
    for n in nodes:
        if n[3]:
            choices.append(states)
        else:
            choices.append(sorted(leafsets[n[0]], key=str))
    best = None
    idx = dict((id(n), i) for i, n in enumerate(nodes))
    for assign in itertools.product(*choices):
        ch = 0
        for i, n in enumerate(nodes):
            p = pm[id(n)]
            if p is not None and assign[idx[id(p)]] != assign[i]:
                ch += 1
        if best is None or ch < best:
            best = ch
    return best


def oracle_scores(spec, rows, dtype, gaps_as_missing, ctx=None, crosscheck=False):
    table, fund, _ = TYPES[dtype]
    ncol = len(next(iter(rows.values())))
    out = []
    for c in range(ncol):
        ls = dict((lbl, state_set(seq[c], table, fund, gaps_as_missing)) for lbl, seq in rows.items())
        v = sankoff(spec, ls)
        if crosscheck and len(ls) <= 5 and len(set().union(*ls.values())) <= 4:
            b = brute(spec, ls)
            ctx.ev("bruteforce-crosscheck")
            if b != v:
                raise core.HarnessBug("Sankoff oracle %r != brute force %r" % (v, b))
        out.append(v)
    return out


def random_binary(rng, n, rooted):
    spec = gen.random_spec(rng, n, p_poly=0.0, shape=rng.choice([None, None, "caterpillar", "balanced"]))
    if not rooted and n >= 3 and rng.random() < 0.7:
        # unrooted drawing: basal trifurcation
        a, b = spec[3]
        big = a if a[3] else b
        other = b if big is a else a
        if big[3]:
            spec = ref.S(None, [other] + big[3])
    return spec


def make_matrix(rng, dtype, labels, ncol, ns, style):
    import dendropy
    table, fund, clsname = TYPES[dtype]
    symbols = list(table.keys())
    rows = {}
    base = [rng.choice(fund) for _ in range(ncol)]
    for lbl in labels:
        seq = []
        for c in range(ncol):
            r = rng.random()
            if style == "clean":
                s = base[c] if r < 0.6 else rng.choice(fund)
            elif style == "ambiguous":
                s = base[c] if r < 0.4 else (rng.choice(symbols) if r < 0.85 else rng.choice("-?"))
            else:
                s = rng.choice(symbols + ["-", "?"])
            if rng.random() < 0.1 and s != "X":
                s = s.lower()     # (lower-case 'x' is not a registered synonym in the library: excluded)
            seq.append(s)
        rows[lbl] = "".join(seq)
    cls = getattr(dendropy, clsname)
    m = cls.from_dict(rows, taxon_namespace=ns)
    return m, rows


def cases(tier, seed):
    yield {"kind": "directed-purity", "seed": seed}
    n = 5000 if tier == "quick" else 30000
    for i in range(n):
        yield {"kind": "random", "i": i, "seed": seed}


class Journal(object):
    """history of scoring calls per live tree object (id -> list of call summaries)."""

    def __init__(self):
        self.calls = {}

    def add(self, tree, summary):
        self.calls.setdefault(id(tree), []).append(summary)

    def history(self, tree):
        return list(self.calls.get(id(tree), []))


def run_case(case, ctx):
    import dendropy
    from dendropy.model import parsimony
    rng = random.Random("%s/%s" % (case["seed"], sorted((k, str(v)) for k, v in case.items())))
    journal = Journal()
    with Hooks(ctx) as hooks:
        def pre(obj, args, kw):
            return None

        def post(snap, obj, args, kw, result, exc):
            tree = args[0] if args else kw.get("tree")
            journal.add(tree, {"gaps_as_missing": kw.get("gaps_as_missing", True), "weights": kw.get("weights") is not None,
                               "result": result if exc is None else "raised %s" % type(exc).__name__})
        hooks.install(parsimony, "parsimony_score", pre=pre, post=post)
        if case["kind"] == "directed-purity":
            directed(ctx, rng, journal)
            return
        quick = ctx.tier == "quick"
        n = rng.choice([2, 3, 4, 5, 6, 8, 12]) if quick else rng.choice([2, 3, 4, 5, 6, 9, 15, 30, 60])
        rooted = rng.random() < 0.5
        spec = random_binary(rng, n, rooted)
        labels = sorted(ref.leaf_taxa(spec))
        ns = dendropy.TaxonNamespace(labels)
        tree = bridge.build_tree(spec, ns, rooted)
        ncalls = rng.choice([1, 2, 3, 4])
        for k in range(ncalls):
            dtype = rng.choice(["dna", "dna", "protein", "standard", "rna"])
            ncol = rng.choice([1, 2, 5, 12, 30]) if quick else rng.choice([1, 3, 10, 40, 150, 500])
            if ncol * n > 6000:
                ncol = max(1, 6000 // n)      # keeps the (pure Python) Sankoff oracle within seconds per case
            m, rows = make_matrix(rng, dtype, labels, ncol, ns, rng.choice(["clean", "ambiguous", "wild"]))
            gam = rng.random() < 0.5
            weights = [rng.choice([0, 1, 1, 2, 5]) for _ in range(ncol)] if rng.random() < 0.4 else None
            want_chars = oracle_scores(spec, rows, dtype, gam, ctx, crosscheck=(k == 0))
            w = weights or [1] * ncol
            want = sum(a * b for a, b in zip(want_chars, w))
            det = {"tree": ref.to_newick(spec), "rooted": rooted, "dtype": dtype, "rows": rows if ncol <= 30 else "(%d columns)" % ncol,
                   "gaps_as_missing": gam, "weights": weights if ncol <= 30 else None, "earlier_calls_on_this_tree": journal.history(tree)}
            sbc = []
            ok, got = core.call(ctx, "parsimony_score", parsimony.parsimony_score, tree, m, gaps_as_missing=gam, weights=weights,
                                score_by_character_list=sbc, detail=det)
            if not ok:
                continue
            ctx.ev("score-compared-with-oracle")
            hist = len(journal.history(tree)) - 1
            if got != want:
                # is it the purity clause (a fresh copy scores right) or the value itself?
                fresh = bridge.build_tree(spec, ns, rooted)
                ok2, got2 = core.call(ctx, "parsimony_score", parsimony.parsimony_score, fresh, m, gaps_as_missing=gam, weights=weights)
                if ok2 and got2 == want and hist > 0:
                    ctx.violation("parsimony_score|not-pure|depends-on-earlier-calls-on-the-same-tree",
                                  "score %r after %d earlier call(s); a fresh copy of the tree scores %r (= oracle)" % (got, hist, got2), det)
                else:
                    ctx.violation("parsimony_score|not-minimal|%s" % dtype, "score %r, minimum number of weighted changes %r" % (got, want), det)
                continue
            if len(sbc) != ncol or any(x != a * b for x, a, b in zip(sbc, want_chars, w)):
                ctx.violation("parsimony_score|per-character-list-wrong", "per-character %s, oracle %s" % (sbc[:40], [a * b for a, b in zip(want_chars, w)][:40]), det)
            elif sum(sbc) != got:
                ctx.violation("parsimony_score|per-character-list-does-not-sum-to-total", "%r vs %r" % (sum(sbc), got), det)
            if want > 0:
                ctx.nontrivial((ref.canon(spec, lengths=False), tuple(sorted(rows.items())), gam, tuple(weights or ()), hist))
            # ---- same object scored again immediately
            ok, again = core.call(ctx, "parsimony_score", parsimony.parsimony_score, tree, m, gaps_as_missing=gam, weights=weights)
            ctx.ev("repeat-call-compared")
            if ok and again != got:
                ctx.violation("parsimony_score|not-pure|repeat-call-differs", "%r then %r on the same tree and matrix" % (got, again), det)
            # ---- the down pass called directly, twice, with one caller-owned state-set map (must not be consumed)
            if rng.random() < 0.5:
                tssm = m.taxon_state_sets_map(gaps_as_missing=gam)
                before = dict((t.label, [frozenset(x) for x in v]) for t, v in tssm.items())
                vals = []
                for rep in range(2):
                    ok, v = core.call(ctx, "fitch_down_pass", parsimony.fitch_down_pass, tree.postorder_node_iter(),
                                      state_sets_attr_name=None, taxon_state_sets_map=tssm, weights=weights)
                    if ok:
                        vals.append(v)
                ctx.ev("repeat-call-compared")
                after = dict((t.label, [frozenset(x) for x in v]) for t, v in tssm.items())
                if after != before:
                    ctx.violation("fitch_down_pass|mutates-the-callers-state-set-map", "taxon_state_sets_map changed by the pass", det)
                elif len(vals) == 2 and (vals[0] != want or vals[1] != want):
                    ctx.violation("fitch_down_pass|not-pure|repeat-call-differs", "direct down passes gave %r, oracle %r" % (vals, want), det)
            # ---- clone of a scored tree
            if rng.random() < 0.3:
                clone = dendropy.Tree(tree)
                ok, cs = core.call(ctx, "parsimony_score", parsimony.parsimony_score, clone, m, gaps_as_missing=gam, weights=weights)
                ctx.ev("repeat-call-compared")
                if ok and cs != want:
                    ctx.violation("parsimony_score|not-pure|clone-of-scored-tree", "clone scores %r, oracle %r" % (cs, want), det)
            # ---- root position / child order
            if rng.random() < 0.5:
                s2 = gen.shuffle_children(spec, rng)
                if not rooted or True:
                    # any re-drawing with a bifurcating/trifurcating root is the same unrooted tree; Fitch is root independent
                    internal = [i for i, nd in enumerate(ref.preorder(s2)) if nd[3]]
                    cand = ref.reroot(s2, rng.choice(internal))
                    cand = ref.suppress_unary(cand)
                    if all(len(nd[3]) in (0, 2) or (nd is cand and len(nd[3]) == 3) for nd in ref.preorder(cand)):
                        s2 = cand
                t2 = bridge.build_tree(s2, ns, rooted)
                ok, v2 = core.call(ctx, "parsimony_score", parsimony.parsimony_score, t2, m, gaps_as_missing=gam, weights=weights)
                ctx.ev("rerooted-compared")
                if ok and v2 != got:
                    ctx.violation("parsimony_score|depends-on-root-or-child-order", "%r vs %r" % (got, v2),
                                  dict(det, redrawn=ref.to_newick(s2)))
            # ---- the SAME tree and the SAME matrix object again with the other gap treatment / other weights, and after the
            # matrix was edited in place: the score must follow the arguments of the call, not what an earlier call saw
            if rng.random() < 0.6:
                gam2 = not gam
                want2_chars = oracle_scores(spec, rows, dtype, gam2)
                w2 = [rng.choice([0, 1, 3]) for _ in range(ncol)] if rng.random() < 0.5 else None
                want2 = sum(a * b for a, b in zip(want2_chars, w2 or [1] * ncol))
                ok, got2 = core.call(ctx, "parsimony_score", parsimony.parsimony_score, tree, m, gaps_as_missing=gam2, weights=w2, detail=det)
                ctx.ev("repeat-call-compared")
                if ok and got2 != want2:
                    ctx.violation("parsimony_score|not-pure|same-matrix-object-other-options",
                                  "same tree and matrix object scored with gaps_as_missing=%s after gaps_as_missing=%s: %r, minimum is %r" % (gam2, gam, got2, want2),
                                  dict(det, second_call={"gaps_as_missing": gam2, "weights": w2 if ncol <= 30 else None}))
                # in-place edit of one cell
                victim = rng.choice(labels)
                col = rng.randrange(ncol)
                table, fund, _ = TYPES[dtype]
                newsym = rng.choice(fund)
                seq = m[ns.get_taxon(victim)]
                try:
                    seq[col] = m.default_state_alphabet[newsym]
                except Exception:
                    seq = None
                if seq is not None:
                    rows3 = dict(rows)
                    rows3[victim] = rows[victim][:col] + newsym + rows[victim][col + 1:]
                    want3 = sum(oracle_scores(spec, rows3, dtype, gam))
                    ok, got3 = core.call(ctx, "parsimony_score", parsimony.parsimony_score, tree, m, gaps_as_missing=gam, detail=det)
                    ctx.ev("repeat-call-compared")
                    if ok and got3 != want3:
                        ctx.violation("parsimony_score|not-pure|matrix-edited-in-place-between-calls",
                                      "after setting cell (%s, %d) to %s the same tree/matrix objects score %r, minimum is %r" % (victim, col, newsym, got3, want3), det)
                    rows = rows3
        # fitch_up_pass must run on a freshly scored binary rooted tree without error (reach, no oracle claimed)
        if all(len(nd[3]) in (0, 2) for nd in ref.preorder(spec)):
            core.call(ctx, "fitch_up_pass", parsimony.fitch_up_pass, tree.preorder_node_iter())
        if case["i"] < 3:
            ctx.sample({"tree": ref.to_newick(spec), "calls": journal.history(tree), "last_matrix": rows if ncol <= 12 else "%d cols" % ncol})


def directed(ctx, rng, journal):
    """the canonical witness of the caching mechanism: matrix 1 (score 0) then matrix 2 (score 3) on one tree object."""
    import dendropy
    from dendropy.model import parsimony
    spec = gen.shape_to_spec(((0, 1), (2, 3)))
    labels = sorted(ref.leaf_taxa(spec))
    ns = dendropy.TaxonNamespace(labels)
    tree = bridge.build_tree(spec, ns, True)
    m1 = dendropy.DnaCharacterMatrix.from_dict(dict((l, "AAA") for l in labels), taxon_namespace=ns)
    rows2 = {"T0": "ACA", "T1": "CCG", "T2": "AAG", "T3": "CAA"}
    m2 = dendropy.DnaCharacterMatrix.from_dict(rows2, taxon_namespace=ns)
    want2 = sum(oracle_scores(spec, rows2, "dna", True, ctx, True))
    s1 = parsimony.parsimony_score(tree, m1)
    s2 = parsimony.parsimony_score(tree, m2)
    ctx.ev("score-compared-with-oracle")
    ctx.ev("repeat-call-compared")
    det = {"tree": ref.to_newick(spec), "matrix1": "all AAA", "matrix2": rows2, "calls": journal.history(tree)}
    if s1 != 0:
        ctx.violation("parsimony_score|not-minimal|dna", "constant matrix scores %r" % s1, det)
    if s2 != want2:
        ctx.violation("parsimony_score|not-pure|depends-on-earlier-calls-on-the-same-tree",
                      "second matrix scores %r on a tree scored before, %r by definition" % (s2, want2), det)
    c = dendropy.Tree(tree)
    s3 = parsimony.parsimony_score(c, m1)
    if s3 != 0:
        ctx.violation("parsimony_score|not-pure|clone-of-scored-tree", "clone scores %r for the constant matrix" % s3, det)
    ctx.sample({"kind": "directed-purity", "tree": ref.to_newick(spec), "scores": [s1, s2, s3], "oracle_second": want2})
    ctx.nontrivial(("directed", 1))
    ctx.nontrivial(("directed", 2))
