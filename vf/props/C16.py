"""C16  Parsimony scores are minimal change counts and pure functions of tree and matrix.

Oracle (independent of DendroPy's Fitch pass and of its alphabets, _c16_lib): Sankoff dynamic programming with unit costs on the
spec of the tree; leaf cost 0 inside its state set and infinite outside; symbol -> state-set tables (IUPAC etc.) are written by hand,
those of generated alphabets are kept while the alphabet is declared.  For <= 5 leaves and <= 4 observed states the DP is
cross-checked by brute force over all assignments of states to internal nodes.

Every case is a HISTORY of operations on one tree object (and on copies made of it on the way):
  score        parsimony_score with a new matrix / the same matrix object again; every option (gaps_as_missing, weights,
               score_by_character_list) omitted, by keyword or positional; through model.parsimony or calculate.treescore
  direct pass  taxon_state_sets_map + fitch_down_pass with state_sets_attr_name None / a name never used on this object / the
               default name on an object that never carried it; nodes as generator or list, positional, by keyword or through the
               legacy keyword postorder_nodes; the same caller-owned map used twice
  in between   fitch_up_pass, calls that fail half-way, in-place edits of the matrix, re-rooting / re-seeding / child shuffling /
               pruning of the SCORED object through the library, copies (Tree(), clone(0/1), copy.copy, extract_tree, TreeList copy,
               deepcopy of (tree, matrix)) on which the history continues
Clauses judged for every value-returning operation against the oracle of the CURRENT structure (read back from the raw child lists):
  minimal        score == sum_c w_c * min #changes(c)      (weights: ints, dyadic floats, ints > 2**31, Fractions; list or tuple)
  per-character  score_by_character_list[c] == w_c * min #changes(c), and the list sums to the total
  root/order     the same value on a fresh tree after child shuffling and re-rooting, rooting flag drawn independently
  pure           value of a fresh copy whatever happened to the object before
Soundness limits: fully bifurcating trees only (the root may be a trifurcation = unrooted drawing); gaps_as_missing=False follows
the documented convention ('-' extra state, '?' = all states + gap, N/X = all residues without gap); the protein stop symbol '*' is
not generated; generated multistates never contain the gap state; a direct pass that re-uses an attribute name already present on the
nodes is NOT judged (documented: stored state sets are re-used); fitch_up_pass is entered but nothing is demanded of it; whether the
caller's state-set map is touched is only reported when a value is wrong as well."""
import copy
import fractions
import random
import warnings

from .. import ref, gen, bridge, core
from ..mon.hooks import Hooks
from . import _c16_lib as lib
from ._c16_lib import oracle_scores

PROP = "C16"
LEVEL_TEXT = ('parsimony_score (both entry points) is hooked (history journal per tree object) and every result of parsimony_score and of a direct '
              'taxon_state_sets_map + fitch_down_pass is compared with an independent Sankoff DP (cross-checked by brute force on small cases) on '
              'the structure the tree has at that moment, for all seven built-in discrete matrix types, generated alphabets with nested / '
              'symbol-less ambiguous and polymorphic states, matrices parsed from NEXUS with {..} and (..) cells, integer / dyadic / big / '
              'Fraction weights, both gap treatments incl. the default, every way of passing the options, namespaces larger than the tree, '
              'n = 1 and 0 columns, inside histories of scoring calls, up passes, failing calls, matrix edits, in-place re-rooting / pruning and copies, '
              'and alphabets that gain fundamental states after matrices over them were scored.')
LEVEL_NOTE = 'Trusted: the Sankoff oracle and the symbol tables written in the module; bifurcating trees only.'
LEVEL = "exploration"
TECHNIQUE = ("runtime monitoring: generated operation histories on one tree object; hook on parsimony_score with history journal per tree object; "
             "independent Sankoff/brute-force oracle on the structure read back from the raw child lists")
RULE = ("(bifurcating tree shape incl. a single leaf x rooting flag True/False/None x namespace with extra taxa) x (matrix type: 7 built-in, generated "
        "alphabet, NEXUS-parsed; matrix over the full symbol set incl. ambiguity codes, multistates, gaps, missing; 0..n columns) x weight vector "
        "class x gaps_as_missing incl. default x way of passing options x entry point x history of earlier operations on the same tree object "
        "| Standard alphabet of 1-3 symbols, scored, then grown by 1-4 fundamental states in 1-2 rounds, a new matrix with ? and - scored after each; "
        "non-trivial = true score > 0; distinct = (canonical tree, matrix content, options, history)")
REACH = ["parsimony:parsimony_score", "parsimony:fitch_down_pass", "charmatrixmodel:DiscreteCharacterMatrix.taxon_state_sets_map",
         "parsimony:fitch_up_pass", "parsimony:_retrieve_state_sets_from_attr", "parsimony:_NodeStateSetMap.__getitem__",
         "charstatemodel:StateIdentity._get_fundamental_states", "charstatemodel:StateIdentity._get_fundamental_indexes_with_gaps_as_missing",
         "charstatemodel:StateAlphabet.new_multistate", "nexusreader:NexusReader._get_state_for_multistate_tokens"]
MIN_EVENTS = {"tree-with-taxa-on-internal-nodes-that-have-matrix-rows": (600, 1000), "alphabet-grown": (150, 1000),
    "alphabet-grown-score-compared:after-growth-1": (250, 1800), "alphabet-grown-score-compared:before": (200, 1500),
    # (quick, thorough): about 40-45 % of what clean runs observe
    "score-compared-with-oracle": (11000, 22000), "repeat-call-compared": (8000, 17000), "bruteforce-crosscheck": (12000, 25000),
    "rerooted-compared": (1300, 2800), "per-character-list-compared": (11000, 22000), "per-character-list-compared-on-used-object": (6000, 13000),
    # option defaults / ways of writing the call / entry points
    "default-gap-treatment-decisive": (800, 2000), "default-gap-treatment-in-state-set-map": (250, 650),
    "options-passed-positionally": (5500, 11000), "entry-point-calculate.treescore": (4500, 9000),
    # weight vectors
    "non-integer-weight-decides": (2200, 4800), "weights-beyond-32-bit-decide": (700, 1500), "weights-as-tuple": (3000, 5800),
    # matrix types and symbol sets
    "kind:dna": (700, 1300), "kind:rna": (330, 650), "kind:protein": (350, 650), "kind:standard": (330, 650), "kind:nucleotide": (700, 1300),
    "kind:restriction": (330, 650), "kind:infinite": (350, 620), "kind:custom": (1700, 3100), "kind:dna-nexus": (400, 800),
    "kind:standard-nexus": (420, 800), "kind:binary+gap+missing": (170, 340), "kind:binary+missing": (100, 170),
    "kind:binary+gap-without-missing": (100, 160), "matrix-over-alphabet-with-nested-multistates": (750, 1400),
    "matrix-with-rows-for-taxa-not-on-the-tree": (1800, 3300), "matrix-with-zero-columns": (500, 750), "single-leaf-tree-scored": (700, 1100),
    # the direct route
    "direct-pass-compared": (2800, 5800), "direct-pass-with-new-attribute-name-on-scored-tree": (1100, 2600),
    "direct-pass-through-legacy-keyword": (800, 1600),
    # histories
    "scored-after:score": (3000, 6500), "scored-after:up-pass": (420, 900), "scored-after:matrix-edited-in-place": (400, 850),
    "scored-after:reroot_at_node": (120, 230), "scored-after:reroot_at_edge": (115, 250), "scored-after:reseed_at": (100, 220),
    "scored-after:shuffle-children": (120, 250), "scored-after:prune-leaf": (115, 250), "tree-object-changed-in-place": (1000, 2200),
    "scored-after:failed-call(short-weights)": (100, 210), "scored-after:failed-call(foreign-namespace)": (100, 220),
    "scored-after:failed-call(non-empty-list)": (100, 220), "scored-after:failed-call(map-without-some-leaf)": (100, 230),
    "scored-after:failed-call(short-map-rows)": (100, 230), "failing-call-raised": (550, 1300),
    "scored-after:direct-pass(default)": (60, 100), "scored-after:direct-pass(default)-on-stored-sets": (80, 170),
    "scored-after:direct-pass(fresh-name)": (850, 1700), "scored-after:direct-pass(none)": (580, 1100),
    "history-continues-on-copy": (1200, 2800), "scored-after:copy:Tree(tree)": (160, 400), "scored-after:copy:clone(0)": (160, 400),
    "scored-after:copy:clone(1)": (160, 400), "scored-after:copy:copy.copy": (160, 400), "scored-after:copy:extract_tree": (150, 390),
    "scored-after:copy:TreeList-copy": (160, 400), "scored-after:copy:deepcopy-with-matrix": (160, 400),
    "up-pass-between-calls": (700, 1600),
}
CASE_TIMEOUT = 600
ASSUMPTIONS = ["Sankoff oracle with unit costs equals the Fitch count on bifurcating trees (cross-checked by brute force on small cases)",
               "symbol tables for DNA/RNA/nucleotide/protein/standard/binary are written in the oracle; tables of generated alphabets are the "
               "unions of the declared members",
               "the structure of a tree object changed in place is read back from its raw child lists (bridge.extract)"]

GAP = lib.GAP
_SILENCED = [False]


def _silence_deprecations():
    if not _SILENCED[0]:
        from dendropy.utility import deprecate
        deprecate.configure_deprecation_warning_behavior("ignore")
        _SILENCED[0] = True


def random_binary(rng, n, rooted):
    if n == 1:
        return ref.S(gen.tname(0))
    spec = gen.random_spec(rng, n, p_poly=0.0, shape=rng.choice([None, None, "caterpillar", "balanced"]))
    if not rooted and n >= 3 and rng.random() < 0.7:
        # unrooted drawing: basal trifurcation
        a, b = spec[3]
        big = a if a[3] else b
        other = b if big is a else a
        if big[3]:
            spec = ref.S(None, [other] + big[3])
    return spec


def is_fitch_shape(spec):
    """every internal node has two children; the root may have three (unrooted drawing)."""
    for nd in ref.preorder(spec):
        k = len(nd[3])
        if k in (0, 2) or (nd is spec and k == 3):
            continue
        return False
    return all(nd[0] is not None for nd in ref.preorder(spec) if not nd[3]) and all(nd[0] is None for nd in ref.preorder(spec) if nd[3])


def cases(tier, seed):
    yield {"kind": "directed-purity", "seed": seed}
    n = 9000 if tier == "quick" else 15000
    for i in range(n):
        yield {"kind": "random", "i": i, "seed": seed}
    for i in range(300 if tier == "quick" else 2000):
        yield {"kind": "alphabet-grown", "i": i, "seed": seed}


class Journal(object):
    """history of scoring calls per live tree object (id -> list of call summaries)."""

    def __init__(self):
        self.calls = {}

    def add(self, tree, summary):
        self.calls.setdefault(id(tree), []).append(summary)

    def history(self, tree):
        return list(self.calls.get(id(tree), []))


def _jsonable(x):
    if isinstance(x, fractions.Fraction):
        return str(x)
    if isinstance(x, (list, tuple)):
        return [_jsonable(y) for y in x]
    return x


WEIGHT_CLASSES = ["none", "none", "none", "ints", "ints", "dyadic", "dyadic", "bigint", "fraction"]


def make_weights(rng, wclass, ncol):
    if wclass == "none":
        return None
    if wclass == "ints":
        w = [rng.choice([0, 1, 1, 2, 5]) for _ in range(ncol)]
    elif wclass == "dyadic":
        w = [rng.choice([0.0, 0.25, 0.5, 0.5, 1.5, 2.75]) for _ in range(ncol)]
    elif wclass == "bigint":
        w = [rng.choice([0, 2 ** 31 + 1, 2 ** 31 + rng.randrange(7), 2 ** 40]) for _ in range(ncol)]
    else:
        w = [fractions.Fraction(rng.randrange(0, 8), rng.choice([1, 2, 3, 7])) for _ in range(ncol)]
    return tuple(w) if rng.random() < 0.4 else w


class ScoreCall(object):
    """one way of writing parsimony_score(tree, chars, gaps_as_missing, weights, score_by_character_list)."""

    def __init__(self, rng, ncol):
        self.npos = rng.choice([0, 0, 0, 1, 2, 3])
        self.gam = rng.random() < 0.5
        self.omit_gam = False
        if self.npos == 0 and rng.random() < 0.45:
            self.gam, self.omit_gam = True, True
        self.wclass = rng.choice(WEIGHT_CLASSES)
        self.weights = make_weights(rng, self.wclass, ncol)
        self.want_list = rng.random() < 0.75
        self.entry = rng.choice(["model.parsimony", "model.parsimony", "calculate.treescore"])
        self.kw_weights_none = rng.random() < 0.5
        self.kw_list_none = rng.random() < 0.3
        self.kw_tree = self.npos == 0 and rng.random() < 0.1

    def route(self):
        return "gaps_as_missing=%s,positional-options=%d,weights=%s%s,entry=%s" % (
            "omitted" if self.omit_gam else "given", self.npos, self.wclass,
            "" if self.weights is None else ("-tuple" if isinstance(self.weights, tuple) else "-list"), self.entry)

    def build(self, tree, m):
        sbc = [] if self.want_list else None
        vals = [self.gam, self.weights, sbc]
        names = ["gaps_as_missing", "weights", "score_by_character_list"]
        args = [] if self.kw_tree else [tree, m]
        kw = {"tree": tree, "chars": m} if self.kw_tree else {}
        args += vals[:self.npos]
        for i in range(self.npos, 3):
            if i == 0:
                if not self.omit_gam:
                    kw[names[0]] = self.gam
            elif i == 1:
                if self.weights is not None or self.kw_weights_none:
                    kw[names[1]] = self.weights
            else:
                if sbc is not None or self.kw_list_none:
                    kw[names[2]] = sbc
        return args, kw, sbc

    def describe(self, ncol):
        return {"gaps_as_missing": "(omitted)" if self.omit_gam else self.gam, "positional_options": self.npos,
                "weights": _jsonable(self.weights) if ncol <= 30 else "(%s, %d)" % (self.wclass, ncol), "entry": self.entry,
                "per_character_list": self.want_list}


class Mat(object):
    def __init__(self, m, rows, kind, ncol, order, ns, serial):
        self.m, self.rows, self.kind, self.ncol, self.order, self.ns, self.serial = m, rows, kind, ncol, order, ns, serial
        self.version = 0


class Obj(object):
    """a live tree object with what happened to it."""
    _serial = [0]

    def __init__(self, tree, cur, rooted, ns, used=(), has_default_attr=False):
        self.tree, self.cur, self.rooted, self.ns = tree, cur, rooted, ns
        Obj._serial[0] += 1
        self.serial = Obj._serial[0]
        self.used = list(used)
        self.has_default_attr = has_default_attr
        self.spec_version = 0


class History(object):
    def __init__(self, ctx, rng, journal, case):
        import dendropy
        from dendropy.model import parsimony
        from dendropy.calculate import treescore
        self.ctx, self.rng, self.journal, self.case = ctx, rng, journal, case
        self.dendropy = dendropy
        self.mods = {"model.parsimony": parsimony, "calculate.treescore": treescore}
        self.parsimony = parsimony
        self.quick = ctx.tier == "quick"
        n = rng.choice([1, 2, 2, 3, 3, 4, 4, 5, 5, 6, 6, 8, 8, 12, 12]) if self.quick else rng.choice([1, 2, 2, 3, 3, 4, 4, 5, 5, 6, 6, 9, 9, 15, 15, 30, 30, 60, 60])
        rooted = rng.choice([True, False, None])
        spec = random_binary(rng, n, rooted)
        self.n = n
        self.row_labels = sorted(ref.leaf_taxa(spec))
        self.extra = []
        if rng.random() < 0.3:
            self.extra = ["X%d" % i for i in range(rng.choice([1, 2, 3]))]
        if self.extra and rng.random() < 0.6:
            # taxa on INTERNAL nodes that have rows in the matrix (labelled ancestors kept in the alignment): the score is
            # the minimum over all assignments of states to internal nodes - their rows are not data (seeded change C16e)
            inner = [nd for nd in ref.preorder(spec) if nd[3]]
            for lab, nd in zip(self.extra, rng.sample(inner, min(len(inner), len(self.extra)))):
                nd[0] = lab
            ctx.ev("tree-with-taxa-on-internal-nodes-that-have-matrix-rows")
        nslabels = self._interleave(self.row_labels, self.extra)
        ns = dendropy.TaxonNamespace(nslabels)
        self.obj = Obj(bridge.build_tree(spec, ns, rooted), spec, rooted, ns)
        self.mat = None
        self.nmat = 0
        self.attr_counter = 0
        self.oracle_cache = {}
        self.last_call = None
        self.first_oracle = True
        self.stopped = False

    # ---------------------------------------------------------------- helpers
    def _interleave(self, labels, extra):
        rng = self.rng
        how = rng.choice(["first", "last", "mixed"])
        if not extra:
            out = list(labels)
            if rng.random() < 0.3:
                rng.shuffle(out)
            return out
        if how == "first":
            return list(extra) + list(labels)
        if how == "last":
            return list(labels) + list(extra)
        out = list(labels) + list(extra)
        rng.shuffle(out)
        return out

    def guarded(self, op, fn, args, kw, detail_fn):
        """core.call with the witness built only when it is needed."""
        try:
            return True, fn(*args, **kw)
        except core.CaseTimeout:
            raise
        except Exception as e:
            self.ctx.unexpected(op, e, detail_fn())
            return False, e

    def want_chars(self, obj, mat, gam):
        key = (obj.serial, obj.spec_version, mat.serial, mat.version, gam)
        v = self.oracle_cache.get(key)
        if v is None:
            v = oracle_scores(obj.cur, mat.rows, mat.kind, gam, self.ctx, crosscheck=self.first_oracle)
            self.first_oracle = False
            self.oracle_cache[key] = v
        return v

    def det(self, obj, mat, extra=None):
        d = {"tree": ref.to_newick(obj.cur), "rooted": obj.rooted, "dtype": mat.kind.name,
             "rows": dict((k, "".join(v)) for k, v in mat.rows.items()) if mat.ncol <= 30 else "(%d columns)" % mat.ncol,
             "row_order": mat.order if len(mat.order) <= 20 else None,
             "operations_on_this_tree_object_so_far": list(obj.used), "earlier_scoring_calls_on_this_tree": self.journal.history(obj.tree)[-6:]}
        if getattr(mat.kind, "note", None):
            d["alphabet"] = mat.kind.note
        if mat.kind.name == "custom":
            d["alphabet"] = dict((k, sorted(v)) for k, v in mat.kind.table.items())
        if extra:
            d.update(extra)
        return d

    def new_matrix(self, ns=None):
        rng = self.rng
        ns = ns if ns is not None else self.obj.ns
        self.nmat += 1
        kind = lib.draw_kind(rng, self.nmat)
        ncol = rng.choice([0, 1, 1, 2, 2, 5, 5, 12, 12, 30, 30]) if self.quick else rng.choice([0, 1, 1, 3, 3, 10, 10, 40, 40, 150, 150, 500, 500])
        if ncol * self.n > 6000:
            ncol = max(1, 6000 // self.n)      # keeps the (pure Python) Sankoff oracle within seconds per case
        if ncol == 0 and kind.name.endswith("-nexus"):
            ncol = 1
        style = rng.choice(["clean", "ambiguous", "ambiguous", "wild", "wild", "constant"])
        labels = self.row_labels + self.extra
        rows = lib.make_rows(rng, kind, labels, ncol, style)
        order = self._interleave(self.row_labels, self.extra)
        ok, m = core.call(self.ctx, "build-matrix[%s]" % kind.name, lib.build_matrix, rng, kind, rows, order, ns,
                          detail={"dtype": kind.name, "rows": dict((k, "".join(v)) for k, v in rows.items()) if ncol <= 30 else None})
        if not ok:
            self.stopped = True
            return None
        self.ctx.ev("kind:%s" % kind.name)
        if getattr(kind, "nested", 0):
            self.ctx.ev("matrix-over-alphabet-with-nested-multistates")
        if self.extra:
            self.ctx.ev("matrix-with-rows-for-taxa-not-on-the-tree")
        if ncol == 0:
            self.ctx.ev("matrix-with-zero-columns")
        return Mat(m, rows, kind, ncol, order, ns, self.nmat)

    def has_gap_cell(self, obj, mat):
        g = mat.kind.gap
        if g is None:
            return False
        leaves = ref.leaf_taxa(obj.cur)
        return any(g in mat.rows[l] for l in leaves)

    # ---------------------------------------------------------------- parsimony_score, judged
    def score(self, obj, mat, call):
        """call parsimony_score as `call` says and judge value, per-character list and their sum.  Returns the value or None."""
        ctx = self.ctx
        args, kw, sbc = call.build(obj.tree, mat.m)
        fn = self.mods[call.entry].parsimony_score
        want_chars = self.want_chars(obj, mat, call.gam)
        w = call.weights if call.weights is not None else [1] * mat.ncol
        want_list = [a * b for a, b in zip(want_chars, w)]
        want = sum(want_list)
        used_before = list(obj.used)
        ok, got = self.guarded("parsimony_score", fn, args, kw,
                               lambda: self.det(obj, mat, {"call": call.describe(mat.ncol), "operations_before": used_before}))
        obj.used.append("score")
        obj.has_default_attr = True
        if not ok:
            ctx.ev("judged-call-raised")
            return None
        ctx.ev("score-compared-with-oracle")
        if used_before:
            ctx.ev("repeat-call-compared")
            ctx.ev("scored-after:%s" % used_before[-1])
        if call.entry != "model.parsimony":
            ctx.ev("entry-point-calculate.treescore")
        if call.npos:
            ctx.ev("options-passed-positionally")
        if call.wclass in ("dyadic", "fraction") and any(a and b != int(b) for a, b in zip(want_chars, w)):
            ctx.ev("non-integer-weight-decides")
        if call.wclass == "bigint" and want > 2 ** 31:
            ctx.ev("weights-beyond-32-bit-decide")
        if isinstance(call.weights, tuple):
            ctx.ev("weights-as-tuple")
        if call.omit_gam and self.has_gap_cell(obj, mat):
            other = self.want_chars(obj, mat, False)
            if sum(a * b for a, b in zip(other, w)) != want:
                ctx.ev("default-gap-treatment-decisive")
        if self.n == 1:
            ctx.ev("single-leaf-tree-scored")
        if got != want:
            key, why = self.diagnose_score(obj, mat, call, want, want_chars, used_before)
            ctx.violation(key, "score %r, minimum number of weighted changes %r%s" % (got, want, why),
                          self.det(obj, mat, {"call": call.describe(mat.ncol)}))
            return got
        if sbc is not None:
            ctx.ev("per-character-list-compared")
            if used_before:
                ctx.ev("per-character-list-compared-on-used-object")
            if len(sbc) != mat.ncol or any(x != y for x, y in zip(sbc, want_list)):
                k = "parsimony_score|per-character-list-wrong"
                if used_before:
                    # the history, or the list as such?  (the same call on a fresh copy of the tree)
                    a2, k2, sbc2 = call.build(bridge.build_tree(obj.cur, mat.ns, obj.rooted), mat.m)
                    try:
                        self.mods[call.entry].parsimony_score(*a2, **k2)
                    except Exception:
                        sbc2 = None
                    if sbc2 is not None and len(sbc2) == mat.ncol and all(x == y for x, y in zip(sbc2, want_list)):
                        k += "|not-pure|after-%s" % used_before[-1]
                ctx.violation(k, "per-character %s, oracle %s" % (_jsonable(sbc[:40]), _jsonable(want_list[:40])),
                              self.det(obj, mat, {"call": call.describe(mat.ncol)}))
            elif sum(sbc) != got:
                ctx.violation("parsimony_score|per-character-list-does-not-sum-to-total", "%r vs %r" % (sum(sbc), got),
                              self.det(obj, mat, {"call": call.describe(mat.ncol)}))
        if want > 0:
            ctx.nontrivial((ref.canon(obj.cur, lengths=False), mat.kind.name, tuple(sorted((k, tuple(v)) for k, v in mat.rows.items())),
                            call.gam, call.wclass, tuple(used_before)))
        return got

    def diagnose_score(self, obj, mat, call, want, want_chars, used_before):
        """which clause failed?  (extra calls on FRESH trees; only names the key of an established violation)"""
        P = self.parsimony

        def fresh():
            return bridge.build_tree(obj.cur, mat.ns, obj.rooted)

        def quiet(fn, *a, **k):
            try:
                return fn(*a, **k)
            except Exception as e:
                return "raised %s" % type(e).__name__
        if used_before:
            a, k, _ = call.build(fresh(), mat.m)
            same_route_on_fresh = quiet(self.mods[call.entry].parsimony_score, *a, **k)
            if same_route_on_fresh == want:
                return ("parsimony_score|not-pure|after-%s" % used_before[-1],
                        " after %s on the same tree object; a fresh copy of the tree scores %r (= oracle)" % (used_before, same_route_on_fresh))
        kw = {"gaps_as_missing": call.gam}
        if call.weights is not None:
            kw["weights"] = list(call.weights)
        canonical = quiet(P.parsimony_score, fresh(), mat.m, **kw)
        if canonical == want:
            if call.omit_gam:
                c2 = copy.copy(call)
                c2.omit_gam = False      # the same call with gaps_as_missing=True written out
                a, k, _ = c2.build(fresh(), mat.m)
                explicit = quiet(self.mods[call.entry].parsimony_score, *a, **k)
                if explicit == want:
                    return ("parsimony_score|default-of-gaps_as_missing-is-not-True",
                            "; gaps_as_missing omitted (documented default True); with gaps_as_missing=True given the score is %r" % (explicit,))
            return ("parsimony_score|depends-on-how-the-call-is-written|options-%s,entry=%s" % ("positional" if call.npos else "by-keyword", call.entry),
                    "; parsimony_score(tree, chars, gaps_as_missing=.., weights=[..]) on a fresh tree gives %r; the call was written as %s" % (canonical, call.route()))
        if call.weights is not None:
            unweighted = quiet(P.parsimony_score, fresh(), mat.m, gaps_as_missing=call.gam)
            if unweighted == sum(want_chars):
                return ("parsimony_score|weights-not-applied-as-given|%s" % call.wclass, "; the unweighted score %r is right" % (unweighted,))
        why = lib.library_state_sets_differ(mat.kind, mat.m, mat.rows, call.gam, set(ref.leaf_taxa(obj.cur)))
        if why:
            return ("parsimony_score|state-set-of-a-symbol-wrong|%s" % mat.kind.name, "; state set of cell %s" % why)
        return "parsimony_score|not-minimal|%s" % mat.kind.name, ""

    # ---------------------------------------------------------------- operations
    def op_score_new(self):
        mat = self.new_matrix()
        if mat is None:
            return
        self.mat = mat
        call = ScoreCall(self.rng, mat.ncol)
        self.last_call = call
        self.score(self.obj, mat, call)

    def op_score_same_matrix(self):
        """the SAME tree and the SAME matrix object, other options: the score follows the arguments of this call."""
        mat = self.mat
        call = ScoreCall(self.rng, mat.ncol)
        self.last_call = call
        self.score(self.obj, mat, call)

    def op_repeat(self):
        got1 = self.score(self.obj, self.mat, self.last_call)
        return got1

    def op_edit_cell(self):
        mat, rng = self.mat, self.rng
        if mat.ncol == 0:
            return
        victim = rng.choice(mat.order)
        col = rng.randrange(mat.ncol)
        tok = rng.choice(list(mat.kind.table.keys()) + [t for t in (mat.kind.gap, mat.kind.missing) if t is not None])
        if tok.startswith("{") or tok.startswith("("):
            tok = rng.choice(mat.kind.plain_tokens())
        try:
            seq = mat.m[mat.ns.get_taxon(victim)]
            seq[col] = lib.library_state(mat.kind, mat.m, tok)
        except Exception as e:
            self.ctx.note("matrix-cell-edit-raised:%s" % type(e).__name__)
            self.stopped = True      # the matrix may be half-edited: nothing more can be judged with it
            return
        rows = dict(mat.rows)
        rows[victim] = mat.rows[victim][:col] + [tok] + mat.rows[victim][col + 1:]
        mat.rows = rows
        mat.version += 1
        self.obj.used.append("matrix-edited-in-place")
        self.ctx.ev("matrix-edited-in-place")

    def _tssm(self, mat, gam, mode):
        if mode == "omitted":
            return mat.m.taxon_state_sets_map()
        if mode == "positional":
            return mat.m.taxon_state_sets_map(None, gam)
        return mat.m.taxon_state_sets_map(gaps_as_missing=gam)

    def op_direct_pass(self):
        """taxon_state_sets_map + fitch_down_pass called by hand, twice with one caller-owned map."""
        ctx, rng, obj, mat = self.ctx, self.rng, self.obj, self.mat
        tssm_mode = rng.choice(["omitted", "keyword", "keyword", "positional"])
        gam = True if tssm_mode == "omitted" else (rng.random() < 0.5)
        wclass = rng.choice(WEIGHT_CLASSES)
        weights = make_weights(rng, wclass, mat.ncol)
        entry = rng.choice(["model.parsimony", "model.parsimony", "calculate.treescore"])
        attr_mode = rng.choice(["none", "none", "fresh-name", "fresh-name", "default", "default-explicit"])
        judged = True
        if attr_mode.startswith("default") and obj.has_default_attr:
            if rng.random() < 0.6:
                attr_mode = "fresh-name"
            else:
                judged = False       # documented: state sets stored on the nodes are re-used - nothing to demand
        node_mode = rng.choice(["positional-iter", "positional-iter", "positional-list", "keyword-iter", "keyword-list", "legacy-iter", "legacy-list"])
        npos = rng.choice([0, 0, 1, 2, 3, 4]) if node_mode.startswith("positional") else 0
        want_list = rng.random() < 0.5
        want_chars = self.want_chars(obj, mat, gam)
        w = weights if weights is not None else [1] * mat.ncol
        wl = [a * b for a, b in zip(want_chars, w)]
        want = sum(wl)
        route = "nodes=%s,attr=%s,map-gaps_as_missing=%s,positional-options=%d,weights=%s,entry=%s" % (node_mode, attr_mode, tssm_mode, npos, wclass, entry)
        ok, tssm = self.guarded("taxon_state_sets_map", self._tssm, (mat, gam, tssm_mode), {}, lambda: self.det(obj, mat, {"direct_pass": route}))
        if not ok:
            return
        if mat.ncol:
            before = dict((t.label, [frozenset(x) for x in v]) for t, v in tssm.items())
        used_before = list(obj.used)

        def one_call(tree, the_map, attr):
            sbc = [] if want_list else None
            nodes = tree.postorder_node_iter()
            if node_mode.endswith("list"):
                nodes = list(nodes)
            vals = [attr, the_map, weights, sbc]
            names = ["state_sets_attr_name", "taxon_state_sets_map", "weights", "score_by_character_list"]
            kw = {}
            if node_mode.startswith("positional"):
                args = [nodes] + vals[:npos]
            elif node_mode.startswith("keyword"):
                args = []
                kw["postorder_node_iter"] = nodes
            else:
                args = [None]
                kw["postorder_nodes"] = nodes
            for i in range(npos, 4):
                if i == 0 and attr_mode == "default":
                    continue
                if i == 2 and weights is None:
                    continue
                if i == 3 and sbc is None:
                    continue
                kw[names[i]] = vals[i]
            fn = self.mods[entry].fitch_down_pass
            with warnings.catch_warnings():
                warnings.simplefilter("ignore")
                return fn(*args, **kw), sbc

        def next_attr():
            if attr_mode == "none":
                return None
            if attr_mode.startswith("default"):
                return "state_sets"
            self.attr_counter += 1
            return "c16_states_%d" % self.attr_counter
        op = "fitch_down_pass[legacy-keyword-postorder_nodes]" if node_mode.startswith("legacy") else "fitch_down_pass"
        vals = []
        reps = 2 if (judged and attr_mode in ("none", "fresh-name")) else 1
        if not judged:
            # documented re-use of the state sets stored on the nodes (possibly of another matrix, another number of columns):
            # neither the value nor an exception means anything here; the NEXT parsimony_score has to be right
            try:
                one_call(obj.tree, tssm, next_attr())
                ctx.ev("direct-pass-on-stored-state-sets-not-judged")
            except core.CaseTimeout:
                raise
            except Exception as e:
                ctx.ev("direct-pass-on-stored-state-sets-not-judged")
                ctx.note("direct-pass-on-stored-state-sets-raised:%s" % type(e).__name__)
            obj.used.append("direct-pass(%s)-on-stored-sets" % attr_mode)
            return
        for rep in range(reps):
            ok, res = self.guarded(op, one_call, (obj.tree, tssm, next_attr()), {}, lambda: self.det(obj, mat, {"direct_pass": route}))
            if not ok:
                ctx.ev("judged-call-raised")
                obj.used.append("direct-pass(%s)" % attr_mode)
                return
            vals.append(res)
        obj.used.append("direct-pass(%s)" % attr_mode)
        if attr_mode.startswith("default"):
            obj.has_default_attr = True
        ctx.ev("direct-pass-compared")
        if node_mode.startswith("legacy"):
            ctx.ev("direct-pass-through-legacy-keyword")
        if entry != "model.parsimony":
            ctx.ev("entry-point-calculate.treescore")
        if attr_mode == "fresh-name" and "score" in used_before:
            ctx.ev("direct-pass-with-new-attribute-name-on-scored-tree")
        if tssm_mode == "omitted" and self.has_gap_cell(obj, mat):
            ctx.ev("default-gap-treatment-in-state-set-map")
        changed = bool(mat.ncol) and dict((t.label, [frozenset(x) for x in v]) for t, v in tssm.items()) != before
        if changed:
            ctx.note("fitch_down_pass-changed-the-callers-state-set-map")
        for rep, (got, sbc) in enumerate(vals):
            if got != want:
                key, why = self.diagnose_direct(obj, mat, one_call, gam, tssm_mode, weights, wclass, want, attr_mode, node_mode.split('-')[0], used_before, rep, changed, route)
                ctx.violation(key, "direct down pass no. %d gave %r, minimum number of weighted changes %r%s" % (rep + 1, got, want, why),
                              self.det(obj, mat, {"direct_pass": route, "weights": _jsonable(weights) if mat.ncol <= 30 else wclass}))
                return
            if sbc is not None:
                ctx.ev("per-character-list-compared")
                if len(sbc) != mat.ncol or any(x != y for x, y in zip(sbc, wl)):
                    ctx.violation("fitch_down_pass|per-character-list-wrong", "per-character %s, oracle %s" % (_jsonable(sbc[:40]), _jsonable(wl[:40])),
                                  self.det(obj, mat, {"direct_pass": route}))
                    return
                if sum(sbc) != got:
                    ctx.violation("fitch_down_pass|per-character-list-does-not-sum-to-total", "%r vs %r" % (sum(sbc), got),
                                  self.det(obj, mat, {"direct_pass": route}))
                    return

    def diagnose_direct(self, obj, mat, one_call, gam, tssm_mode, weights, wclass, want, attr_mode, node_class, used_before, rep, changed, route):
        def quiet(fn, *a, **k):
            try:
                return fn(*a, **k)
            except Exception as e:
                return "raised %s" % type(e).__name__
        if rep == 1:
            if changed:
                return "fitch_down_pass|callers-state-set-map-consumed-by-the-first-pass", "; the first pass with the same map was right"
            return "fitch_down_pass|not-pure|repeat-call-differs", "; the first pass with the same map was right"
        fresh = bridge.build_tree(obj.cur, mat.ns, obj.rooted)
        attr = None if attr_mode == "none" else ("state_sets" if attr_mode.startswith("default") else "c16_states_fresh")
        r = quiet(lambda: one_call(fresh, self._tssm(mat, gam, tssm_mode), attr)[0])
        if r == want and used_before:
            return ("fitch_down_pass|not-pure|attr=%s|after-%s" % (attr_mode, used_before[-1]),
                    " after %s on the same tree object; the same pass on a fresh copy gives %r" % (used_before, r))
        kw = {"gaps_as_missing": gam}
        if weights is not None:
            kw["weights"] = list(weights)
        canonical = quiet(self.parsimony.parsimony_score, bridge.build_tree(obj.cur, mat.ns, obj.rooted), mat.m, **kw)
        if canonical == want:
            if tssm_mode == "omitted":
                r2 = quiet(lambda: one_call(bridge.build_tree(obj.cur, mat.ns, obj.rooted), self._tssm(mat, True, "keyword"), attr)[0])
                if r2 == want:
                    return "taxon_state_sets_map|default-of-gaps_as_missing-is-not-True", "; with gaps_as_missing=True given the pass yields %r" % (r2,)
            return ("fitch_down_pass|differs-from-parsimony_score|attr=%s,nodes=%s" % (attr_mode, node_class),
                    "; parsimony_score on a fresh tree gives %r; the pass was written as %s" % (canonical, route))
        if weights is not None:
            unweighted = quiet(self.parsimony.parsimony_score, bridge.build_tree(obj.cur, mat.ns, obj.rooted), mat.m, gaps_as_missing=gam)
            if unweighted == sum(self.want_chars(obj, mat, gam)):
                return "fitch_down_pass|weights-not-applied-as-given|%s" % wclass, "; the unweighted score %r is right" % (unweighted,)
        why = lib.library_state_sets_differ(mat.kind, mat.m, mat.rows, gam, set(ref.leaf_taxa(obj.cur)))
        if why:
            return "taxon_state_sets_map|state-set-of-a-symbol-wrong|%s" % mat.kind.name, "; state set of cell %s" % why
        return "fitch_down_pass|not-minimal|%s" % mat.kind.name, ""

    def op_up_pass(self):
        """fitch_up_pass between scoring calls: nothing is demanded of it (the statement is about scores); it rewrites the stored sets."""
        obj, rng = self.obj, self.rng
        if not obj.has_default_attr:
            return
        legacy = rng.random() < 0.3
        try:
            with warnings.catch_warnings():
                warnings.simplefilter("ignore")
                fn = self.mods[rng.choice(["model.parsimony", "calculate.treescore"])].fitch_up_pass
                if legacy:
                    fn(None, preorder_nodes=obj.tree.preorder_node_iter())
                else:
                    fn(obj.tree.preorder_node_iter())
            self.ctx.ev("up-pass-between-calls")
        except core.CaseTimeout:
            raise
        except Exception as e:
            self.ctx.note("fitch_up_pass-raised:%s" % type(e).__name__)
        obj.used.append("up-pass")

    def op_failing_call(self):
        """calls that are wrong on purpose and stop half-way; whatever they do, the NEXT scoring call has to be right."""
        ctx, rng, obj, mat = self.ctx, self.rng, self.obj, self.mat
        dendropy, P = self.dendropy, self.parsimony
        which = rng.choice(["short-weights", "foreign-namespace", "non-empty-list", "map-without-some-leaf", "short-map-rows"])
        try:
            if which == "short-weights":
                if mat.ncol == 0:
                    return
                P.parsimony_score(obj.tree, mat.m, weights=[1] * rng.randrange(mat.ncol))
            elif which == "foreign-namespace":
                other = dendropy.DnaCharacterMatrix.from_dict(dict((l, "ACGT") for l in self.row_labels))
                P.parsimony_score(obj.tree, other)
            elif which == "non-empty-list":
                P.parsimony_score(obj.tree, mat.m, score_by_character_list=[7])
            elif which == "map-without-some-leaf":
                leaves = sorted(ref.leaf_taxa(obj.cur))
                other = dendropy.DnaCharacterMatrix.from_dict(dict((l, "ACGTTGCA") for l in leaves[:max(1, len(leaves) // 2)]), taxon_namespace=mat.ns)
                P.fitch_down_pass(obj.tree.postorder_node_iter(), taxon_state_sets_map=other.taxon_state_sets_map())
                obj.has_default_attr = True
            else:
                other = dendropy.StandardCharacterMatrix.from_dict(dict((l, "01"[i % 2] * (1 + i % 3)) for i, l in enumerate(self.row_labels + self.extra)),
                                                                   taxon_namespace=mat.ns)
                P.parsimony_score(obj.tree, other, weights=[1])
            ctx.ev("failing-call:returned:%s" % which)
        except core.CaseTimeout:
            raise
        except Exception as e:
            ctx.ev("failing-call:raised:%s" % which)
            ctx.ev("failing-call-raised")
        obj.has_default_attr = True
        obj.used.append("failed-call(%s)" % which)

    def _after_structure_change(self, what):
        obj = self.obj
        try:
            cur = bridge.extract(obj.tree)
        except bridge.ExtractError as e:
            self.ctx.note("structure-unreadable-after-%s" % what)
            self.stopped = True
            return False
        if not is_fitch_shape(cur) or not set(ref.leaf_taxa(cur)) <= set(self.row_labels):
            self.ctx.note("history-stopped:not-a-bifurcating-tree-after-%s" % what)
            self.stopped = True
            return False
        obj.cur = cur
        obj.spec_version += 1
        obj.used.append(what)
        self.ctx.ev("tree-object-changed-in-place")
        return True

    def op_restructure(self):
        """the SCORED object (nodes carry state sets) is re-rooted / re-seeded / shuffled / pruned through the library."""
        obj, rng = self.obj, self.rng
        tree = obj.tree
        nleaves = len(ref.leaf_taxa(obj.cur))
        if nleaves < 3:
            return
        what = rng.choice(["reroot_at_node", "reroot_at_edge", "reseed_at", "shuffle-children", "prune-leaf"])
        try:
            internal = [nd for nd in tree.preorder_node_iter() if nd._child_nodes and nd is not tree.seed_node]
            if what in ("reroot_at_node", "reseed_at"):
                if not internal:
                    return
                nd = rng.choice(internal)
                if what == "reroot_at_node":
                    tree.reroot_at_node(nd)
                else:
                    tree.reseed_at(nd)
            elif what == "reroot_at_edge":
                nodes = [nd for nd in tree.preorder_node_iter() if nd is not tree.seed_node]
                tree.reroot_at_edge(rng.choice(nodes).edge)
            elif what == "shuffle-children":
                for nd in tree.preorder_node_iter():
                    if nd._child_nodes and rng.random() < 0.6:
                        ch = list(nd._child_nodes)
                        rng.shuffle(ch)
                        nd.set_child_nodes(ch)
            else:
                victim = rng.choice(sorted(ref.leaf_taxa(obj.cur)))
                tree.prune_taxa([obj.ns.get_taxon(victim)])
        except core.CaseTimeout:
            raise
        except Exception as e:
            self.ctx.note("restructuring-raised:%s:%s" % (what, type(e).__name__))
            self.stopped = True
            return
        self._after_structure_change(what)

    def op_clone(self):
        """continue the history on a copy of the scored object."""
        obj, rng, dendropy = self.obj, self.rng, self.dendropy
        how = rng.choice(["Tree(tree)", "clone(0)", "clone(1)", "copy.copy", "extract_tree", "TreeList-copy", "deepcopy-with-matrix"])
        try:
            ns, mat = obj.ns, self.mat
            if how == "Tree(tree)":
                t2 = dendropy.Tree(obj.tree)
            elif how == "clone(0)":
                t2 = obj.tree.clone(0)
            elif how == "clone(1)":
                t2 = obj.tree.clone(1)
            elif how == "copy.copy":
                t2 = copy.copy(obj.tree)
            elif how == "extract_tree":
                t2 = obj.tree.extract_tree()
            elif how == "TreeList-copy":
                t2 = dendropy.TreeList(dendropy.TreeList([obj.tree], taxon_namespace=ns))[0]
            else:
                t2, m2 = copy.deepcopy((obj.tree, mat.m))
                ns = t2.taxon_namespace
                if m2.taxon_namespace is not ns:
                    self.ctx.note("deepcopy-of-(tree,matrix)-does-not-share-one-namespace")
                    return
                self.nmat += 1
                mat = Mat(m2, mat.rows, mat.kind, mat.ncol, mat.order, ns, self.nmat)
        except core.CaseTimeout:
            raise
        except Exception as e:
            self.ctx.note("copy-raised:%s:%s" % (how, type(e).__name__))
            return
        try:
            cur = bridge.extract(t2)
        except bridge.ExtractError:
            self.ctx.note("structure-unreadable-after-copy:%s" % how)
            return
        if not is_fitch_shape(cur) or ref.canon(cur, lengths=False) != ref.canon(obj.cur, lengths=False):
            # a copy with another structure is a matter of the copy semantics (other properties); judged on what it IS would
            # also be sound, but then it is no longer "a copy of the scored tree"
            self.ctx.note("copy-has-another-structure:%s" % how)
            if not is_fitch_shape(cur):
                return
        new = Obj(t2, cur, obj.rooted, ns, used=obj.used + ["copy:%s" % how], has_default_attr=True)
        self.obj = new
        self.mat = mat
        self.ctx.ev("history-continues-on-copy")
        # score the copy at once with the matrix the original was scored with
        call = ScoreCall(self.rng, mat.ncol)
        self.last_call = call
        self.score(new, mat, call)

    def op_redraw(self):
        """root position / child order: a FRESH tree from the shuffled, re-rooted spec, rooting flag drawn independently."""
        ctx, rng, obj, mat = self.ctx, self.rng, self.obj, self.mat
        s2 = gen.shuffle_children(obj.cur, rng)
        internal = [i for i, nd in enumerate(ref.preorder(s2)) if nd[3]]
        if internal:
            cand = ref.suppress_unary(ref.reroot(s2, rng.choice(internal)))
            if is_fitch_shape(cand):
                s2 = cand
        rooted2 = rng.choice([True, False, None])
        t2 = bridge.build_tree(s2, mat.ns, rooted2)
        call = self.last_call if (self.last_call is not None and rng.random() < 0.5 and
                                  (self.last_call.weights is None or len(self.last_call.weights) == mat.ncol)) else ScoreCall(rng, mat.ncol)
        args, kw, sbc = call.build(t2, mat.m)
        want_chars = self.want_chars(obj, mat, call.gam)     # oracle on the ORIGINAL drawing: the value may not depend on the drawing
        w = call.weights if call.weights is not None else [1] * mat.ncol
        want = sum(a * b for a, b in zip(want_chars, w))
        ok, got = self.guarded("parsimony_score", self.mods[call.entry].parsimony_score, args, kw,
                               lambda: self.det(obj, mat, {"redrawn": ref.to_newick(s2), "rooting_flag": rooted2, "call": call.describe(mat.ncol)}))
        ctx.ev("rerooted-compared")
        if ok and got != want:
            # is it the drawing (the original drawing scores right on a fresh tree) or the value as such?
            a0, k0, _ = call.build(bridge.build_tree(obj.cur, mat.ns, obj.rooted), mat.m)
            try:
                g0 = self.mods[call.entry].parsimony_score(*a0, **k0)
            except Exception as e:
                g0 = "raised %s" % type(e).__name__
            if g0 == want:
                ctx.violation("parsimony_score|depends-on-root-or-child-order", "%r for the original drawing, %r after re-drawing (rooting flag %r)" % (g0, got, rooted2),
                              self.det(obj, mat, {"redrawn": ref.to_newick(s2), "call": call.describe(mat.ncol)}))
            else:
                key, why = self.diagnose_score(Obj(t2, s2, rooted2, mat.ns), mat, call, want, want_chars, [])
                ctx.violation(key, "score %r, minimum number of weighted changes %r%s" % (got, want, why),
                              self.det(obj, mat, {"redrawn": ref.to_newick(s2), "call": call.describe(mat.ncol)}))

    # ---------------------------------------------------------------- driver
    def run(self):
        rng, ctx = self.rng, self.ctx
        nops = rng.choice([1, 2, 3, 4, 5, 7]) if self.quick else rng.choice([1, 2, 3, 5, 8, 12])
        ops = [("score-new", 3.0, self.op_score_new), ("score-same", 2.0, self.op_score_same_matrix), ("repeat", 1.5, self.op_repeat),
               ("direct", 3.0, self.op_direct_pass), ("up-pass", 1.0, self.op_up_pass), ("failing", 1.2, self.op_failing_call),
               ("edit", 1.0, self.op_edit_cell), ("restructure", 1.6, self.op_restructure), ("clone", 1.6, self.op_clone),
               ("redraw", 1.6, self.op_redraw)]
        total = sum(w for _, w, _ in ops)
        # first operation: a scoring call, or (sometimes) a direct pass with the default attribute name on the untouched object
        first = self.new_matrix()
        if first is None:
            return
        self.mat = first
        if rng.random() < 0.2:
            self.op_direct_pass()
        else:
            call = ScoreCall(rng, first.ncol)
            self.last_call = call
            self.score(self.obj, first, call)
        if self.last_call is None:
            self.last_call = ScoreCall(rng, first.ncol)
        for k in range(nops):
            if self.stopped:
                break
            r = rng.random() * total
            for name, wgt, fn in ops:
                r -= wgt
                if r < 0:
                    break
            if name in ("repeat",) and (self.last_call.weights is not None and len(self.last_call.weights) != self.mat.ncol):
                name, fn = "score-same", self.op_score_same_matrix
            ctx.ev("op:%s" % name)
            fn()
        # whatever came last, one more plain scoring call closes the history (so that every in-between operation is followed by a judged call)
        if not self.stopped and self.obj.used and self.obj.used[-1] != "score":
            call = ScoreCall(rng, self.mat.ncol)
            self.last_call = call
            self.score(self.obj, self.mat, call)
        if self.case["i"] < 3:
            ctx.sample({"tree": ref.to_newick(self.obj.cur), "operations": self.obj.used, "calls": self.journal.history(self.obj.tree)[-8:],
                        "last_matrix": dict((k, "".join(v)) for k, v in self.mat.rows.items()) if self.mat.ncol <= 12 else "%d cols" % self.mat.ncol})


def run_case(case, ctx):
    import dendropy  # noqa
    from dendropy.model import parsimony
    from dendropy.calculate import treescore
    _silence_deprecations()
    rng = random.Random("%s/%s" % (case["seed"], sorted((k, str(v)) for k, v in case.items())))
    journal = Journal()
    with Hooks(ctx) as hooks:
        def post(snap, obj, args, kw, result, exc):
            tree = args[0] if args else kw.get("tree")
            gam = args[2] if len(args) > 2 else kw.get("gaps_as_missing", "(omitted)")
            wts = args[3] if len(args) > 3 else kw.get("weights")
            journal.add(tree, {"gaps_as_missing": gam, "weights": wts is not None,
                               "result": _jsonable(result) if exc is None else "raised %s" % type(exc).__name__})
        hooks.install(parsimony, "parsimony_score", post=post)
        hooks.install(treescore, "parsimony_score", post=post)
        if case["kind"] == "directed-purity":
            directed(ctx, rng, journal)
            return
        if case["kind"] == "alphabet-grown":
            alphabet_grown(ctx, rng, journal)
            return
        History(ctx, rng, journal, case).run()


def alphabet_grown(ctx, rng, journal):
    """A generated Standard alphabet gains fundamental states AFTER matrices over it were scored (new_fundamental_state +
    compile_lookup_mappings, 1-2 rounds).  The score of a matrix is a function of tree and matrix only: the missing-data and gap
    cells of every LATER matrix stand for the enlarged state set, whatever the state objects worked out for earlier calls.  Each
    call is compared with the Sankoff oracle over the state set the alphabet has at that moment, for gaps_as_missing True and
    False, on the tree object used before and on a fresh build."""
    import dendropy
    from dendropy.datamodel import charstatemodel
    from dendropy.model import parsimony
    n = rng.choice([3, 4, 4, 5, 6, 8])
    rooted = rng.random() < 0.5
    spec = random_binary(rng, n, rooted)
    labels = sorted(ref.leaf_taxa(spec))
    ns = dendropy.TaxonNamespace(labels)
    tree = bridge.build_tree(ref.copy(spec), ns, rooted)
    pool = list("0123456789")
    rng.shuffle(pool)
    k = rng.choice([1, 2, 3])
    syms = pool[:k]
    spare = pool[k:]
    sa = charstatemodel.new_standard_state_alphabet("".join(syms))
    prime = rng.random() < 0.85               # else: control without an earlier call
    ncol = rng.choice([1, 2, 3, 5])
    done = []

    def one_round(tag, tr):
        kind = lib.Kind("custom-grown", dict((x, frozenset([x])) for x in syms), list(syms))
        toks = list(syms) * 2 + ["?", "?", "-"]
        rows = dict((l, [rng.choice(toks) for _ in range(ncol)]) for l in labels)
        m = dendropy.StandardCharacterMatrix(taxon_namespace=ns, default_state_alphabet=sa)
        m = dendropy.StandardCharacterMatrix.from_dict(dict((l, list(rows[l])) for l in labels), char_matrix=m)
        earlier = bool(done)                  # some matrix over this alphabet was scored before this round
        for gam in rng.sample([True, False], 2):
            want = sum(oracle_scores(spec, rows, kind, gam, ctx, True))
            try:
                got = parsimony.parsimony_score(tr, m, gaps_as_missing=gam)
            except core.CaseTimeout:
                raise
            except Exception as e:
                ctx.violation("parsimony_score|raises|%s|alphabet-grown" % type(e).__name__, core.exc_brief(e),
                              {"tree": ref.to_newick(spec), "rows": rows, "alphabet": list(syms), "history": list(done)})
                continue
            ctx.ev("score-compared-with-oracle")
            ctx.ev("alphabet-grown-score-compared:%s" % tag)
            done.append("%s: %d symbols, gaps_as_missing=%s -> %r" % (tag, len(syms), gam, got))
            if got != want:
                ctx.violation("parsimony_score|not-minimal|custom|%s|gaps_as_missing=%s" % (
                    "alphabet-grown-after-an-earlier-call" if (tag != "before" and earlier) else "alphabet-grown" if tag != "before" else "generated-alphabet", gam),
                    "score %r, minimum number of changes %r over the %d states the alphabet has now" % (got, want, len(syms)),
                    {"tree": ref.to_newick(spec), "rows": rows, "alphabet": list(syms), "history": list(done)})
    if prime:
        one_round("before", tree)
    for r in range(rng.choice([1, 1, 2])):
        for _ in range(rng.choice([1, 1, 2])):
            if not spare:
                break
            x = spare.pop()
            sa.new_fundamental_state(x)
            syms.append(x)
        sa.compile_lookup_mappings()
        ctx.ev("alphabet-grown")
        one_round("after-growth-%d" % (r + 1), tree if rng.random() < 0.6 else bridge.build_tree(ref.copy(spec), ns, rooted))
    ctx.nontrivial(("alphabet-grown", ref.to_newick(spec), k, len(syms), prime))


def directed(ctx, rng, journal):
    """the canonical witness of the caching mechanism: matrix 1 (score 0) then matrix 2 (score 3) on one tree object."""
    import dendropy
    from dendropy.model import parsimony
    spec = gen.shape_to_spec(((0, 1), (2, 3)))
    labels = sorted(ref.leaf_taxa(spec))
    ns = dendropy.TaxonNamespace(labels)
    tree = bridge.build_tree(spec, ns, True)
    m1 = dendropy.DnaCharacterMatrix.from_dict(dict((l, "AAA") for l in labels), taxon_namespace=ns)
    rows2 = {"T0": "ACA", "T1": "CCG", "T2": "AAG", "T3": "CAA"}
    m2 = dendropy.DnaCharacterMatrix.from_dict(rows2, taxon_namespace=ns)
    want2 = sum(oracle_scores(spec, dict((k, list(v)) for k, v in rows2.items()), lib.FIXED["dna"], True, ctx, True))
    s1 = parsimony.parsimony_score(tree, m1)
    s2 = parsimony.parsimony_score(tree, m2)
    ctx.ev("score-compared-with-oracle")
    ctx.ev("repeat-call-compared")
    det = {"tree": ref.to_newick(spec), "matrix1": "all AAA", "matrix2": rows2, "calls": journal.history(tree)}
    if s1 != 0:
        ctx.violation("parsimony_score|not-minimal|dna", "constant matrix scores %r" % s1, det)
    if s2 != want2:
        ctx.violation("parsimony_score|not-pure|after-score",
                      "second matrix scores %r on a tree scored before, %r by definition" % (s2, want2), det)
    c = dendropy.Tree(tree)
    s3 = parsimony.parsimony_score(c, m1)
    if s3 != 0:
        ctx.violation("parsimony_score|not-pure|after-copy:Tree(tree)", "clone scores %r for the constant matrix" % s3, det)
    ctx.sample({"kind": "directed-purity", "tree": ref.to_newick(spec), "scores": [s1, s2, s3], "oracle_second": want2})
    ctx.nontrivial(("directed", 1))
    ctx.nontrivial(("directed", 2))
