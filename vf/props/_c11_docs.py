"""Documents for the read routes of C11: a table {schema x (trees | matrices | both) x layout}.

A document is described by a JSON-able dict (written back into the operation descriptor, so a logged history replays):

    schema    newick | nexus | nexml | fasta | phylip
    colls     [[tree descriptor, ...], ...]      one entry per tree collection (TREES block / <trees> element)
    mats      [{"rows": [label, ...], "dtype": dna|protein|standard|continuous, "seqs": [row number, ...]}, ...]
    taxa      nexus: "none" | "one" | "two" (two titled TAXA blocks, every other block LINKed to one of them)
    translate nexus: TRANSLATE statement in the TREES blocks
    datablock nexus: DATA block (with NTAX) instead of CHARACTERS
    interleave  nexus / phylip: the matrix is written in two pages
    strict    phylip: 10-column labels

Everything is hand written text: nothing is produced with the library under test.  Labels are letters only."""
from .. import ref

DTYPES = ("dna", "protein", "standard", "continuous")
ALPHABET = {"dna": "ACGT", "protein": "ARND", "standard": "0123"}
NEXUS_FORMAT = {"dna": "DATATYPE=DNA GAP=- MISSING=?", "protein": "DATATYPE=PROTEIN GAP=- MISSING=?",
                "standard": "DATATYPE=STANDARD SYMBOLS=\"0123\" GAP=- MISSING=?", "continuous": "DATATYPE=CONTINUOUS"}
NEXML_TYPE = {"dna": "DnaSeqs", "protein": "ProteinSeqs", "standard": "StandardCells", "continuous": "ContinuousSeqs"}
NCHAR = 6


def seq_for(k, dtype="dna"):
    """a distinct sequence per integer (row provenance): a string, or a list of dyadic floats for continuous data."""
    if dtype == "continuous":
        out = []
        k += 1
        for _ in range(NCHAR):
            out.append((k % 4) * 0.5 + 0.25)
            k //= 4
        return out
    al = ALPHABET[dtype]
    s = ""
    k += 1
    while k:
        s += al[k % 4]
        k //= 4
    return (s + al[0] * NCHAR)[:NCHAR]


def sig_of(values):
    return "".join(str(v) for v in values)


def seq_text(values, sep=""):
    if isinstance(values, str):
        return values
    return " ".join(repr(float(v)) for v in values)


def _pages(values):
    """two pages of a sequence (interleaved layouts)."""
    h = NCHAR // 2
    return values[:h], values[h:]


def newick_of(spec, num=None):
    def f(n):
        s = ("(" + ",".join(f(c) for c in n[3]) + ")") if n[3] else ""
        if not n[3] and n[0] is not None:
            s += num.get(n[0], n[0]) if num else n[0]
        return s
    return f(spec) + ";"


def _uniq(seq):
    out = []
    for x in seq:
        if x not in out:
            out.append(x)
    return out


class Doc(object):
    """rendered document: text + what it holds."""

    def __init__(self):
        self.schema = None
        self.text = None
        self.colls = []        # [[leaf labels of tree, ...], ...]
        self.mats = []         # [[row label, ...], ...]
        self.dtypes = []       # data type per matrix
        self.labels = []       # every label of the document, in order of first appearance
        self.ntax_decls = 0    # number of NTAX declarations (nexus)
        self.two_taxa_blocks = False
        self.kw = {}           # reader keywords the layout needs


def render(d, specs_of, seq_of):
    """d: descriptor (see module doc); specs_of(td) -> spec; seq_of(row number, dtype) -> values."""
    doc = Doc()
    doc.schema = schema = d["schema"]
    colls = [[specs_of(td) for td in c] for c in d.get("colls", [])]
    mats = []
    for m in d.get("mats", []):
        mats.append([(lbl, seq_of(k, m["dtype"])) for lbl, k in zip(m["rows"], m["seqs"])])
        doc.dtypes.append(m["dtype"])
    doc.colls = [[ref.leaf_taxa(s) for s in c] for c in colls]
    doc.mats = [[l for l, _ in rows] for rows in mats]
    labels = []
    for c in doc.colls:
        for t in c:
            labels.extend(t)
    for rows in doc.mats:
        labels.extend(rows)
    doc.labels = _uniq(labels)
    if schema == "newick":
        doc.text = "\n".join("[&R] " + newick_of(s) for c in colls for s in c) + "\n"
    elif schema == "fasta":
        doc.text = "".join(">%s\n%s\n" % (l, seq_text(s)) for l, s in mats[0])
    elif schema == "phylip":
        doc.text = _phylip(d, mats[0], doc)
    elif schema == "nexus":
        doc.text = _nexus(d, colls, mats, doc)
    elif schema == "nexml":
        doc.text = _nexml(d, colls, mats, doc)
    else:
        raise ValueError(schema)
    return doc


def _phylip(d, rows, doc):
    dtype = doc.dtypes[0]
    strict = bool(d.get("strict"))
    inter = bool(d.get("interleave"))
    doc.kw["data_type"] = dtype
    if strict:
        doc.kw["strict"] = True
    if inter:
        doc.kw["interleaved"] = True

    def lab(l):
        return (l[:10].ljust(10)) if strict else (l + "  ")
    out = ["%d %d" % (len(rows), NCHAR)]
    if inter:
        for l, s in rows:
            out.append(lab(l) + seq_text(_pages(s)[0]))
        out.append("")
        for l, s in rows:
            out.append(seq_text(_pages(s)[1]))
    else:
        for l, s in rows:
            out.append(lab(l) + seq_text(s))
    return "\n".join(out) + "\n"


def _groups(d, colls, mats):
    """which TAXA block a block is linked to when there are two: collections/matrices alternate."""
    n = len(colls) + len(mats)
    return [i % 2 for i in range(n)]


def _nexus(d, colls, mats, doc):
    taxa = d.get("taxa", "none")
    translate = bool(d.get("translate"))
    datablock = bool(d.get("datablock"))
    inter = bool(d.get("interleave"))
    blocks = [("trees", c, lab) for c, lab in zip(colls, doc.colls)] + [("chars", rows, [[l for l, _ in rows]]) for rows in mats]
    # order: matrices first (as in files written by most programs), then trees
    blocks = [b for b in blocks if b[0] == "chars"] + [b for b in blocks if b[0] == "trees"]
    grp = [0] * len(blocks)
    if taxa == "two" and len(blocks) >= 2:
        grp = [i % 2 for i in range(len(blocks))]
    elif taxa == "two":
        taxa = "one"
    glabels = {0: [], 1: []}
    for g, b in zip(grp, blocks):
        for t in b[2]:
            glabels[g].extend(t)
    glabels = dict((g, _uniq(v)) for g, v in glabels.items())
    out = ["#NEXUS", ""]
    title = {0: "one", 1: "two"}
    doc.two_taxa_blocks = taxa == "two"
    if taxa != "none":
        for g in sorted(set(grp)):
            out.append("BEGIN TAXA;")
            if taxa == "two":
                out.append("  TITLE %s;" % title[g])
            out += ["  DIMENSIONS NTAX=%d;" % len(glabels[g]), "  TAXLABELS " + " ".join(glabels[g]) + ";", "END;", ""]
            doc.ntax_decls += 1
    for k, (g, b) in enumerate(zip(grp, blocks)):
        link = ["  LINK TAXA = %s;" % title[g]] if taxa == "two" else []
        if b[0] == "chars":
            rows = b[1]
            dtype = doc.dtypes[[id(x) for x in mats].index(id(rows))]
            fmt = NEXUS_FORMAT[dtype] + (" INTERLEAVE" if inter else "")
            if datablock and taxa != "two":
                out += ["BEGIN DATA;", "  DIMENSIONS NTAX=%d NCHAR=%d;" % (len(rows), NCHAR)]
                doc.ntax_decls += 1
            else:
                out += ["BEGIN CHARACTERS;", "  TITLE chars%d;" % k] + link + ["  DIMENSIONS NCHAR=%d;" % NCHAR]
            out += ["  FORMAT %s;" % fmt, "  MATRIX"]
            if inter:
                out += ["    %s  %s" % (l, seq_text(_pages(s)[0])) for l, s in rows]
                out.append("")
                out += ["    %s  %s" % (l, seq_text(_pages(s)[1])) for l, s in rows]
            else:
                out += ["    %s  %s" % (l, seq_text(s)) for l, s in rows]
            out += ["  ;", "END;", ""]
        else:
            specs = b[1]
            out.append("BEGIN TREES;")
            out += ["  TITLE trees%d;" % k] if taxa == "two" else []
            out += link
            num = None
            if translate:
                tl = glabels[g] if taxa != "none" else _uniq([x for t in b[2] for x in t])
                num = dict((l, str(i + 1)) for i, l in enumerate(tl))
                out.append("  TRANSLATE " + ", ".join("%s %s" % (num[l], l) for l in tl) + ";")
            for i, s in enumerate(specs):
                use = num
                if num and d.get("translate_mixed") and i % 2 == 1:
                    # legal and common in hand-edited files: a taxon of the TRANSLATE table written by its full label
                    # (the unchanged library registered such a taxon a second time when the block has no TAXA block)
                    use = dict(list(num.items())[1:])
                out.append("  TREE t%d = [&R] %s" % (i, newick_of(s, use)))
            out += ["END;", ""]
    return "\n".join(out)


def _nexml(d, colls, mats, doc):
    labels = doc.labels
    oid = dict((l, "otu%d" % i) for i, l in enumerate(labels))
    out = ['<?xml version="1.0" encoding="ISO-8859-1"?>',
           '<nex:nexml version="0.9" xmlns="http://www.nexml.org/2009" '
           'xmlns:xsi="http://www.w3.org/2001/XMLSchema-instance" xmlns:nex="http://www.nexml.org/2009">',
           '  <otus id="taxa0">']
    out += ['    <otu id="%s" label="%s" />' % (oid[l], l) for l in labels]
    out += ['  </otus>']
    for mi, rows in enumerate(mats):
        dtype = doc.dtypes[mi]
        out.append('  <characters id="chars%d" otus="taxa0" xsi:type="nex:%s">' % (mi, NEXML_TYPE[dtype]))
        if dtype == "standard":
            out += ['    <format>', '      <states id="m%dst">' % mi]
            out += ['        <state id="m%ds%s" symbol="%s" />' % (mi, c, c) for c in ALPHABET["standard"]]
            out += ['      </states>']
            out += ['      <char id="m%dc%d" states="m%dst" />' % (mi, j, mi) for j in range(NCHAR)]
            out += ['    </format>', '    <matrix>']
            for ri, (l, s) in enumerate(rows):
                out.append('      <row id="m%dr%d" otu="%s">' % (mi, ri, oid[l]))
                out += ['        <cell char="m%dc%d" state="m%ds%s" />' % (mi, j, mi, c) for j, c in enumerate(s)]
                out.append('      </row>')
            out += ['    </matrix>']
        else:
            out += ['    <format>']
            out += ['      <char id="m%dc%d" />' % (mi, j) for j in range(NCHAR)]
            out += ['    </format>', '    <matrix>']
            for ri, (l, s) in enumerate(rows):
                out.append('      <row id="m%dr%d" otu="%s"><seq>%s</seq></row>' % (mi, ri, oid[l], seq_text(s)))
            out += ['    </matrix>']
        out.append('  </characters>')
    for ci, specs in enumerate(colls):
        out.append('  <trees id="trees%d" otus="taxa0">' % ci)
        for ti, s in enumerate(specs):
            out.append('    <tree id="c%dtree%d" xsi:type="nex:FloatTree">' % (ci, ti))
            ids = {}
            nodes = list(ref.preorder(s))
            for k, n in enumerate(nodes):
                ids[id(n)] = "c%dt%dn%d" % (ci, ti, k)
                attrs = ' root="true"' if n is s else ""
                if not n[3] and n[0] is not None:
                    attrs += ' otu="%s"' % oid[n[0]]
                out.append('      <node id="%s"%s />' % (ids[id(n)], attrs))
            e = 0
            for n in nodes:
                for c in n[3]:
                    out.append('      <edge id="c%dt%de%d" source="%s" target="%s" />' % (ci, ti, e, ids[id(n)], ids[id(c)]))
                    e += 1
            out.append('    </tree>')
        out.append('  </trees>')
    out += ['</nex:nexml>', '']
    return "\n".join(out)
