"""C12 helper: derived classes used as copy sources (import only after /repo/src is on the path).

SubTree populates an attribute BEFORE Tree.__init__ runs (the copy constructor then meets an attribute that
"a derived class already populated"), overrides node_factory and carries a class-level attribute; SubNode carries a
class-level attribute; PlainTree / PlainNode are bare subclasses used as tree_factory / node_factory products."""
import dendropy


class SubNode(dendropy.Node):
    kind_tag = ["class-level attribute of SubNode"]


class SubTree(dendropy.Tree):
    kind_tag = {"class-level": "attribute of SubTree"}

    def __init__(self, *args, **kwargs):
        self.born = ["set by the derived class before Tree.__init__"]
        dendropy.Tree.__init__(self, *args, **kwargs)

    @classmethod
    def node_factory(cls, **kwargs):
        return SubNode(**kwargs)


class PlainNode(dendropy.Node):
    pass


class PlainTree(dendropy.Tree):
    pass


class SubList(dendropy.TreeList):
    kind_tag = ("class-level attribute of SubList",)


def build_tree(spec, ns, rooted, label, tree_cls, node_cls):
    """like vf.bridge.build_tree (node API, no parser), with the classes given."""
    taxa_by_label = {}
    for t in ns:
        taxa_by_label.setdefault(t.label, t)
    tree = tree_cls(taxon_namespace=ns, label=label)
    if rooted is not None:
        tree.is_rooted = rooted

    def taxon_for(lbl):
        if lbl is None:
            return None
        t = taxa_by_label.get(lbl)
        if t is None:
            t = ns.new_taxon(label=lbl)
            taxa_by_label[lbl] = t
        return t
    seed = tree.seed_node
    seed.taxon = taxon_for(spec[0])
    seed.label = spec[1]
    seed.edge.length = spec[2]
    stack = [(seed, spec)]
    while stack:
        nd, s = stack.pop()
        for cs in s[3]:
            ch = node_cls(taxon=taxon_for(cs[0]), label=cs[1], edge_length=cs[2])
            nd.add_child(ch)
            stack.append((ch, cs))
    return tree
